#!/usr/bin/env python3
"""regenerate MANIFEST.json from lean/props.json + manifest_meta.json (keeps it valid at all times)"""
import json, os
here = os.path.dirname(os.path.abspath(__file__))
props = {fn[:-5]: json.load(open(os.path.join(here, "props", fn))) for fn in sorted(os.listdir(os.path.join(here, "props"))) if fn.endswith(".json")}
meta = {"checks": {k: v["manifest"] for k, v in props.items() if v.get("claimed", True)}, "not_applicable": json.load(open(os.path.join(here, "not_applicable.json"))),
        "notes": "See DESIGN.md. Every claimed check: Lean theorems (obligations in props/<id>.json, audited with #print axioms) + tie to /repo (translator and/or correspondence) + failing-input search when either breaks."}
allp = [json.loads(l)["id"] for l in open(os.path.join(here, "properties.jsonl"))]
checks = []
for pid in allp:
    if pid not in props or pid not in meta["checks"]:
        continue
    m = meta["checks"][pid]
    checks.append({
        "property_id": pid,
        "quick_cmd": "./check %s --tier quick" % pid,
        "thorough_cmd": "./check %s --tier thorough" % pid,
        "evidence_file": "evidence/%s.json" % pid,
        "replay_cmd_template": "./check %s --replay {path}" % pid,
        "engine": "lean4-proof+correspondence",
        "level_claimed": {"category": "proof", "text": m["text"], "design_ref": m.get("design_ref", "DESIGN.md section 3 (%s)" % pid)},
        "level_note": m["note"],
        "technique": m["technique"],
    })
na = [{"property_id": pid, "reason": meta["not_applicable"].get(pid, "check not built yet in this round; no claim is made")} for pid in allp if pid not in [c["property_id"] for c in checks]]
man = {
    "version": 1,
    "setup_cmd": "cd lean && lake build " + " ".join(sorted(set(t for c in checks for t in [props[c["property_id"]].get("driver", "driver_" + c["property_id"].lower())] + props[c["property_id"]]["modules"]))),
    "hooks": {"guard": "TANSEY_LAB_BATCHIE_VERIF", "enable": "no source hooks are needed: all observation is done from outside (recording proxies substituted by the harness)",
              "baseline_off_cmd": "cd /repo && /venv/bin/python -m pytest -ra -q -p no:cacheprovider --timeout=900 --continue-on-collection-errors",
              "source_commits": meta.get("source_commits", []), "add_only": True},
    "engines": [{"name": "lean4-proof+correspondence", "path": "check", "serves_properties": [c["property_id"] for c in checks],
                 "kind_free_text": "Lean 4 theorems about a model (lean/Batchie) tied to /repo by a Python->Lean translator (translate/py2lean.py) and a differential correspondence harness (harness/) driving lean/Driver.lean"}],
    "checks": checks,
    "not_applicable": na,
    "notes": meta.get("notes", ""),
}
json.dump(man, open(os.path.join(here, "MANIFEST.json"), "w"), indent=1)
print("claimed:", [c["property_id"] for c in checks])
