#!/usr/bin/env python3
"""print the markdown table of seeded changes and which check catches them (for DESIGN.md 10.5)"""
import json, os
here = os.path.dirname(os.path.abspath(__file__))
rows = []
for i in sorted(os.listdir(os.path.join(here, "seeded"))):
    d = os.path.join(here, "seeded", i)
    if not os.path.exists(os.path.join(d, "meta.json")):
        continue
    m = json.load(open(os.path.join(d, "meta.json")))
    r = json.load(open(os.path.join(d, "result.json"))) if os.path.exists(os.path.join(d, "result.json")) else None
    out = "not run"
    if r:
        out = ("caught, concrete replay" if r["concrete_replay"] else "caught, no-failing-input-found") if r["caught"] else "MISSED"
        out += " (%s, %ss)" % (r["tier"], r["wall_s"])
    summ = (m.get("summary") or "").replace("|", "/").replace("\n", " ")
    needs = (m.get("needs") or "").replace("|", "/").replace("\n", " ")
    rows.append("| %s | %s | %s | %s | %s |" % (i, m["property"], summ[:260] + ("…" if len(summ) > 260 else ""), needs[:200] + ("…" if len(needs) > 200 else ""), out))
print("| Id | Property | Change | Needs | `./check <property>` |\n|---|---|---|---|---|")
print("\n".join(rows))
