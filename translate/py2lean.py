#!/usr/bin/env python3
"""py2lean -- translate a tiny integer subset of Python into Lean 4 definitions.

This is the *translator tie* of /verif (DESIGN.md section 2.2): on every run the
integer kernels of /repo are re-read from the current working tree and re-emitted as
Lean definitions under lean/Batchie/Generated/.  Theorems in lean/Batchie/Props are
stated about these generated definitions, so a change to the Python source changes
the text under the theorems.

Accepted subset (anything else => TranslateError, i.e. a broken tie):
  * integer locals, `=` and augmented assignment with + - * // %
  * comparisons (single operator), `and`/`or`/`not`
  * if / else
  * `for v in range(a[,b[,c]])`, `for a, b in zip(range(..), range(..))`,
    `trange(x, ...)` is read as `range(x)`
  * `while cond:` (becomes a fuel-bounded structural recursion; running out of fuel
    sets the flag `oof`)
  * `yield e`, `yield e1, e2`
  * `assert cond`
  * `return e` as the last statement
  * calls listed in the per-function `events` table become events appended to `out`
  * statements listed in `skip` patterns (logging) are dropped, *textually recorded*
    in the generated file's header so that a change there is visible too.

Python `//` and `%` become `Int.fdiv` / `Int.fmod`; a zero divisor sets `err`.
The state of a function is one structure `St` of `Int` fields (parameters and locals),
`out` (yields/events), `err`, `oof`.
"""
import ast
import hashlib
import json
import os
import sys
import textwrap


class TranslateError(Exception):
    pass


def lean_name(n):
    # python identifiers are valid Lean identifiers, except a few keywords
    if n in {"end", "at", "from", "have", "show", "fun", "by", "do", "then", "else", "if", "let", "in", "open", "instance", "structure", "where", "with", "match", "export", "import", "local", "prefix", "infix", "notation", "macro", "syntax", "set_option", "universe", "variable", "theorem", "def", "example", "namespace", "section", "mutual", "private", "protected", "partial", "unsafe", "deriving", "class", "abbrev", "inductive", "axiom", "opaque", "calc", "forall", "exists", "Type", "Prop", "Sort", "using", "return", "for", "while", "break", "continue", "try", "catch", "finally", "throw", "unless", "mut", "nomatch", "nofun", "suffices", "obtain", "out", "err", "oof", "ret"}:
        return n + "_"
    return n


class FnTranslator:
    def __init__(self, fn: ast.FunctionDef, cfg: dict, body=None):
        self.fn = fn
        self.cfg = cfg
        self.body = body if body is not None else fn.body
        self.params = list(cfg.get("params") or [a.arg for a in fn.args.args])
        self.attr_params = cfg.get("attr_params", {})  # "results.n_thetas" -> param name
        self.events = cfg.get("events", {})  # "model.step" -> int
        self.skip_calls = set(cfg.get("skip_calls", []))  # "logger.info"
        self.skip_assign_calls = cfg.get("skip_assign_calls", [])  # names whose RHS is opaque
        # C17 (VI branch): `x = obj.method(kw=<int expr>)` recorded as the event code followed by the integer argument,
        #   {"samples": {"call": "model.sample", "code": 4, "kwarg": "num_samples"}}
        self.event_assigns = cfg.get("event_assigns", {})
        # C17 (VI branch): `for y in x:` over an opaque list whose LENGTH is the named extra parameter, {"samples": "returned"}
        self.len_iterables = cfg.get("len_iterables", {})
        self.fuel = cfg.get("fuel", {})  # while index -> Lean expr over st
        self.locals = []
        self.whiles = []  # (name, cond, bodyfn) definitions emitted before main
        self.defs = []
        self.yield_arity = None
        self.has_ret = False
        self.skipped = []
        self.opaque = {}
        self.counter = 0
        self.inlined = []
        self._collect_locals(self.body)

    # ---- locals ---------------------------------------------------------------------
    def _collect_locals(self, stmts):
        for p in self.params:
            if p not in self.locals:
                self.locals.append(p)
        for node in ast.walk(ast.Module(body=list(stmts), type_ignores=[])):
            if isinstance(node, (ast.Assign, ast.AugAssign)):
                tgts = node.targets if isinstance(node, ast.Assign) else [node.target]
                for t in tgts:
                    if isinstance(t, ast.Name):
                        if self._is_opaque_assign(node):
                            continue
                        if t.id not in self.locals:
                            self.locals.append(t.id)
            elif isinstance(node, ast.For):
                ts = node.target.elts if isinstance(node.target, ast.Tuple) else [node.target]
                for t in ts:
                    if not isinstance(t, ast.Name):
                        raise TranslateError("for target must be names")
                    if t.id not in self.locals and t.id != "_":
                        self.locals.append(t.id)

    def _is_opaque_assign(self, node):
        if isinstance(node, ast.Assign) and len(node.targets) == 1 and isinstance(node.targets[0], ast.Name):
            return node.targets[0].id in self.skip_assign_calls or node.targets[0].id in self.event_assigns
        return False

    # ---- expressions ----------------------------------------------------------------
    def dotted(self, e):
        if isinstance(e, ast.Name):
            return e.id
        if isinstance(e, ast.Attribute):
            return self.dotted(e.value) + "." + e.attr
        raise TranslateError("not a dotted name: " + ast.dump(e))

    def expr(self, e, divs):
        """returns Lean Int expression; appends divisors to `divs`"""
        if isinstance(e, ast.Constant):
            if isinstance(e.value, bool) or not isinstance(e.value, int):
                raise TranslateError("non-int constant %r" % (e.value,))
            return "(%d : Int)" % e.value if e.value >= 0 else "(-%d : Int)" % (-e.value)
        if isinstance(e, ast.Name):
            if e.id not in self.locals:
                raise TranslateError("unknown name " + e.id)
            return "st." + lean_name(e.id)
        if isinstance(e, ast.Attribute):
            d = self.dotted(e)
            if d in self.attr_params:
                return "st." + lean_name(self.attr_params[d])
            raise TranslateError("unknown attribute " + d)
        if isinstance(e, ast.UnaryOp) and isinstance(e.op, ast.USub):
            return "(- %s)" % self.expr(e.operand, divs)
        if isinstance(e, ast.BinOp):
            a = self.expr(e.left, divs)
            b = self.expr(e.right, divs)
            if isinstance(e.op, ast.Add):
                return "(%s + %s)" % (a, b)
            if isinstance(e.op, ast.Sub):
                return "(%s - %s)" % (a, b)
            if isinstance(e.op, ast.Mult):
                return "(%s * %s)" % (a, b)
            if isinstance(e.op, ast.FloorDiv):
                divs.append(b)
                return "(Int.fdiv %s %s)" % (a, b)
            if isinstance(e.op, ast.Mod):
                divs.append(b)
                return "(Int.fmod %s %s)" % (a, b)
            raise TranslateError("operator " + type(e.op).__name__)
        if isinstance(e, ast.Call):
            d = self.dotted(e.func)
            inl = self.cfg.get("inline_calls", {})
            if d in inl and not e.keywords:
                args = " ".join(self.expr(a, divs) for a in e.args)
                self.inlined.append("(%s.run %s).err" % (inl[d], args))
                return "(%s.run %s).ret" % (inl[d], args)
            raise TranslateError("call " + d)
        raise TranslateError("expression " + ast.dump(e))

    def cond(self, e, divs):
        if isinstance(e, ast.Compare):
            if len(e.ops) != 1:
                raise TranslateError("chained comparison")
            a = self.expr(e.left, divs)
            b = self.expr(e.comparators[0], divs)
            op = {ast.Lt: "<", ast.LtE: "≤", ast.Gt: ">", ast.GtE: "≥", ast.Eq: "=", ast.NotEq: "≠"}.get(type(e.ops[0]))
            if op is None:
                raise TranslateError("comparison op")
            return "decide (%s %s %s)" % (a, op, b)
        if isinstance(e, ast.BoolOp):
            parts = [self.cond(v, divs) for v in e.values]
            j = " && " if isinstance(e.op, ast.And) else " || "
            return "(" + j.join(parts) + ")"
        if isinstance(e, ast.UnaryOp) and isinstance(e.op, ast.Not):
            return "(!%s)" % self.cond(e.operand, divs)
        raise TranslateError("condition " + ast.dump(e))

    def range_expr(self, call, divs):
        name = self.dotted(call.func)
        if name not in ("range", "trange"):
            raise TranslateError("iterable must be range/trange, got " + name)
        args = [self.expr(a, divs) for a in call.args]
        if name == "trange":
            args = args[:1]
        if len(args) == 1:
            return "(pyRange 0 %s 1)" % args[0]
        if len(args) == 2:
            return "(pyRange %s %s 1)" % (args[0], args[1])
        if len(args) == 3:
            return "(pyRange %s %s %s)" % tuple(args)
        raise TranslateError("range arity")

    # ---- statements -----------------------------------------------------------------
    def fresh(self, base):
        self.counter += 1
        return "%s_%d" % (base, self.counter)

    def errupd(self, divs):
        terms = ["(%s == 0)" % d for d in divs] + self.inlined
        self.inlined = []
        if not terms:
            return ""
        return ", err := st.err || " + " || ".join(terms)

    def block(self, stmts, ind):
        """returns Lean term of type St, given `st : St` in scope"""
        lines = []
        pad = " " * ind
        for s in stmts:
            t = self.stmt(s, ind)
            if t is None:
                continue
            if isinstance(t, list):
                for tt in t:
                    lines.append(pad + "let st : St := " + tt)
                continue
            lines.append(pad + "let st : St := " + t)
        lines.append(pad + "st")
        return "\n".join(lines)

    def stmt(self, s, ind):
        pad = " " * ind
        if isinstance(s, ast.Assign):
            if len(s.targets) == 1 and isinstance(s.targets[0], ast.Name) and s.targets[0].id in self.event_assigns:
                ea = self.event_assigns[s.targets[0].id]
                v = s.value
                if not (isinstance(v, ast.Call) and self.dotted(v.func) == ea["call"] and not v.args
                        and len(v.keywords) == 1 and v.keywords[0].arg == ea["kwarg"]):
                    raise TranslateError("event assignment %s is not %s(%s=...)" % (s.targets[0].id, ea["call"], ea["kwarg"]))
                divs = []
                a = self.expr(v.keywords[0].value, divs)
                self._set_arity(1)
                return "{ st with out := st.out ++ [(%d : Int), %s]%s }" % (ea["code"], a, self.errupd(divs))
            if self._is_opaque_assign(s):
                self.opaque[s.targets[0].id] = ast.unparse(s.value)
                return None
            if len(s.targets) != 1 or not isinstance(s.targets[0], ast.Name):
                raise TranslateError("assignment target")
            divs = []
            v = self.expr(s.value, divs)
            return "{ st with %s := %s%s }" % (lean_name(s.targets[0].id), v, self.errupd(divs))
        if isinstance(s, ast.AugAssign):
            if not isinstance(s.target, ast.Name):
                raise TranslateError("augassign target")
            divs = []
            v = self.expr(ast.BinOp(left=ast.Name(id=s.target.id), op=s.op, right=s.value), divs)
            return "{ st with %s := %s%s }" % (lean_name(s.target.id), v, self.errupd(divs))
        if isinstance(s, ast.If):
            divs = []
            c = self.cond(s.test, divs)
            pre = "{ st with err := st.err%s }" % self.errupd(divs).replace(", err := st.err", "") if divs else None
            a = self.block(s.body, ind + 4)
            b = self.block(s.orelse, ind + 4)
            t = "if %s then\n%s\n%selse\n%s" % (c, a, pad + "  ", b)
            return [pre, t] if pre else t
        if isinstance(s, ast.For):
            if s.orelse:
                raise TranslateError("for-else")
            divs = []
            if isinstance(s.target, ast.Tuple):
                if not (isinstance(s.iter, ast.Call) and self.dotted(s.iter.func) == "zip" and len(s.iter.args) == 2 == len(s.target.elts)):
                    raise TranslateError("tuple target needs zip of two ranges")
                r1 = self.range_expr(s.iter.args[0], divs)
                r2 = self.range_expr(s.iter.args[1], divs)
                n1, n2 = [lean_name(t.id) for t in s.target.elts]
                body = self.block(s.body, ind + 6)
                if divs:
                    raise TranslateError("division in range")
                return "List.foldl (fun (st : St) (v : Int × Int) =>\n%s  let st : St := { st with %s := v.1, %s := v.2 }\n%s)\n%s  st (List.zip %s %s)" % (pad + "    ", n1, n2, body, pad, r1, r2)
            if isinstance(s.iter, ast.Name) and s.iter.id in self.len_iterables:
                r = "(pyRange 0 st.%s 1)" % lean_name(self.len_iterables[s.iter.id])
            elif not isinstance(s.iter, ast.Call):
                raise TranslateError("for iterable")
            else:
                r = self.range_expr(s.iter, divs)
            if divs:
                raise TranslateError("division in range")
            body = self.block(s.body, ind + 6)
            if s.target.id == "_":
                bind = ""
            else:
                bind = "%s  let st : St := { st with %s := v }\n" % (pad + "    ", lean_name(s.target.id))
            vn = "_v" if s.target.id == "_" else "v"
            return "List.foldl (fun (st : St) (%s : Int) =>\n%s%s)\n%s  st %s" % (vn, bind, body, pad, r)
        if isinstance(s, ast.While):
            if s.orelse:
                raise TranslateError("while-else")
            idx = len(self.whiles)
            divs = []
            c = self.cond(s.test, divs)
            if divs:
                raise TranslateError("division in condition")
            body = self.block(s.body, 4)
            name = "while%d" % idx
            self.whiles.append(name)
            self.defs.append(
                "def %sBody (st : St) : St :=\n%s\n\n"
                "def %sCond (st : St) : Bool := %s\n\n"
                "def %s : Nat → St → St\n"
                "  | 0, st => if %sCond st then { st with oof := true } else st\n"
                "  | fuel + 1, st => if %sCond st then %s fuel (%sBody st) else st\n"
                % (name, body, name, c, name, name, name, name, name)
            )
            fuel = self.fuel.get(str(idx))
            if fuel is None:
                raise TranslateError("no fuel expression configured for while #%d" % idx)
            return "%s (%s) st" % (name, fuel)
        if isinstance(s, ast.Expr):
            v = s.value
            if isinstance(v, ast.Yield):
                divs = []
                if isinstance(v.value, ast.Tuple):
                    if len(v.value.elts) != 2:
                        raise TranslateError("yield tuple arity")
                    a = self.expr(v.value.elts[0], divs)
                    b = self.expr(v.value.elts[1], divs)
                    self._set_arity(2)
                    item = "(%s, %s)" % (a, b)
                else:
                    self._set_arity(1)
                    item = self.expr(v.value, divs)
                return "{ st with out := st.out ++ [%s]%s }" % (item, self.errupd(divs))
            if isinstance(v, ast.Call):
                d = self.dotted(v.func)
                if d in self.events:
                    self._set_arity(1)
                    return "{ st with out := st.out ++ [(%d : Int)] }" % self.events[d]
                if d in self.skip_calls:
                    self.skipped.append(ast.unparse(s))
                    return None
                raise TranslateError("call statement " + d)
            if isinstance(v, ast.Constant) and isinstance(v.value, str):
                return None  # docstring
            raise TranslateError("expression statement " + ast.dump(v))
        if isinstance(s, ast.Assert):
            divs = []
            c = self.cond(s.test, divs)
            return "{ st with err := st.err || !(%s) }" % c
        if isinstance(s, ast.Return):
            if s is not self.body[-1]:
                raise TranslateError("return must be last")
            divs = []
            self.has_ret = True
            v = self.expr(s.value, divs)
            return "{ st with ret := %s%s }" % (v, self.errupd(divs))
        raise TranslateError("statement " + type(s).__name__)

    def _set_arity(self, a):
        if self.yield_arity not in (None, a):
            raise TranslateError("mixed yield arities")
        self.yield_arity = a

    # ---- top level ------------------------------------------------------------------
    def emit(self, ns):
        main = self.block(self.body, 2)
        out_ty = "List (Int × Int)" if self.yield_arity == 2 else "List Int"
        fields = "\n".join("  %s : Int := 0" % lean_name(l) for l in self.locals)
        params = " ".join("(%s : Int)" % lean_name(p) for p in self.params)
        init = ", ".join("%s := %s" % (lean_name(p), lean_name(p)) for p in self.params)
        res = []
        res.append("namespace %s\n" % ns)
        res.append("structure St where\n%s\n  ret : Int := 0\n  out : %s := []\n  err : Bool := false\n  oof : Bool := false\nderiving Repr\n" % (fields, out_ty))
        res.extend(self.defs)
        res.append("def body (st : St) : St :=\n%s\n" % main)
        res.append("def run %s : St := body { %s }\n" % (params, init))
        if self.opaque:
            res.append("/-- opaque (non-integer) bindings of the Python source, kept as text -/")
            res.append("def opaqueBindings : List (String × String) := [%s]\n" % ", ".join('("%s", "%s")' % (k, v.replace('"', "'")) for k, v in self.opaque.items()))
        if self.skipped:
            res.append("/-- statements dropped by the translator (logging), kept as text -/")
            res.append("def skippedStatements : List String := [%s]\n" % ", ".join('"%s"' % t.replace("\\", "\\\\").replace('"', "'").replace("\n", " ") for t in self.skipped))
        res.append("end %s\n" % ns)
        return "\n".join(res)


PRELUDE = '''/-
  GENERATED by /verif/translate/py2lean.py -- do not edit.
  source: {src}
  sha256 of translated source text: {sha}
-/
import Batchie.Model.PyInt

open Batchie.PyInt
'''


def find_function(tree, name):
    for node in ast.walk(tree):
        if isinstance(node, ast.FunctionDef) and node.name == name:
            return node
    raise TranslateError("function %s not found" % name)


def select_body(fn, cfg):
    """apply the 'select' path of the config to pick the statements to translate"""
    body = list(fn.body)
    # drop docstring
    if body and isinstance(body[0], ast.Expr) and isinstance(body[0].value, ast.Constant) and isinstance(body[0].value.value, str):
        body = body[1:]
    sel = cfg.get("select")
    if not sel:
        return body
    if sel["kind"] == "match_case":
        ms = [s for s in body if isinstance(s, ast.Match)]
        if len(ms) != 1:
            raise TranslateError("expected exactly one match statement")
        rest = [s for s in body if not isinstance(s, ast.Match)]
        for r in rest:
            if not isinstance(r, ast.Return):
                raise TranslateError("unexpected statement next to match: " + type(r).__name__)
        for case in ms[0].cases:
            p = case.pattern
            if isinstance(p, ast.MatchClass) and isinstance(p.cls, ast.Name) and p.cls.id == sel["class"]:
                out = []
                for s in case.body:
                    # `if x is None: raise ...` precondition guards are skipped
                    if (isinstance(s, ast.If) and isinstance(s.test, ast.Compare) and len(s.test.ops) == 1
                            and isinstance(s.test.ops[0], ast.Is) and isinstance(s.test.comparators[0], ast.Constant)
                            and s.test.comparators[0].value is None and len(s.body) == 1 and isinstance(s.body[0], ast.Raise) and not s.orelse):
                        continue
                    out.append(s)
                return out
        raise TranslateError("case %s not found" % sel["class"])
    if sel["kind"] == "until_assign":
        # statements up to (excluding) the assignment to the named variable
        out = []
        for s in body:
            if isinstance(s, ast.Assign) and isinstance(s.targets[0], ast.Name) and s.targets[0].id == sel["name"]:
                tail = body[body.index(s):]
                return out, tail
            out.append(s)
        raise TranslateError("assignment to %s not found" % sel["name"])
    if sel["kind"] == "between":
        # the statements strictly after the (unique) top-level statement whose source text is sel["after"], up to and
        # excluding the last statement of the function; that last statement is returned as the tail (checked against
        # the recorded `tail_idiom`).  Added for C19 (module Orch): the next-step arithmetic of the orchestration script.
        texts = [ast.unparse(s) for s in body]
        if texts.count(sel["after"]) != 1:
            raise TranslateError("marker statement not found exactly once: %r" % sel["after"])
        i = texts.index(sel["after"])
        if i + 1 > len(body) - 1:
            raise TranslateError("nothing between the marker statement and the last statement")
        return body[i + 1:-1], body[-1:]
    raise TranslateError("bad select")


def translate_module(repo, spec):
    path = os.path.join(repo, spec["file"])
    with open(path) as f:
        text = f.read()
    tree = ast.parse(text)
    pieces = []
    srctext = []
    for fcfg in spec["functions"]:
        fn = find_function(tree, fcfg["name"])
        srctext.append(ast.unparse(fn))
        body = select_body(fn, fcfg)
        tail = None
        if isinstance(body, tuple):
            body, tail = body
        tr = FnTranslator(fn, fcfg, body=body)
        code = tr.emit(fcfg["ns"])
        if fcfg.get("advice_vars"):
            # C19: the expressions interpolated right after the given text in the f-strings of the function's `raise`
            # statements (the directory the script NAMES), in source order, kept as text
            marker = fcfg["advice_vars"]
            found = []
            for node in ast.walk(fn):
                if isinstance(node, ast.Raise) and isinstance(node.exc, ast.Call):
                    for arg in node.exc.args:
                        if isinstance(arg, ast.JoinedStr):
                            seen = False
                            for v in arg.values:
                                if isinstance(v, ast.Constant) and isinstance(v.value, str):
                                    seen = seen or marker in v.value
                                    if marker in v.value and not v.value.rstrip().endswith(":"):
                                        seen = False if v.value.split(marker, 1)[1].strip(" :") else seen
                                elif isinstance(v, ast.FormattedValue) and seen:
                                    found.append(ast.unparse(v.value))
                                    seen = False
            if not found:
                raise TranslateError("no expression interpolated after %r in a raise of %s" % (marker, fcfg["name"]))
            code = code.replace("end %s\n" % fcfg["ns"],
                                "/-- what the error messages interpolate after \"%s\" -/\ndef adviceVars : List String := [%s]\n\nend %s\n" % (
                                    marker, ", ".join('"%s"' % f for f in found), fcfg["ns"]), 1)
        if tail is not None:
            # the recognised tail idiom of get_lower_triangular_indices_chunk
            want = fcfg["tail_idiom"]
            got = [ast.unparse(s) for s in tail]
            if got != want:
                raise TranslateError("tail of %s is not the recognised idiom: %r" % (fcfg["name"], got))
            code += "\n/-- tail idiom recognised verbatim: %s -/\ndef %s.tailIdiom : List String := [%s]\n" % (
                "; ".join(want), fcfg["ns"], ", ".join('"%s"' % w for w in want))
        pieces.append(code)
    sha = hashlib.sha256("\n".join(srctext).encode()).hexdigest()
    return PRELUDE.format(src=spec["file"], sha=sha) + "\n" + "\n".join(pieces)


def main():
    here = os.path.dirname(os.path.abspath(__file__))
    repo = os.environ.get("BATCHIE_REPO", "/repo")
    outdir = os.path.join(here, "..", "lean", "Batchie", "Generated")
    with open(os.path.join(here, "spec.json")) as f:
        specs = json.load(f)
    only = sys.argv[1:]  # optional module names
    status = {}
    os.makedirs(outdir, exist_ok=True)
    for spec in specs:
        if only and spec["module"] not in only:
            continue
        target = os.path.join(outdir, spec["module"] + ".lean")
        try:
            text = translate_module(repo, spec)
        except (TranslateError, SyntaxError, OSError) as e:
            status[spec["module"]] = {"ok": False, "error": "%s: %s" % (type(e).__name__, e)}
            continue
        old = None
        if os.path.exists(target):
            with open(target) as f:
                old = f.read()
        changed = old != text
        if changed:
            tmp = "%s.%d.tmp" % (target, os.getpid())      # atomic: a concurrent `lake build` never sees a half-written file
            with open(tmp, "w") as f:
                f.write(text)
            os.replace(tmp, target)
        status[spec["module"]] = {"ok": True, "changed": changed, "path": os.path.relpath(target, os.path.join(here, ".."))}
    print(json.dumps(status, indent=1))
    return 0


if __name__ == "__main__":
    sys.exit(main())
