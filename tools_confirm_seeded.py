#!/usr/bin/env python3
"""confirm a sub-agent's seeded change in a scratch worktree and copy it to /verif/seeded/<id>/.
usage: tools_confirm_seeded.py <srcdir> <id>   (srcdir has patch.diff, demo.py, meta.json)"""
import json, os, shutil, subprocess, sys
src, sid = sys.argv[1], sys.argv[2]
wt = "/tmp/confirm_%s" % sid
def run(cmd, cwd=None, env=None, timeout=1800):
    p = subprocess.run(cmd, cwd=cwd, env=env, capture_output=True, text=True, timeout=timeout)
    return p.returncode, (p.stdout + p.stderr)
subprocess.run(["git", "-C", "/repo", "worktree", "remove", "--force", wt], capture_output=True)
rc, out = run(["git", "-C", "/repo", "worktree", "add", "--detach", wt, "HEAD"]); assert rc == 0, out
env = dict(os.environ, PYTHONPATH=wt + "/src")
ran = []
try:
    head = run(["git", "-C", wt, "log", "-1", "--format=%h"])[1].strip()
    rc0, o0 = run(["/venv/bin/python", os.path.join(src, "demo.py")], cwd=wt, env=env)
    ran.append("unchanged %s: demo exit %d" % (head, rc0))
    rca, oa = run(["git", "-C", wt, "apply", os.path.join(os.path.abspath(src), "patch.diff")])
    ran.append("git apply: rc %d %s" % (rca, oa.strip()[:200]))
    ok = False
    if rca == 0:
        rc1, o1 = run(["/venv/bin/python", os.path.join(src, "demo.py")], cwd=wt, env=env)
        ran.append("patched: demo exit %d: %s" % (rc1, o1.strip().splitlines()[-1][:300] if o1.strip() else ""))
        rct, ot = run(["/venv/bin/python", "-m", "pytest", "-q", "-p", "no:cacheprovider", "--timeout=900"], cwd=wt, env=env, timeout=3000)
        tail = [l for l in ot.splitlines() if "passed" in l or "failed" in l][-1:] or [ot[-200:]]
        ran.append("patched: pytest rc %d: %s" % (rct, tail[0]))
        ok = rc0 == 0 and rc1 != 0 and rct == 0 and "151 passed" in tail[0]
finally:
    subprocess.run(["git", "-C", "/repo", "worktree", "remove", "--force", wt], capture_output=True)
meta = json.load(open(os.path.join(src, "meta.json")))
meta["confirmed_by_me"] = ran
meta["confirmed"] = ok
if ok:
    dst = os.path.join("/verif/seeded", sid)
    os.makedirs(dst, exist_ok=True)
    shutil.copy(os.path.join(src, "patch.diff"), dst); shutil.copy(os.path.join(src, "demo.py"), dst)
    json.dump(meta, open(os.path.join(dst, "meta.json"), "w"), indent=1)
print(sid, "CONFIRMED" if ok else "REJECTED", ran)
