#!/bin/bash
# run every claimed check (quick by default) on the unchanged tree; usage: tools_run_all.sh [tier] [seed] [parallelism]
cd "$(dirname "$0")"
tier=${1:-quick}; seed=${2:-0}; par=${3:-4}
ids=$(python3 -c "import json; print(' '.join(c['property_id'] for c in json.load(open('MANIFEST.json'))['checks']))")
mkdir -p /tmp/verif_runall
echo $ids | tr ' ' '\n' | VERIF_SEED=$seed xargs -P $par -I{} sh -c "./check {} --tier $tier > /tmp/verif_runall/{}.log 2>&1; echo {} rc=\$? \$(grep -E '^(OK|VIOLATION|infrastructure)' /tmp/verif_runall/{}.log | tail -1)"
