#!/venv/bin/python
"""./check <property> [--tier quick|thorough] [--replay file]   (DESIGN.md section 2.4)

exit 0  property held on everything explored (KNOWN-FINDING lines may be printed)
exit 1  `VIOLATION property=<id> replay=<path>[ no-failing-input-found]`
exit 2  infrastructure failure (never a VIOLATION line)
"""
import argparse
import importlib
import json
import os
import re
import sys
import time
import traceback

sys.path.insert(0, os.path.dirname(os.path.dirname(os.path.abspath(__file__))))
from vlib import common  # noqa: E402
from vlib.common import VERIF, LEAN, Ctx, Driver, Result, jdump, run_cmd, short_hash  # noqa: E402


def load_props():
    out = {}
    d = os.path.join(VERIF, "props")
    for fn in sorted(os.listdir(d)):
        if fn.endswith(".json"):
            with open(os.path.join(d, fn)) as f:
                out[fn[:-5]] = json.load(f)
    return out


def load_known():
    p = os.path.join(VERIF, "known_findings.json")
    if not os.path.exists(p):
        return {"findings": [], "fixed": []}
    with open(p) as f:
        return json.load(f)


def run_translator(needed):
    """regenerate Generated/*.lean from /repo's working tree; returns status dict"""
    if not needed:
        return {}
    rc, out, _ = run_cmd([sys.executable, os.path.join(VERIF, "translate", "py2lean.py")] + list(needed), timeout=120)
    try:
        return json.loads(out)
    except Exception:
        return {m: {"ok": False, "error": "translator crashed: " + out[-500:]} for m in needed}


def lake_build(targets, timeout):
    with common.lake_lock():
        rc, out, dt = run_cmd(["lake", "build"] + targets, cwd=LEAN, timeout=timeout)
    return rc, out, dt


def failed_modules(build_out):
    return sorted(set(re.findall(r"^- (\S+)$", build_out, re.M)))


def audit(prop, modules, theorems, timeout=900):
    """#print axioms for every obligation; returns {theorem: (ok, detail)}"""
    res = {}
    if not theorems:
        return res, ""
    path = os.path.join(LEAN, ".lake", "audit_%s.lean" % prop)
    with open(path, "w") as f:
        for m in modules:
            f.write("import %s\n" % m)
        for t in theorems:
            f.write("#print axioms %s\n" % t)
    rc, out, _ = run_cmd(["lake", "env", "lean", path], cwd=LEAN, timeout=timeout)
    flat = re.sub(r"\s+", " ", out)
    for t in theorems:
        m = re.search(r"'%s' depends on axioms: \[([^\]]*)\]" % re.escape(t), flat)
        if m:
            axs = [a.strip() for a in m.group(1).split(",") if a.strip()]
            bad = [a for a in axs if a not in common.ALLOWED_AXIOMS]
            res[t] = (not bad, "axioms: " + ", ".join(axs))
            continue
        if re.search(r"'%s' does not depend on any axioms" % re.escape(t), flat):
            res[t] = (True, "axioms: none")
            continue
        res[t] = (False, "not found / did not check")
    return res, out


def run_leanchecker(modules, timeout=3000):
    rc, out, dt = run_cmd(["lake", "env", "leanchecker"] + modules, cwd=LEAN, timeout=timeout)
    return rc == 0, out[-2000:], dt


def write_replay(prop, payload):
    d = os.path.join(VERIF, "replays")
    os.makedirs(d, exist_ok=True)
    path = os.path.join(d, "%s-%s.json" % (prop, short_hash(payload)))
    payload = dict(payload)
    payload["how_to_replay"] = "./check %s --replay %s" % (prop, os.path.relpath(path, VERIF))
    jdump(payload, path)
    return os.path.relpath(path, VERIF)


def main():
    ap = argparse.ArgumentParser()
    ap.add_argument("prop")
    ap.add_argument("--tier", default=os.environ.get("VERIF_TIER", "quick"), choices=["quick", "thorough"])
    ap.add_argument("--replay")
    ap.add_argument("--no-build", action="store_true", help="(debug) skip lake build/audit")
    args = ap.parse_args()
    prop = args.prop
    tier = args.tier
    try:
        seed = int(os.environ.get("VERIF_SEED", "0"))
    except ValueError:
        seed = 0
    t0 = time.time()
    # watchdog: a check that does not finish is an infrastructure failure (exit 2), never a VIOLATION
    import signal
    limit = int(os.environ.get("VERIF_TIMEOUT", "1500" if tier == "quick" else "7200"))
    def _timeout(_sig, _frm):
        print("infrastructure: check exceeded %d s (VERIF_TIMEOUT) and was stopped" % limit)
        os._exit(2)
    signal.signal(signal.SIGALRM, _timeout)
    signal.alarm(limit)
    os.chdir(VERIF)
    common.use_repo_sources()

    props = load_props()
    if prop not in props:
        print("unknown or unclaimed property %s" % prop)
        return 2
    spec = props[prop]
    harness = importlib.import_module("harness." + spec["harness"])

    # ---------------- replay mode -------------------------------------------------------
    if args.replay:
        with open(args.replay if os.path.isabs(args.replay) else os.path.join(VERIF, args.replay)) as f:
            rp = json.load(f)
        drv = Driver(spec.get("driver", "driver_" + prop.lower()))
        ctx = Ctx(prop, tier, seed, drv if drv.available else None, mode="replay")
        if rp.get("kind") != "counterexample":
            print("replay file names unchecked obligations, not an input: %s" % rp.get("broken"))
            return 1
        res = Result()
        harness.replay(ctx, rp["case"], res)
        if res.oracle_failures:
            print(json.dumps(res.oracle_failures[0], indent=1, default=str))
            print("VIOLATION property=%s replay=%s" % (prop, args.replay))
            return 1
        print("replay passes on the current tree")
        return 0

    # ---------------- 1. translator + build + audit --------------------------------------
    broken = []          # names of obligations / ties that no longer check
    build_log = ""
    _lk = common.lake_lock()          # held from the translator to the private copy of the driver binary (released below / at exit)
    _lk.__enter__()
    tstat = run_translator(spec.get("generated", []))
    for m, st in tstat.items():
        if not st.get("ok"):
            broken.append("translator:%s (%s)" % (m, st.get("error")))
    theorems = spec.get("theorems", [])
    modules = spec.get("modules", [])
    discharged = 0
    audit_detail = {}
    driver_ok = True
    if not args.no_build:
        rc, out, dt = lake_build([spec.get("driver", "driver_" + prop.lower())], timeout=1800)
        build_log += out[-3000:]
        if rc != 0:
            driver_ok = False
            broken.append("build:driver (model no longer compiles: %s)" % ",".join(failed_modules(out)))
        if rc == 124:
            print("infrastructure: lake build driver timed out")
            return 2
        rc, out, dt = lake_build(modules, timeout=3000)
        build_log += out[-3000:]
        if rc == 124:
            print("infrastructure: lake build timed out")
            return 2
        if rc != 0:
            fm = failed_modules(out)
            broken.append("build:%s" % ",".join(fm))
            for t in theorems:
                audit_detail[t] = (False, "module failed to build")
        else:
            audit_detail, aout = audit(prop, modules, theorems)
            for t, (ok, det) in audit_detail.items():
                if ok:
                    discharged += 1
                else:
                    broken.append("theorem:%s (%s)" % (t, det))
        hits = common.scan_lean_sources(modules + ["Drivers." + prop])
        if hits:
            broken.append("forbidden constructs: " + "; ".join(hits[:10]))
            discharged = 0
    else:
        discharged = len(theorems)
    leanchecker = None
    if tier == "thorough" and not broken and not args.no_build:
        ok, tail, dt = run_leanchecker(modules)
        leanchecker = {"ok": ok, "wall_s": round(dt, 1)}
        if not ok:
            broken.append("leanchecker rejected: " + tail[-300:])

    # ---------------- 2. correspondence + oracles ---------------------------------------
    drv = Driver(spec.get("driver", "driver_" + prop.lower())) if driver_ok else None
    _lk.__exit__(None, None, None)
    if drv is not None and not drv.available:
        drv = None
        broken.append("driver binary missing")
    tie_broken = any(b.startswith("translator:") for b in broken)
    ctx = Ctx(prop, tier, seed, None if tie_broken else drv, mode="check")
    res = Result()
    harness_error = None
    try:
        harness.run(ctx, res)
    except Exception as e:
        harness_error = traceback.format_exc()
        # an exception raised INSIDE the implementation (a frame under REPO) on a harness-generated input that the
        # unchanged tree accepts is a behaviour change, not an infrastructure failure: the tie is broken
        frames = [f for f in traceback.extract_tb(e.__traceback__) if os.path.abspath(f.filename).startswith(os.path.abspath(common.REPO) + os.sep)]
        if frames:
            f = frames[-1]
            broken.append("implementation raised %s: %s at %s:%d (%s), not guarded by the harness" % (
                type(e).__name__, str(e)[:200], os.path.relpath(f.filename, common.REPO), f.lineno, f.name))
            res.notes.append(harness_error[-1500:])
            harness_error = None

    # ---------------- 3. failing-input search when a proof or the tie broke --------------
    searched = False
    known0 = load_known()
    ksig0 = {k["signature"] for k in known0.get("findings", []) if k.get("property") == prop}
    unknown_failures = [f for f in res.oracle_failures if f.get("signature") not in ksig0]
    unexplained0 = [d for d in res.disagreements if d.get("signature") not in ksig0]
    force_search = os.environ.get("VERIF_FORCE_SEARCH") == "1"   # (self-test) exercise the search-mode budget on a healthy tree
    if (broken or unexplained0 or force_search) and not unknown_failures and harness_error is None:
        searched = True
        sctx = Ctx(prop, tier, seed + 7919, None if (tie_broken or drv is None) else drv, mode="search")
        sres = Result()
        try:
            harness.run(sctx, sres)
        except Exception:
            harness_error = traceback.format_exc()
        res.oracle_failures.extend(sres.oracle_failures)
        res.evaluations += sres.evaluations
        res.nontrivial |= sres.nontrivial
        for k, v in sres.distribution.items():
            res.distribution["search." + k] = v

    # ---------------- 4. known findings --------------------------------------------------
    known = load_known()
    ksigs = {k["signature"]: k for k in known.get("findings", []) if k.get("property") == prop}
    new_failures = []
    printed = set()
    for f in res.oracle_failures:
        k = ksigs.get(f.get("signature"))
        if k is not None:
            res.known_hits.append(f)
            if k["signature"] not in printed:
                printed.add(k["signature"])
                print("KNOWN-FINDING: property=%s %s" % (prop, k["what_fails"]))
        else:
            new_failures.append(f)
    # a model/implementation disagreement that is explained by a known finding is not a broken tie
    unexplained_dis = [d for d in res.disagreements if d.get("signature") not in ksigs]

    # ---------------- 5. evidence ---------------------------------------------------------
    wall = time.time() - t0
    violations = 0
    status = "ok"
    replay_path = None
    suffix = ""
    if new_failures:
        violations = len(new_failures)
        status = "violation"
        f = new_failures[0]
        replay_path = write_replay(prop, {"property": prop, "kind": "counterexample", "case": f["case"], "what": f["what"],
                                          "impl_observed": f["observed"], "required": f["required"], "signature": f["signature"],
                                          "seed": seed, "broken": broken})
    elif broken or unexplained_dis:
        violations = 1
        status = "unchecked"
        names = list(broken)
        if unexplained_dis:
            names.append("correspondence:%s" % unexplained_dis[0]["where"])
        replay_path = write_replay(prop, {"property": prop, "kind": "unchecked-obligation", "broken": names,
                                          "first_disagreement": unexplained_dis[0] if unexplained_dis else None,
                                          "build_log_tail": build_log[-1500:], "seed": seed,
                                          "search": {"evaluations": res.evaluations, "found": 0}})
        suffix = " no-failing-input-found"
    evidence = {
        "property_id": prop,
        "tier": tier,
        "seed": seed,
        "level": "proof",
        "coverage": {
            "obligations": len(theorems),
            "discharged": discharged,
            "checker_cmd": "cd lean && lake build %s && lake env lean .lake/audit_%s.lean  (#print axioms per obligation)%s" % (
                " ".join(modules), prop, "; lake env leanchecker " + " ".join(modules) if tier == "thorough" else ""),
            "trusted_base": common.TRUSTED_BASE + spec.get("trusted_extra", []),
            "theorems": {t: audit_detail.get(t, (False, "?"))[1] for t in theorems},
            "evaluations": res.evaluations,
            "distinct_nontrivial": len(res.nontrivial),
            "rule": res.rule,
            "samples": res.samples if res.samples else [{"obligation": t} for t in theorems[:3]],
            "traces_validated_against_impl": res.traces_validated,
            "distribution": res.distribution,
            "translator": tstat,
            "driver_lines": drv.lines_sent if drv else 0,
            "model_impl_disagreements": len(res.disagreements),
            "oracle_failures": len(res.oracle_failures),
            "known_finding_hits": len(res.known_hits),
            "failing_input_search_ran": searched,
            "leanchecker": leanchecker,
            "broken": broken,
            "notes": res.notes,
            "advisories_outside_property_text": res.advisories[:10],
            "status": status,
        },
        "assumptions": spec.get("assumptions", []),
        "wall_s": round(wall, 2),
        "violations": violations,
    }
    jdump(evidence, os.path.join(VERIF, "evidence", "%s.json" % prop))

    for a in res.advisories[:5]:
        print("ADVISORY (outside the text of %s, does not affect the result): %s" % (prop, str(a.get("what"))[:300]))
    if harness_error is not None and not new_failures:
        print(harness_error)
        print("infrastructure: harness crashed")
        return 2
    if status == "ok":
        print("OK property=%s tier=%s obligations=%d/%d cases=%d nontrivial=%d wall=%.1fs" % (
            prop, tier, discharged, len(theorems), res.evaluations, len(res.nontrivial), wall))
        return 0
    if status == "violation":
        print(json.dumps({k: new_failures[0][k] for k in ("what", "observed", "required")}, default=str)[:2000])
    else:
        print("no longer checks: " + "; ".join(str(b) for b in (broken + ["correspondence:" + d["where"] for d in unexplained_dis[:1]]))[:2000])
    print("VIOLATION property=%s replay=%s%s" % (prop, replay_path, suffix))
    return 1


if __name__ == "__main__":
    sys.exit(main())
