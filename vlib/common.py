"""Shared machinery for the /verif checks (runs under /venv/bin/python)."""
import contextlib
import fcntl
import hashlib
import json
import os
import random
import re
import subprocess
import sys
import time

VERIF = os.path.dirname(os.path.dirname(os.path.abspath(__file__)))
LEAN = os.path.join(VERIF, "lean")
REPO = os.environ.get("BATCHIE_REPO", "/repo")

ALLOWED_AXIOMS = {"propext", "Classical.choice", "Quot.sound"}

TRUSTED_BASE = [
    "Lean 4.33.0 kernel and elaborator (thorough tier: compiled proofs re-checked by leanchecker)",
    "axioms allowed: propext, Classical.choice, Quot.sound only; no sorry/admit/native_decide/bv_decide/user axioms (audited on every run)",
    "translator /verif/translate/py2lean.py (its reading of the Python integer subset); its output is also executed against the Python functions",
    "correspondence harness /verif/harness (generators, recording proxies, canonicalisation, tolerances)",
    "hand-written model parts are validated against the code by the correspondence run, not verified: pandas/numpy/h5py/scipy primitives are modelled by list operations",
]


def use_repo_sources():
    """make `import batchie` resolve to REPO/src (the editable install already points at /repo/src;
    BATCHIE_REPO overrides it for mutation self-tests on a scratch copy)."""
    src = os.path.join(REPO, "src")
    if src not in sys.path:
        sys.path.insert(0, src)


@contextlib.contextmanager
def verbose_logging(level="DEBUG"):
    """run a slice of a harness the way every `batchie` command runs under `-v/--verbose`: the `batchie` logger at DEBUG with a
    handler that really formats every record (so code that only executes when debug logging is enabled -- summaries, sanity
    dumps, lazily formatted arguments -- executes), whatever `logging.disable` / `setLevel` state the harness had set; that state is
    restored afterwards.  Cases run under it should carry `"verbose": True` so that `replay` re-enters it."""
    import logging

    class _Sink(logging.Handler):
        n = 0

        def emit(self, record):
            try:
                self.format(record)
            except Exception:
                pass
            _Sink.n += 1

    lg = logging.getLogger("batchie")
    old_level, old_disable, old_prop = lg.level, logging.root.manager.disable, lg.propagate
    old_handlers = list(lg.handlers)
    sink = _Sink(level=getattr(logging, level))
    logging.disable(logging.NOTSET)
    lg.setLevel(getattr(logging, level))
    lg.handlers = [sink]
    lg.propagate = False
    try:
        yield sink
    finally:
        lg.handlers = old_handlers
        lg.propagate = old_prop
        lg.setLevel(old_level)
        logging.disable(old_disable)


_LOCK_DEPTH = [0]


@contextlib.contextmanager
def lake_lock():
    """exclusive lock on the lake workspace (re-entrant within one process): the translator output in lean/Batchie/Generated, `lake build`,
    the axiom audit and the copy of the driver binary all happen under it, so that checks running concurrently -- possibly against
    different source trees (BATCHIE_REPO) -- never see each other's generated files or half-linked binaries"""
    if _LOCK_DEPTH[0] > 0:
        _LOCK_DEPTH[0] += 1
        try:
            yield
        finally:
            _LOCK_DEPTH[0] -= 1
        return
    os.makedirs(os.path.join(LEAN, ".lake"), exist_ok=True)
    path = os.path.join(LEAN, ".lake", "verif.lock")
    with open(path, "w") as f:
        fcntl.flock(f, fcntl.LOCK_EX)
        _LOCK_DEPTH[0] = 1
        try:
            yield
        finally:
            _LOCK_DEPTH[0] = 0
            fcntl.flock(f, fcntl.LOCK_UN)


def run_cmd(cmd, cwd=None, timeout=None, env=None, input=None):
    t0 = time.time()
    try:
        p = subprocess.run(cmd, cwd=cwd, timeout=timeout, env=env, input=input,
                           stdout=subprocess.PIPE, stderr=subprocess.STDOUT, text=True)
        return p.returncode, p.stdout, time.time() - t0
    except subprocess.TimeoutExpired as e:
        out = e.stdout if isinstance(e.stdout, str) else (e.stdout or b"").decode(errors="replace")
        return 124, out + "\n[timeout]", time.time() - t0


class Driver:
    """pipes protocol lines to the Lean model driver, returns one output line per input line"""

    def __init__(self, exe):
        built = os.path.join(LEAN, ".lake", "build", "bin", exe)
        self.available = os.path.exists(built)
        self.bin = built
        self.lines_sent = 0
        if self.available:
            # private copy: a concurrent `lake build` relinks the executable in place
            import atexit, shutil, tempfile
            d = tempfile.mkdtemp(prefix="verif_driver_")
            self.bin = os.path.join(d, exe)
            shutil.copy2(built, self.bin)
            atexit.register(shutil.rmtree, d, ignore_errors=True)

    def ask(self, lines):
        if not self.available:
            raise RuntimeError("model driver not built")
        if not lines:
            return []
        data = "\n".join(lines) + "\n"
        p = subprocess.run([self.bin], input=data, stdout=subprocess.PIPE, stderr=subprocess.PIPE, text=True, timeout=1800)
        if p.returncode != 0:
            raise RuntimeError("driver failed: rc=%s %s" % (p.returncode, p.stderr[-2000:]))
        out = p.stdout.split("\n")
        if out and out[-1] == "":
            out.pop()
        if len(out) != len(lines):
            raise RuntimeError("driver returned %d lines for %d inputs" % (len(out), len(lines)))
        self.lines_sent += len(lines)
        return out


class Ctx:
    """what a harness module receives"""

    def __init__(self, prop, tier, seed, driver, mode="check"):
        self.prop = prop
        self.tier = tier            # quick | thorough
        self.seed = seed
        self.driver = driver        # Driver or None (model unavailable => oracle-only)
        self.mode = mode            # check | search
        self.rng = random.Random((seed * 1000003) ^ int(hashlib.sha256(prop.encode()).hexdigest()[:8], 16))
        self.t0 = time.time()

    def scale(self, quick, thorough, search=None):
        if self.mode == "search":
            return search if search is not None else max(quick * 10, thorough)
        return quick if self.tier == "quick" else thorough

    def subrng(self, *key):
        h = hashlib.sha256(repr((self.seed, self.prop) + tuple(key)).encode()).hexdigest()
        return random.Random(int(h[:16], 16))


class Result:
    """what a harness module returns"""

    def __init__(self):
        self.evaluations = 0
        self.nontrivial = set()      # hashable descriptors of distinct non-trivial cases
        self.rule = ""
        self.samples = []
        self.distribution = {}
        self.disagreements = []      # model vs implementation: {case, impl, model, where}
        self.oracle_failures = []    # property violated on the implementation: {case, what, observed, required, signature}
        self.known_hits = []         # oracle failures matching a known finding (filled by check)
        self.traces_validated = 0
        self.notes = []
        self.advisories = []         # findings about code OUTSIDE the property's text (extensions of the model): never affect the exit code

    def count(self, key, n=1):
        self.distribution[key] = self.distribution.get(key, 0) + n

    def sample(self, s, limit=6):
        if len(self.samples) < limit:
            self.samples.append(s)

    def disagree(self, where, case, impl, model, signature=None):
        if len(self.disagreements) < 50:
            self.disagreements.append({"where": where, "case": case, "impl": impl, "model": model, "signature": signature})
        else:
            self.count("disagreements_dropped")

    def advise(self, what, case=None, observed=None, required=None, signature=None):
        """record a finding that concerns behaviour outside the property's text (an extension of the model beyond the property):
        it is printed and written into the evidence, but never makes the check fail"""
        if len(self.advisories) < 20:
            self.advisories.append({"what": what, "case": case, "observed": observed, "required": required, "signature": signature or what})
        self.count("advisory." + (signature or what)[:60])

    def fail(self, what, case, observed, required, signature=None):
        if len(self.oracle_failures) < 50:
            self.oracle_failures.append({"what": what, "case": case, "observed": observed, "required": required,
                                         "signature": signature or what})
        else:
            self.count("oracle_failures_dropped")


def jdump(obj, path):
    os.makedirs(os.path.dirname(path), exist_ok=True)
    tmp = path + ".tmp"
    with open(tmp, "w") as f:
        json.dump(obj, f, indent=1, sort_keys=True, default=str)
        f.write("\n")
    os.replace(tmp, path)


def short_hash(obj):
    return hashlib.sha256(json.dumps(obj, sort_keys=True, default=str).encode()).hexdigest()[:12]


def strip_lean_comments(text):
    """remove /- ... -/ (nested) and -- comments and string literals' content is left alone"""
    out = []
    i = 0
    depth = 0
    n = len(text)
    while i < n:
        if text.startswith("/-", i):
            depth += 1
            i += 2
            continue
        if depth > 0 and text.startswith("-/", i):
            depth -= 1
            i += 2
            continue
        if depth > 0:
            i += 1
            continue
        if text.startswith("--", i):
            j = text.find("\n", i)
            if j < 0:
                break
            i = j
            continue
        out.append(text[i])
        i += 1
    return "".join(out)


FORBIDDEN = re.compile(r"\bsorry\b|\badmit\b|^\s*axiom\s|\bnative_decide\b|\bbv_decide\b|\bimplemented_by\b|\bunsafe\s|maxHeartbeats\s+0\b|\bextern\b|\bcsimp\b", re.M)


def import_closure(modules):
    """project files transitively imported by the given Lean modules (Batchie.* / Drivers.*)"""
    seen, todo = set(), list(modules)
    while todo:
        m = todo.pop()
        if m in seen:
            continue
        path = os.path.join(LEAN, *m.split(".")) + ".lean"
        if not os.path.exists(path):
            continue
        seen.add(m)
        with open(path) as f:
            for line in f:
                mm = re.match(r"\s*(?:public\s+)?import\s+((?:Batchie|Drivers)[\w.]*)", line)
                if mm:
                    todo.append(mm.group(1))
    return sorted(seen)


def scan_lean_sources(modules=None):
    """forbidden-construct scan over the Lean sources the property depends on (comments stripped);
    with modules=None every source of the project is scanned"""
    hits = []
    if modules is not None:
        paths = [os.path.join(LEAN, *m.split(".")) + ".lean" for m in import_closure(modules)]
    else:
        paths = []
        for root, _dirs, files in os.walk(LEAN):
            if ".lake" in root:
                continue
            paths += [os.path.join(root, fn) for fn in files if fn.endswith(".lean")]
    for p in paths:
        with open(p) as f:
            text = strip_lean_comments(f.read())
        # drop string literals (the translator keeps Python text in strings)
        text = re.sub(r'"(?:[^"\\]|\\.)*"', '""', text)
        for m in FORBIDDEN.finditer(text):
            line = text.count("\n", 0, m.start()) + 1
            hits.append("%s:%d:%s" % (os.path.relpath(p, LEAN), line, m.group(0).strip()))
    return hits
