#!/usr/bin/env python3
"""regenerate DESIGN.md sections 10.3-10.7 from known_findings.json, props/*.json, seeded/*"""
import json, os, subprocess
here = os.path.dirname(os.path.abspath(__file__))
p = os.path.join(here, "DESIGN.md")
s = open(p).read()
marker = "### 10.3 Known findings"
s = s[:s.index(marker)]
kf = json.load(open(os.path.join(here, "known_findings.json")))
rows = "\n".join("| %s | `%s` | %s | %s |" % (k["property"], k["signature"], k.get("where", ""), k["what_fails"][:330].replace("|", "/")) for k in kf["findings"])
fixed = "\n".join("* `%s`" % f for f in kf["fixed"])
props = {f[:-5]: json.load(open(os.path.join(here, "props", f))) for f in sorted(os.listdir(os.path.join(here, "props")))}
ptab = "\n".join("| %s | %d | %s | %s | %s |" % (k, len(v["theorems"]), ", ".join(v.get("generated") or []) or "-", v["manifest"]["technique"].replace("|", "/")[:170], v["manifest"]["note"].replace("|", "/")[:460]) for k, v in props.items())
nthm = sum(len(v["theorems"]) for v in props.values())
def wc(sub):
    n = 0
    for root, _d, files in os.walk(os.path.join(here, "lean", sub)):
        for f in files:
            if f.endswith(".lean"):
                n += sum(1 for _ in open(os.path.join(root, f)))
    return n
loc_all, loc_props, loc_model, loc_gen = wc("Batchie"), wc("Batchie/Props"), wc("Batchie/Model"), wc("Batchie/Generated")
seeded = subprocess.run(["python3", os.path.join(here, "tools_seeded_table.py")], capture_output=True, text=True).stdout
ids = sorted(d for d in os.listdir(os.path.join(here, "seeded")) if os.path.exists(os.path.join(here, "seeded", d, "result.json")))
res = {d: json.load(open(os.path.join(here, "seeded", d, "result.json"))) for d in ids}
def cnt(prefix):
    ds = [d for d in ids if d.startswith(prefix)]
    return len(ds), sum(1 for d in ds if res[d]["caught"] and res[d]["concrete_replay"])
hrows = []
hd = os.path.join(here, "harmless")
for i in sorted(os.listdir(hd)) if os.path.isdir(hd) else []:
    mp, rp = os.path.join(hd, i, "meta.json"), os.path.join(hd, i, "result.json")
    if not os.path.exists(mp):
        continue
    m = json.load(open(mp)); r = json.load(open(rp)) if os.path.exists(rp) else {"class": "not run", "wall_s": 0}
    hrows.append("| %s | %s | %s | %s (%ss) |" % (i, m["property"], (m.get("summary") or "").replace("|", "/").replace("\n", " ")[:230], r["class"], r["wall_s"]))
harmless = "| Id | Property | Refactor | `./check <property>` |\n|---|---|---|---|\n" + "\n".join(hrows)
hcls = {}
for i in sorted(os.listdir(hd)) if os.path.isdir(hd) else []:
    rp = os.path.join(hd, i, "result.json")
    if os.path.exists(rp):
        c = json.load(open(rp))["class"]; hcls[c] = hcls.get(c, 0) + 1
static = open(os.path.join(here, "design10_static.md")).read()
s += static.format(rows=rows, fixed=fixed, ptab=ptab, nthm=nthm, loc_all=loc_all, loc_props=loc_props, loc_model=loc_model, loc_gen=loc_gen, seeded=seeded, harmless=harmless, hOK=hcls.get('OK', 0), hTIE=hcls.get('TIE', 0), hFA=hcls.get('FALSE-ALARM', 0), hINFRA=hcls.get('INFRA', 0),
                   nR=cnt("R-")[0], cR=cnt("R-")[1], n1=cnt("S-")[0], c1=cnt("S-")[1], n2=cnt("S2-")[0], c2=cnt("S2-")[1], n3=cnt("S3-")[0], c3=cnt("S3-")[1],
                   n4=cnt("S4-")[0], c4=cnt("S4-")[1], n5=cnt("S5-")[0], c5=cnt("S5-")[1], n6=cnt("S6-")[0], c6=cnt("S6-")[1], n7=cnt("S7-")[0], c7=cnt("S7-")[1], n8=cnt("S8-")[0], c8=cnt("S8-")[1])
open(p, "w").write(s)
print("DESIGN.md section 10.3+ regenerated:", nthm, "obligations,", loc_all, "lines of Lean")
