"""C20 -- evaluation metrics and synergy values equal their definitions.

Streams (every case is self-contained and replayable):
  eval     ModelEvaluation on random prediction matrices (non-square and square), unequal chain lengths / one chain /
           non-contiguous chain labels; save_h5/load_h5 round trip; malformed shapes
  effects  create_single_treatment_effect_map / _array and calculate_synergy (strict and lenient) on id arrays with
           repeated single-agent measurements, control in either column, unmeasured agents, arity 2 and 3
  cmse     retrospective.calculate_mse on real screens and holders of posterior samples
  space    generate_full_combinatoric_space and correlation_matrix on real screens + holders
Oracles: independent loop-by-loop recomputation on the implementation's outputs.  Tie: `Batchie.Metrics` at Float.

Auditor round (a-c09-c20): chain labellings that are not sorted contiguous blocks (alternating, descending, shuffled, negative
labels), transposed / strided prediction buffers, screens with permuted treatment and sample ids + shuffled mapping rows and
partially observed plates (via harness.c09.decorate_raw), guarded metric calls (an exception of a metric used to crash the harness).
Mutants tried on a scratch copy: positional sample-name lookup in generate_full_combinatoric_space and positional labels in
correlation_matrix (both MISSED before sample ids were permuted), correlation over observed samples only (MISSED before partially
observed screens), median instead of mean, np.sort(...)[:, -1] restricted to two columns, strict mode not refusing the first row,
ddof=1 on square matrices, size-weighted inter-chain variance, mean_predictions over axis 0 on square matrices, truncated names /
int8 chains / float32 predictions in save_h5, centring over axis 1, mean instead of viability predictions, observations broadcast
along the wrong axis (crashed the harness before the guard) -- all red with a replay now.  Equivalent within the property's
quantifier: re-sorting the mapping rows before `combinations` (row order of the space is not part of the property; the tie
notices), np.prod special-cased for one effect (cannot occur for a non-single row).
Temporaries: ModelEvaluation objects of equal shapes built and dropped one after the other; correlation_matrix /
generate_full_combinatoric_space on throw-away subsets of equal size and throw-away holders of equal length (mutants: mse memo keyed by
id(self) + shape, correlation_matrix memo keyed by (id(screen), id(thetas)) + sizes -- both red with a replay).
"""
import itertools
import math
import os
import shutil
import tempfile

import numpy as np

from vlib import common
from harness import screens as S
from harness import c09 as P

common.use_repo_sources()

RULE = ("eval: E x K prediction matrices, E,K in 1..7 (square and non-square; C-ordered, transposed and strided buffers), values in [0,1] and a "
        "few large, chain labellings with unequal lengths, one chain, gaps, interleaved / alternating / descending / shuffled labels (not sorted "
        "contiguous blocks); effects: 0..14 rows, arity 2/3, ids >= -1, each (sample, agent) measured 0..3 times alone with control in "
        "any column, combinations with and without measured agents; cmse/space: real Screens (arity 1-2; half with a non-default encoding = permuted treatment and "
        "sample ids, shuffled mapping rows, named control at a positive dose; half partially observed) and holders of 1..3 "
        "SparseDrugCombo / interaction samples. Non-trivial: eval with >=2 chains of unequal length and E != K; effects with a repeated "
        "single-agent measurement, control in both columns and a skipped combination.")

REL = 1e-9
LONG_NAMES = ["sample_" + "x" * 24, "é" * 26, "cell line with a long descriptive name 0123456789"]


def fb(x):
    return S.bits(float(x))


def close(a, b, scale=1.0):
    if a == b or (math.isnan(a) and math.isnan(b)):
        return True
    if math.isnan(a) or math.isnan(b) or math.isinf(a) or math.isinf(b):
        return False
    return abs(a - b) <= REL * max(abs(a), abs(b), scale) + 1e-300


def pscale_of(m):
    return float(np.max(np.abs(m))) if m.size else 1.0


def vec_tok(v):
    return P.vec_tok(v)


def mat_tok(m, k=None):
    m = [list(r) for r in m]
    if not m:
        return "-"
    return ";".join("_" if not r else ",".join(str(fb(x)) for x in r) for r in m)


def ints_tok(v):
    v = [int(x) for x in v]
    return "-" if not v else ",".join(str(x) for x in v)


def rows_tok(rows):
    rows = [[int(x) for x in r] for r in rows]
    return "-" if not rows else ";".join("_" if not r else ",".join(str(x) for x in r) for r in rows)


def fsum(xs):
    return math.fsum(xs)


# ============================================================================= eval

WIDTHS = [127, 128, 255, 256, 257]
BLOCKS = [7, 8, 9, 15, 16, 17, 20, 31, 32, 33, 40, 63, 64, 65, 129]


def gen_eval(rng, idx):
    E = rng.choice([1, 2, 3, 4, 5, 6, 7])
    K = rng.choice([1, 2, 3, 4, 5, 6, 7]) if rng.random() < 0.8 else E
    boundary = rng.random() < 0.1
    if boundary:     # sizes, labels and name lengths straddling the 8/16/32-bit boundaries, through save/load
        if rng.random() < 0.5:
            E, K = rng.choice(WIDTHS), rng.choice([1, 2, 3])
        else:
            E, K = rng.choice([1, 2, 3]), rng.choice(WIDTHS)
    blocks = (not boundary) and rng.random() < 0.15
    if blocks:       # numbers of posterior samples / experiments straddling the usual blocking factors (8, 16, 32, 64, 128)
        if rng.random() < 0.6:
            K = rng.choice(BLOCKS)
        else:
            E = rng.choice(BLOCKS)
    big = rng.random() < 0.1
    val = (lambda: rng.uniform(-1e6, 1e6)) if big else (lambda: rng.random())
    preds = [[val() for _ in range(K)] for _ in range(E)]
    obs = [val() for _ in range(E)]
    mode = rng.choice(["one", "equal", "unequal", "unequal", "gaps", "interleaved", "alternating", "descending", "shuffled"])
    if mode == "one":
        chains = [rng.choice([0, 3])] * K
    elif mode == "equal":
        c = rng.randint(1, max(1, K))
        chains = [i % c for i in range(K)]
        chains.sort()
    elif mode == "unequal":
        chains = sorted(rng.choice([0, 0, 0, 1, 2]) for _ in range(K))
    elif mode == "gaps":
        chains = sorted(rng.choice([2, 5, 5, 9]) for _ in range(K))
    elif mode == "alternating":      # round-robin merge of the chains: 0,1,0,1,... / 0,1,2,0,1,2,...
        c = rng.randint(2, 3)
        chains = [i % c for i in range(K)]
    elif mode == "descending":       # contiguous blocks, labels descending (also negative), lengths unequal
        chains = sorted((rng.choice([-3, 0, 0, 0, 4, 4]) for _ in range(K)), reverse=True)
    elif mode == "shuffled":         # unequal lengths, no block structure at all
        chains = [rng.choice([7, 7, 7, 1, 1, 12, -2]) for _ in range(K)]
        rng.shuffle(chains)
    else:
        chains = [rng.choice([0, 1, 1, 2]) for _ in range(K)]
    names = [rng.choice(S.NAME_POOL[1:] + LONG_NAMES) for _ in range(E)]
    if boundary:
        lab = rng.sample([127, 128, 255, 256, 257, -128, -129, 32767, 32768, 2 ** 31 - 1, 2 ** 31, 2 ** 40], rng.randint(1, 3))
        chains = [rng.choice(lab) for _ in range(K)]
        mode = "boundary"
        for k in range(min(E, 3)):
            names[rng.randrange(E)] = "n" * rng.choice(WIDTHS)
    layout = rng.choice(["c", "c", "t", "strided"])
    bad = None
    if rng.random() < 0.08:
        bad = rng.choice(["obs", "chains", "names"])
    return {"kind": "eval", "idx": idx, "preds": [[fb(x) for x in r] for r in preds], "obs": [fb(x) for x in obs], "chains": chains,
            "names": names, "bad": bad, "E": E, "K": K, "mode": mode, "layout": layout, "boundary": boundary, "blocks": blocks,
            "verbose": idx % 6 == 0 or boundary or blocks}


def _build_eval(case):
    E, K = case["E"], case["K"]
    preds = np.array([[S.from_bits(b) for b in r] for r in case["preds"]], dtype=float).reshape(E, K)
    obs = np.array([S.from_bits(b) for b in case["obs"]], dtype=float)
    return preds, obs, np.array(case["chains"], dtype=int), np.array(case["names"], dtype=str)


def quick_results(case):
    """the outputs of a case's stream on fresh objects, as bits / error classes -- for the verbose-vs-default comparison"""
    out = {}

    def put(name, f):
        try:
            with np.errstate(all="ignore"):
                v = f()
            out[name] = v
        except Exception as e:  # noqa
            out[name] = S.err_tok(e)

    k = case.get("kind")
    if k == "eval" and not case.get("bad"):
        from batchie.models.main import ModelEvaluation
        preds, obs, chains, names = _build_eval(case)
        ev = ModelEvaluation(predictions=preds, observations=obs, chain_ids=chains, sample_names=names)
        put("mse", lambda: fb(ev.mse()))
        put("mse_variance", lambda: fb(ev.mse_variance()))
        put("inter_chain_mse_variance", lambda: fb(ev.inter_chain_mse_variance()))
        put("mean_predictions", lambda: np.asarray(ev.mean_predictions, dtype=float).tobytes())
        out["inputs"] = (preds.tobytes(), obs.tobytes(), chains.tobytes(), names.tobytes())
    elif k == "effects":
        from batchie.data import create_single_treatment_effect_map, create_single_treatment_effect_array
        from batchie.synergy import calculate_synergy
        n, a = len(case["sids"]), case["arity"]
        sids = np.array(case["sids"], dtype=int)
        tids = np.array(case["tids"], dtype=int).reshape(n, a)
        obs = np.array([S.from_bits(b) for b in case["obs"]], dtype=float)
        put("effect_map", lambda: [(int(k_[0]), int(k_[1]), fb(v)) for k_, v in
                                   create_single_treatment_effect_map(sample_ids=sids, treatment_ids=tids, observation=obs).items()])
        put("effect_array", lambda: np.asarray(create_single_treatment_effect_array(sample_ids=sids, treatment_ids=tids, observation=obs), dtype=float).tobytes())
        if a == 2 and all(any(x != -1 for x in r) for r in case["tids"]):
            for strict in (False, True):
                put("synergy_strict%d" % strict, lambda strict=strict: tuple(np.asarray(x).tolist() for x in
                                                                               calculate_synergy(sample_ids=sids, treatment_ids=tids, observation=obs, strict=strict)))
        out["inputs"] = (sids.tobytes(), tids.tobytes(), obs.tobytes())
    elif k in ("cmse", "space"):
        from batchie.retrospective import calculate_mse
        from batchie.models.main import correlation_matrix, generate_full_combinatoric_space
        h, ths = holder_of(case)
        sc = P.build_screen(case["raw"])
        if k == "cmse":
            put("calculate_mse", lambda: fb(calculate_mse(sc, h)))
        else:
            def cm():
                m = correlation_matrix(sc, h)
                return (np.asarray(m.values, dtype=float).tobytes(), [str(x) for x in m.index])
            put("correlation_matrix", cm)
            if sc.size:
                sid0 = int(sc.unique_sample_ids[0])
                put("full_space_ids", lambda: np.asarray(generate_full_combinatoric_space(sid0, sc).treatment_ids).tobytes())
        out["inputs"] = (P.deep_snap(sc), [P.deep_snap(t) for t in ths])
    return out


def with_verbose(case, res, body):
    """item 19: a case marked `verbose` runs under `vlib.common.verbose_logging()` (what -v/--verbose sets) with the same oracles, and
    every output of its stream must be bit-identical to the run without verbose logging (outputs are functions of the inputs)"""
    if not case.get("verbose"):
        return body()
    quiet = quick_results(case)
    with common.verbose_logging():
        out = body()
        loud = quick_results(case)
    for name in quiet:
        if quiet[name] != loud.get(name):
            if name == "inputs":
                res.count("observed.inputs_differ_under_verbose_logging")      # purity is not a clause of C20 (item 14)
                continue
            res.fail("%s gives another result under verbose (DEBUG) logging than without it" % name, case, str(loud.get(name))[:160],
                     str(quiet[name])[:160], signature="C20:verbose-logging")
            break
    return out


def run_eval(case, res, lines, tmp):
    return with_verbose(case, res, lambda: _run_eval(case, res, lines, tmp))


def _run_eval(case, res, lines, tmp):
    from batchie.models.main import ModelEvaluation
    E, K = case["E"], case["K"]
    preds = np.array([[S.from_bits(b) for b in r] for r in case["preds"]], dtype=float).reshape(E, K)
    if case.get("layout") == "t":            # Fortran-ordered (a transposed K x E buffer)
        preds = np.ascontiguousarray(preds.T).T
    elif case.get("layout") == "strided":    # a view into a larger buffer: neither C- nor F-contiguous
        big = np.full((2 * E, 2 * K), 123.25, dtype=float)
        big[::2, ::2] = preds
        preds = big[::2, ::2]
    obs = np.array([S.from_bits(b) for b in case["obs"]], dtype=float)
    chains = np.array(case["chains"], dtype=int)
    names = np.array(case["names"], dtype=str)
    if case["bad"] == "obs":
        obs = np.concatenate([obs, [0.5]])
        names = np.concatenate([names, ["x"]])
    elif case["bad"] == "chains":
        chains = np.concatenate([chains, [0]])
    elif case["bad"] == "names":
        names = names[:-1]
    try:
        ev = ModelEvaluation(predictions=preds, observations=obs, chain_ids=chains, sample_names=names)
    except Exception as e:  # noqa
        ev = S.err_tok(e)
    head = "%s %s %s %d" % (mat_tok(preds), vec_tok(obs), ints_tok(chains), K)
    if case["bad"]:
        # malformed input (outside the quantifier): compared with the model only, never a replay
        if lines is not None and case["bad"] != "names":
            lines.append(("c20.eval mse " + head, ev if isinstance(ev, str) else "constructed", "scalar", case))
        return
    if isinstance(ev, str):
        res.fail("ModelEvaluation refuses consistent arrays", case, ev, "an evaluation")
        return
    sq = [[(float(preds[e, k]) - float(obs[e])) ** 2 for k in range(K)] for e in range(E)]
    scale = max(max(r) for r in sq) if E and K else 1.0
    want = {}
    want["mse"] = fsum(x for r in sq for x in r) / (E * K)
    per_exp = [fsum(r) / K for r in sq]
    mu = fsum(per_exp) / E
    want["msevar"] = fsum((x - mu) ** 2 for x in per_exp) / E
    cm = []
    for c in sorted(set(case["chains"])):
        cols = [k for k in range(K) if case["chains"][k] == c]
        cm.append(fsum(sq[e][k] for e in range(E) for k in cols) / (E * len(cols)))
    mu_c = fsum(cm) / len(cm)
    want["interchain"] = fsum((x - mu_c) ** 2 for x in cm) / len(cm)
    want["meanpred"] = [fsum(float(preds[e, k]) for k in range(K)) / K for e in range(E)]
    in_before = (preds.tobytes(), obs.tobytes(), chains.tobytes(), names.tobytes(), P.deep_snap(ev))
    got = {}
    for k, f in (("mse", lambda: float(ev.mse())), ("msevar", lambda: float(ev.mse_variance())),
                 ("interchain", lambda: float(ev.inter_chain_mse_variance())),
                 ("meanpred", lambda: [float(x) for x in np.asarray(ev.mean_predictions).reshape(-1)])):
        try:
            got[k] = f()
        except Exception as e:  # noqa  (an exception of the implementation is behaviour, not a harness crash)
            res.fail("evaluation metric raises on a consistent evaluation", case, {"metric": k, "error": repr(e)[:200]}, "a value",
                     signature="C20:" + k)
            got[k] = [float("nan")] * E if k == "meanpred" else float("nan")
    # object reuse / aliasing: the same evaluation object asked again, in another order, answers bit-identically; the vector it
    # returned earlier is still what it was and is not a view of the prediction matrix; no input / attribute changed
    try:
        mp_arr = ev.mean_predictions
        mp_then = [fb(x) for x in np.asarray(mp_arr).reshape(-1)]
        again = {"interchain": float(ev.inter_chain_mse_variance()), "meanpred": [float(x) for x in np.asarray(ev.mean_predictions).reshape(-1)],
                 "msevar": float(ev.mse_variance()), "mse": float(ev.mse())}
        for k in ("mse", "msevar", "interchain"):
            if not close(again[k], got[k], {"mse": scale, "msevar": scale * scale, "interchain": scale * scale}[k]):
                res.fail("a metric of the same evaluation object changes when asked again", case, {"metric": k, "first": got[k], "again": again[k]},
                         "identical", signature="C20:object-reuse")
        ps_ = pscale_of(preds)
        if len(again["meanpred"]) != len(got["meanpred"]) or not all(close(a, b, ps_) for a, b in zip(again["meanpred"], got["meanpred"])):
            res.fail("mean_predictions changes when asked again / an earlier result changed", case, again["meanpred"][:6], got["meanpred"][:6],
                     signature="C20:object-reuse")
        if isinstance(mp_arr, np.ndarray) and mp_arr.size and (np.shares_memory(mp_arr, preds) or np.shares_memory(mp_arr, obs)):
            res.count("observed.mean_predictions_is_a_view")     # not a clause of C20: counted, never a replay
    except Exception as e:  # noqa
        res.fail("evaluation metric raises when asked again", case, repr(e)[:200], "a value", signature="C20:object-reuse")
    # temporaries: evaluations with the SAME shapes and other values are built, asked and dropped one after the other (CPython gives
    # the next object the address of the previous one): anything memoised by id(self) / shape returns the neighbour's value
    for v, (pv, ov) in enumerate(((preds[::-1].copy(), obs), (preds * 0.5, obs), (preds, obs[::-1].copy()), (preds.copy(), obs.copy()))):
        sqv = [[(float(pv[e, k]) - float(ov[e])) ** 2 for k in range(K)] for e in range(E)]
        pe = [fsum(r) / K for r in sqv]
        w_mse = fsum(x for r in sqv for x in r) / (E * K)
        w_var = fsum((x - fsum(pe) / E) ** 2 for x in pe) / E
        cmv = []
        for c in sorted(set(case["chains"])):
            cols = [k for k in range(K) if case["chains"][k] == c]
            cmv.append(fsum(sqv[e][k] for e in range(E) for k in cols) / (E * len(cols)))
        w_ic = fsum((x - fsum(cmv) / len(cmv)) ** 2 for x in cmv) / len(cmv)
        w_mp = [fsum(float(pv[e, k]) for k in range(K)) / K for e in range(E)]
        sc_v = max(max(r) for r in sqv) if E and K else 1.0
        try:
            g = (float(ModelEvaluation(predictions=pv, observations=ov, chain_ids=chains, sample_names=names).mse()),
                 float(ModelEvaluation(predictions=pv, observations=ov, chain_ids=chains, sample_names=names).mse_variance()),
                 float(ModelEvaluation(predictions=pv, observations=ov, chain_ids=chains, sample_names=names).inter_chain_mse_variance()),
                 [float(x) for x in ModelEvaluation(predictions=pv, observations=ov, chain_ids=chains, sample_names=names).mean_predictions])
        except Exception as e:  # noqa
            res.fail("a metric raises on a temporary evaluation object", case, repr(e)[:200], "a value", signature="C20:temporaries")
            break
        if not (close(g[0], w_mse, sc_v) and close(g[1], w_var, sc_v * sc_v) and close(g[2], w_ic, sc_v * sc_v)
                and len(g[3]) == E and all(close(a, b, pscale_of(pv)) for a, b in zip(g[3], w_mp))):
            res.fail("a metric of a temporary evaluation object (same shapes as an earlier one, other values) is not its definition", case,
                     {"variant": v, "got": [g[0], g[1], g[2]]}, [w_mse, w_var, w_ic], signature="C20:temporaries")
            break
    if (preds.tobytes(), obs.tobytes(), chains.tobytes(), names.tobytes(), P.deep_snap(ev)) != in_before:
        res.count("observed.eval_inputs_mutated")     # purity is not a clause of C20: counted; wrong VALUES are caught by the definitions
    msgs = {"mse": "mse is not the mean squared error over all (experiment, posterior sample) pairs",
            "msevar": "mse_variance is not the variance across experiments of the per-experiment mean squared error",
            "interchain": "inter_chain_mse_variance is not the variance of the per-chain MSEs",
            "meanpred": "mean_predictions is not the per-experiment average over posterior samples"}
    vscale = {"mse": scale, "msevar": scale * scale, "interchain": scale * scale}
    for k in ("mse", "msevar", "interchain"):
        if not close(got[k], want[k], vscale[k]):
            res.fail(msgs[k], case, got[k], want[k], signature="C20:" + k)
    pscale = float(np.max(np.abs(preds))) if preds.size else 1.0
    if len(got["meanpred"]) != E or not all(close(a, b, pscale) for a, b in zip(got["meanpred"], want["meanpred"])):
        res.fail(msgs["meanpred"], case, got["meanpred"][:6], want["meanpred"][:6], signature="C20:meanpred")
    if len(set(case["chains"])) == 1 and got["interchain"] != 0.0 and not close(got["interchain"], 0.0, vscale["interchain"]):
        res.fail("one chain but non-zero inter-chain variance", case, got["interchain"], 0.0, signature="C20:interchain")
    # ---- save / load round trip ---------------------------------------------------------------
    if tmp is not None:
        fn = os.path.join(tmp, "ev_%s.h5" % case["idx"])
        try:
            # instalments: the path already holds ANOTHER evaluation (other shapes, longer names, wider labels) -- the second save replaces it
            other = ModelEvaluation(predictions=np.full((E + 2, K + 3), 0.25), observations=np.full(E + 2, 0.75),
                                    chain_ids=np.arange(K + 3, dtype=int) + 1000, sample_names=np.array(["other_" + "z" * 40] * (E + 2), dtype=str))
            other.save_h5(fn)
            ev.save_h5(fn)
            ev2 = ModelEvaluation.load_h5(fn)
            # load path: a file whose values include NaN, +-inf, -0.0 and unsorted data comes back value by value (a summary helper
            # run on load must not rewrite them)
            odd = np.array(preds, dtype=float, copy=True)
            flat = odd.reshape(-1)
            for pos, v in zip(range(0, flat.size, 2), [float("nan"), float("inf"), -float("inf"), -0.0, 5e-324, 1e308]):
                flat[pos] = v
            odd_obs = np.array(obs, dtype=float, copy=True)
            odd_obs[0] = float("nan") if E % 2 else -float("inf")
            ModelEvaluation(predictions=odd, observations=odd_obs, chain_ids=chains, sample_names=names).save_h5(fn + ".odd")
            back = ModelEvaluation.load_h5(fn + ".odd")
            if np.asarray(back.predictions).tobytes() != odd.tobytes() or np.asarray(back.observations).tobytes() != odd_obs.tobytes():
                res.fail("an evaluation file with NaN / inf / -0.0 values does not reload value by value", case,
                         np.asarray(back.predictions).reshape(-1)[:8].tolist(), odd.reshape(-1)[:8].tolist(), signature="C20:reload")
            os.unlink(fn + ".odd")
            if lines is not None:
                # tie of the model's save/load of an evaluation record (`loadEval (saveEval r)`, theorem C20_reload) to the real round trip
                ntok = lambda a: ",".join(S.name_tok(str(x)) for x in a)  # noqa: E731
                lines.append(("c20.reload %d %s %s %s %s" % (K, mat_tok(preds), vec_tok(obs), ints_tok(chains), ntok(names)),
                              "ok %s %s %s %s" % (mat_tok(np.asarray(ev2.predictions, dtype=float)), vec_tok(ev2.observations),
                                                  ints_tok(ev2.chain_ids), ntok(ev2.sample_names)), "text", case))
            attrs_same = sorted(vars(ev2)) == sorted(vars(ev)) and all(
                np.asarray(vars(ev2)[k]).shape == np.asarray(vars(ev)[k]).shape
                and np.asarray(vars(ev2)[k]).dtype.kind == np.asarray(vars(ev)[k]).dtype.kind
                and np.asarray(vars(ev2)[k]).tolist() == np.asarray(vars(ev)[k]).tolist() for k in vars(ev))
            same = (attrs_same and ev2.predictions.tobytes() == preds.tobytes() and ev2.predictions.shape == preds.shape
                    and ev2.observations.tobytes() == obs.tobytes()
                    and [int(x) for x in ev2.chain_ids] == [int(x) for x in chains]
                    and [str(x) for x in ev2.sample_names] == [str(x) for x in names])
            if not same:
                res.fail("evaluation file does not reload unchanged", case,
                         {"names": [str(x) for x in ev2.sample_names][:5], "chains": [int(x) for x in ev2.chain_ids][:8]},
                         {"names": [str(x) for x in names][:5], "chains": [int(x) for x in chains][:8]}, signature="C20:reload")
            elif not (close(float(ev2.mse()), got["mse"], vscale["mse"]) and close(float(ev2.mse_variance()), got["msevar"], vscale["msevar"])
                      and close(float(ev2.inter_chain_mse_variance()), got["interchain"], vscale["interchain"])
                      and all(close(float(a), b, pscale) for a, b in zip(ev2.mean_predictions, got["meanpred"]))):
                # (tolerance, not bits: the reloaded matrix is C-ordered, the original may be a transposed / strided buffer,
                #  and numpy's pairwise summation follows the memory order)
                res.fail("metrics differ after reloading the evaluation file", case, float(ev2.mse()), float(ev.mse()), signature="C20:reload")
        except Exception as e:  # noqa
            res.fail("evaluation save/load raises", case, repr(e)[:200], "round trip", signature="C20:reload")
        finally:
            if os.path.exists(fn):
                os.unlink(fn)
    if lines is not None:
        for k in ("mse", "msevar", "interchain"):
            lines.append(("c20.eval %s %s" % (k, head), got[k], ("scalar", vscale[k]), case))
        lines.append(("c20.eval meanpred " + head, got["meanpred"], ("vec", pscale), case))


# ============================================================================= effects / synergy

def gen_effects(rng, idx):
    arity = rng.choice([2, 2, 2, 3])
    n_s = rng.randint(1, 3)
    n_t = rng.randint(1, 4)
    sid_pool = rng.sample([0, 1, 2, 5, 7], n_s)
    tid_pool = rng.sample([0, 1, 2, 3, 6, 9], n_t)
    n = rng.randint(0, 14) if rng.random() < 0.9 else 0
    mode = "random"
    r = rng.random()
    if r < 0.25:
        # ids with gaps whose differences are multiples of the NUMBER of distinct ids (control included): two samples s, s+k and
        # two agents t, t+c*k -- any (sample, treatment) key packed with a radix that is a count instead of max id + 1 collides
        mode = "gap_collision"
        k = rng.choice([1, 2, 3])
        extra = rng.choice([0, 1])
        c = 3 + extra
        t0 = rng.choice([0, 1, 2])
        tid_pool = [t0, t0 + c * k] + ([t0 + c * k + 1] if extra else [])
        s0 = rng.choice([0, 1, 4])
        sid_pool = [s0, s0 + k]
        n = rng.randint(6, 14)
    elif r < 0.31:
        mode = "no_control"
    elif r < 0.43:
        mode = "wide_ids"
        sid_pool = rng.sample([127, 128, 255, 256, 257, 65536], n_s)
        tid_pool = rng.sample([127, 128, 255, 256, 257, 32768], n_t)
    sids, tids, obs = [], [], []
    for _ in range(n):
        s = rng.choice(sid_pool)
        m = rng.random() if mode != "no_control" else 0.6
        if m < 0.45:        # single agent, control elsewhere, in a random column
            row = [-1] * arity
            row[rng.randrange(arity)] = rng.choice(tid_pool)
        elif m < 0.9:       # combination
            row = [rng.choice(tid_pool) for _ in range(arity)]
            if arity == 3 and rng.random() < 0.5:
                row[rng.randrange(3)] = -1
                if row.count(-1) == 2:
                    row = [rng.choice(tid_pool) for _ in range(arity)]
        else:
            row = [-1] * arity
        sids.append(s)
        tids.append(row)
        obs.append(rng.choice([rng.random(), rng.random(), 0.5, 0.25, 1.0, 0.0]))
    return {"kind": "effects", "idx": idx, "arity": arity, "sids": sids, "tids": tids, "obs": [fb(x) for x in obs], "mode": mode,
            "layout": rng.choice(["c", "c", "f", "strided_ro", "negstride"]), "verbose": idx % 6 == 0 or mode in ("gap_collision", "wide_ids")}


def ref_effect_map(arity, sids, tids, obs):
    out = {}
    for s in sorted(set(sids)):
        for t in sorted(set(x for r in tids for x in r)):
            if t == -1:
                out[(s, t)] = 1.0
                continue
            xs = []
            for i in range(len(sids)):
                row = tids[i]
                if sids[i] == s and sum(1 for x in row if x != -1) == 1 and t in row:
                    xs.append(obs[i])
            if xs:
                out[(s, t)] = fsum(xs) / len(xs)
    return out


def run_effects(case, res, lines):
    return with_verbose(case, res, lambda: _run_effects(case, res, lines))


def _run_effects(case, res, lines):
    from batchie.data import create_single_treatment_effect_map, create_single_treatment_effect_array
    from batchie.synergy import calculate_synergy
    a = case["arity"]
    sids_l, tids_l = case["sids"], case["tids"]
    obs_l = [S.from_bits(b) for b in case["obs"]]
    n = len(sids_l)
    sids = np.array(sids_l, dtype=int)
    tids = np.array(tids_l, dtype=int).reshape(n, a)
    obs = np.array(obs_l, dtype=float)
    lay = case.get("layout", "c")
    if lay == "f":
        tids = np.asfortranarray(tids)
    elif lay == "strided_ro":
        def _sv(x):
            big = np.full(tuple(2 * k for k in x.shape), 5, dtype=x.dtype)
            v = big[tuple(slice(None, None, 2) for _ in x.shape)]
            v[...] = x
            v.flags.writeable = False
            return v
        sids, tids, obs = _sv(sids), _sv(tids), _sv(obs)
    elif lay == "negstride":
        sids, tids, obs = (np.ascontiguousarray(x[::-1])[::-1] for x in (sids, tids, obs))
    keep = (sids.copy(), tids.copy(), obs.copy())
    head = "%d %s %s %s" % (a, ints_tok(sids_l), rows_tok(tids_l), vec_tok(obs))
    want = ref_effect_map(a, sids_l, tids_l, obs_l)
    try:
        got = create_single_treatment_effect_map(sample_ids=sids, treatment_ids=tids, observation=obs)
        got = {(int(k[0]), int(k[1])): float(v) for k, v in got.items()}
    except Exception as e:  # noqa
        got = S.err_tok(e)
    if isinstance(got, str):
        res.fail("create_single_treatment_effect_map raises on valid arrays", case, got, "a map")
    else:
        if list(got.keys()) != list(want.keys()) and set(got.keys()) != set(want.keys()):
            res.fail("single-effect map has the wrong key set", case, sorted(got.keys())[:12], sorted(want.keys())[:12], signature="C20:effect-keys")
        else:
            for k in want:
                if k[1] == -1 and got[k] != 1.0:
                    res.fail("single-agent effect of control is not 1", case, got[k], 1.0, signature="C20:effect-control")
                if not close(got[k], want[k]):
                    res.fail("single-agent effect is not the mean of that sample's single-agent observations", case,
                             {"key": list(k), "got": got[k]}, want[k], signature="C20:effect-mean")
                    break
        if lines is not None:
            lines.append(("c20.sem " + head, [(k[0], k[1], v) for k, v in got.items()], "map", case))
    # ---- array ------------------------------------------------------------------------------------
    try:
        arr = create_single_treatment_effect_array(sample_ids=sids, treatment_ids=tids, observation=obs)
        arr_l = [[float(x) for x in r] for r in arr]
    except Exception as e:  # noqa
        arr_l = S.err_tok(e)
    complete = all((sids_l[i], t) in want for i in range(n) for t in tids_l[i])
    if complete:
        if isinstance(arr_l, str):
            res.fail("create_single_treatment_effect_array raises although every cell has an effect", case, arr_l, "an array")
        elif np.asarray(arr).shape != (n, a) or any(not close(arr_l[i][j], want[(sids_l[i], tids_l[i][j])]) for i in range(n) for j in range(a)):
            res.fail("single-effect array cell differs from the (sample, treatment) effect", case, arr_l[:4], "cellwise effect", signature="C20:effect-array")
    # (an unmeasured agent in the array: behaviour not stated by the property -- compared with the model below only)
    if lines is not None:
        lines.append(("c20.sea " + head, arr_l, "matrix", case))
    # ---- synergy (arity 2, at least one non-control per row: the rectangular shape) -----------------
    if a == 2 and all(any(x != -1 for x in r) for r in tids_l):
        exp_rows = []
        lacking = False
        for i in range(n):
            nc = [t for t in tids_l[i] if t != -1]
            if len(nc) < 2:
                continue
            if all((sids_l[i], t) in want for t in nc):
                exp_rows.append((sids_l[i], nc, want[(sids_l[i], nc[0])] * want[(sids_l[i], nc[1])] - obs_l[i]))
            else:
                lacking = True
        for strict in (False, True):
            try:
                rs, rt, rv = calculate_synergy(sample_ids=sids, treatment_ids=tids, observation=obs, strict=strict)
                out = [(int(s), [int(x) for x in np.atleast_1d(t)], float(v)) for s, t, v in zip(rs, rt, rv)]
            except Exception as e:  # noqa
                out = S.err_tok(e)
            if strict and lacking:
                if not isinstance(out, str):      # any refusal counts; the exception class is compared with the model only
                    res.fail("strict synergy does not refuse a combination lacking a single-agent measurement", case, str(out)[:200], "ValueError",
                             signature="C20:synergy-strict")
            elif isinstance(out, str):
                res.fail("calculate_synergy raises on valid arrays", case, out, "synergy arrays")
            else:
                ok = len(out) == len(exp_rows) and all(o[0] == w[0] and o[1] == w[1] and close(o[2], w[2]) for o, w in zip(out, exp_rows))
                if not ok:
                    res.fail("Bliss synergy is not (product of single-agent effects - observation) on exactly the measured combinations", case,
                             [list(o) for o in out][:5], [list(w) for w in exp_rows][:5], signature="C20:synergy-bliss")
            if lines is not None:
                lines.append(("c20.syn %d %s" % (1 if strict else 0, head), out, "syn", case))
    if (sids.tobytes(), tids.tobytes(), obs.tobytes()) != tuple(x.tobytes() for x in keep):
        res.count("observed.effect_inputs_mutated")   # not a clause of C20: counted only


# ============================================================================= calculate_mse / space / correlation

def gen_model(rng, idx, kind_name, n_th=None):
    n_th_forced = n_th
    kind = "sdc" if rng.random() < 0.7 else "sdci"
    n_s = rng.randint(1, 4) if (kind_name != "space" or rng.random() < 0.2) else rng.randint(2, 4)
    n_t = rng.randint(1, 4)
    if kind_name == "space" and rng.random() < 0.1:
        n_s = 11            # two-digit sample names ("s10" sorts before "s2")
    arity = 2 if kind == "sdci" else rng.choice([1, 2, 2])
    raw = P.gen_raw(rng, arity, n_s, n_t, n_max=10)
    if len(raw["snames"]) == 0:
        raw = P.gen_raw(rng, arity, n_s, n_t, n_max=10)
    regime = rng.choice(["normal", "normal", "large", "tiny"]) if n_th_forced is None else "normal"   # large holders: samples that really differ
    n_th = rng.randint(1, 3)
    if n_th_forced is not None:
        n_th = n_th_forced
    elif rng.random() < 0.1:
        n_th = rng.choice([15, 16, 17, 20, 33])      # averages over posterior samples in a large holder
    thetas = [P.gen_theta_case(rng, kind, n_s, n_t, regime) for _ in range(n_th)]
    d = max(thetas[0]["D"], 1)
    thetas = [P.gen_theta_case(rng, kind, n_s, n_t, regime) for _ in range(n_th)]
    n = len(raw["snames"])
    tmp_masks = []
    if n >= 2:
        k = rng.randint(1, n - 1)
        for _ in range(3):
            chosen = set(rng.sample(range(n), k))
            tmp_masks.append([i in chosen for i in range(n)])
    return {"kind": kind_name, "idx": idx, "model": kind, "raw": raw, "thetas": thetas, "tmp_masks": tmp_masks,
            "verbose": idx % 5 == 0 or (n_th_forced is not None and n_th_forced in (16, 17, 33, 65))}


def holder_of(case):
    from batchie.core import ThetaHolder
    ths = [P.theta_from_case(case["model"], c) for c in case["thetas"]]
    h = ThetaHolder(n_thetas=len(ths))
    for t in ths:
        h.add_theta(t)
    return h, ths


def run_cmse(case, res, lines):
    return with_verbose(case, res, lambda: _run_cmse(case, res, lines))


def _run_cmse(case, res, lines):
    from batchie.retrospective import calculate_mse
    h, ths = holder_of(case)
    sc = P.build_screen(case["raw"])
    n = sc.size
    try:
        with np.errstate(all="ignore"):
            got = float(calculate_mse(sc, h))
    except Exception as e:  # noqa
        got = S.err_tok(e)
    try:
        per = [[float(x) for x in t.predict_viability(sc)] for t in ths]
    except Exception as e:  # noqa
        per = None
    if per is None or any(math.isnan(x) for p in per for x in p):
        return
    avg = [fsum(p[i] for p in per) / len(per) for i in range(n)]
    obs = [float(x) for x in sc.observations]
    want = fsum((avg[i] - obs[i]) ** 2 for i in range(n)) / n if n else float("nan")
    if isinstance(got, str) or not close(got, want):
        res.fail("calculate_mse is not the mean squared error of the averaged viability prediction", case, got, want, signature="C20:calculate-mse")
    if lines is not None and not isinstance(got, str):
        lines.append(("c20.cmse %s %s" % (vec_tok(avg), vec_tok(obs)), got, ("scalar", 1.0), case))


def run_space(case, res, lines):
    return with_verbose(case, res, lambda: _run_space(case, res, lines))


def _run_space(case, res, lines):
    from batchie.models.main import generate_full_combinatoric_space, correlation_matrix
    h, ths = holder_of(case)
    kind = case["model"]
    sc = P.build_screen(case["raw"])
    a = int(sc.treatment_arity)
    tm = sc.treatment_mapping
    sm = sc.sample_mapping
    n_map = len(tm[0])
    key_to_idx = {(str(nm), float(d)): i for i, (nm, d) in enumerate(zip(tm[0], tm[1]))}
    usids = [int(x) for x in sc.unique_sample_ids]
    tm_ids = [int(x) for x in tm[2]]
    sm_ids = [int(x) for x in sm[1]]
    snap0 = (P.deep_snap(sc), [P.deep_snap(t) for t in ths])
    spaces = {}
    for sid in usids[:2]:
        try:
            sp = generate_full_combinatoric_space(sid, sc)
        except Exception as e:  # noqa
            sp = S.err_tok(e)
        if isinstance(sp, str):
            if a <= n_map:
                res.fail("generate_full_combinatoric_space raises", case, sp, "a screen")
        else:
            spaces[sid] = sp
            combos = []
            for r in range(sp.size):
                combos.append(tuple(key_to_idx.get((str(sp.treatment_names[r][c]), float(sp.treatment_doses[r][c])), -99) for c in range(a)))
            want = list(itertools.combinations(range(n_map), a))
            if sorted(tuple(sorted(c)) for c in combos) != sorted(want):
                res.fail("combinatoric space is not every unordered combination of mapping rows exactly once", case,
                         {"rows": len(combos), "distinct": len(set(tuple(sorted(c)) for c in combos))}, {"rows": len(want)}, signature="C20:space")
            ids = np.asarray(sp.treatment_ids)
            if any(int(ids[r][c]) != tm_ids[combos[r][c]] for r in range(sp.size) for c in range(a) if combos[r][c] >= 0):
                res.fail("combinatoric space is not encoded with the screen's own treatment ids", case, ids[:4].tolist(), "mapping ids", signature="C20:space-ids")
            if any(int(x) != sid for x in sp.sample_ids):
                res.fail("combinatoric space is not encoded with the screen's own sample id", case, [int(x) for x in sp.sample_ids][:4], sid, signature="C20:space-ids")
            if S.show_tmap(sp.treatment_mapping) != S.show_tmap(tm) or S.show_smap(sp.sample_mapping) != S.show_smap(sm):
                res.count("observed.space_mappings_differ")   # the ids are what the property states (checked above); counted only
        if lines is not None:
            impl = sp if isinstance(sp, str) else (ints_tok(sp.sample_ids), rows_tok(np.asarray(sp.treatment_ids)))
            lines.append(("c20.space %d %s %s %d" % (a, ints_tok(tm_ids), ints_tok(sm_ids), sid), impl, "space", case))
    # ---- correlation matrix -----------------------------------------------------------------------
    try:
        with np.errstate(all="ignore"):
            cm = correlation_matrix(sc, h)
        corr = [[float(x) for x in r] for r in cm.values]
        labels = [str(x) for x in cm.index]
        cols = [str(x) for x in cm.columns]
    except Exception as e:  # noqa
        corr = S.err_tok(e)
    if (P.deep_snap(sc), [P.deep_snap(t) for t in ths]) != snap0:
        res.count("observed.space_inputs_mutated")    # purity of these helpers is C09's clause, not C20's: counted only
    if not isinstance(corr, str):
        # object reuse: the same holder and screen asked again give the same matrix
        try:
            with np.errstate(all="ignore"):
                cm2 = correlation_matrix(sc, h)
            if not np.allclose(np.asarray(cm2.values, dtype=float), np.asarray(cm.values, dtype=float), rtol=1e-9, atol=1e-9, equal_nan=True) \
                    or [str(x) for x in cm2.index] != labels:
                res.fail("correlation_matrix of the same screen and holder differs when asked again", case, "different", "identical",
                         signature="C20:object-reuse")
        except Exception as e:  # noqa
            res.fail("correlation_matrix raises when asked again", case, repr(e)[:200], "a matrix", signature="C20:object-reuse")
    supported = (a in (1, 2)) if kind == "sdc" else a == 2
    if supported and not isinstance(corr, str) and sc.size >= 2 and len(ths) <= 8:
        run_space_temporaries(case, res, sc, h, ths)
    if not supported:
        return      # outside the quantifier of the prediction functions (C09): nothing is demanded
    if not usids:
        # a screen without experiments has no sample to compare: np.stack([]) refuses (the model does the same)
        res.count("corr.no_samples")
        # (no sample at all: unspecified by the property, compared with the model only)
        if lines is not None:
            hs = "/".join(P.theta_tok(kind, t) for t in ths)
            lines.append(("c20.corr %s %d %s %d %s %s %s" % (kind, len(ths), hs, a, ints_tok(tm_ids), ints_tok(sm_ids), ints_tok(sc.sample_ids)),
                          corr, ("matrix", 1e3), case))
        return
    if isinstance(corr, str):
        res.fail("correlation_matrix raises", case, corr, "a matrix")
        return
    id_to_name = {int(i): str(nm) for nm, i in zip(sm[0], sm[1])}
    want_labels = [id_to_name[s] for s in usids]
    if sorted(labels) != sorted(want_labels) or cols != labels:
        res.fail("similarity matrix is not labelled (rows and columns alike) by exactly the screen's samples", case, labels, want_labels,
                 signature="C20:corr-labels")
        return
    if labels != want_labels:
        res.count("observed.corr_rows_not_in_id_order")       # the row order is not a clause: values are compared by LABEL below
    order = [want_labels.index(x) for x in labels]             # row r of the result is sample usids[order[r]]
    # loop-by-loop recomputation from per-theta predictions on the combinatoric space
    Pm = []
    for sid in usids:
        sp = spaces.get(sid) or generate_full_combinatoric_space(sid, sc)
        per = [[float(x) for x in t.predict_viability(sp)] for t in ths]
        Pm.append([fsum(p[j] for p in per) / len(per) for j in range(sp.size)])
    ns, m = len(Pm), len(Pm[0])
    mu = [fsum(Pm[i][k] for i in range(ns)) / ns for k in range(m)]
    X = [[Pm[i][k] - mu[k] for k in range(m)] for i in range(ns)]
    nrm = [math.sqrt(fsum(x * x for x in X[i])) for i in range(ns)]
    degenerate = any(v < 1e-7 for v in nrm)
    if degenerate:
        res.count("corr.degenerate")
    else:
        for i in range(ns):
            for j in range(ns):
                w = fsum(X[order[i]][k] * X[order[j]][k] for k in range(m)) / (nrm[order[i]] * nrm[order[j]])
                if not close(corr[i][j], w, 1.0) and abs(corr[i][j] - w) > 1e-7:
                    res.fail("similarity is not the normalised inner product of the centred average predictions over the full space", case,
                             {"i": i, "j": j, "got": corr[i][j]}, w, signature="C20:corr-value")
                    return
                if abs(corr[i][j] - corr[j][i]) > 1e-12:
                    res.fail("similarity matrix is not symmetric", case, [corr[i][j], corr[j][i]], "equal", signature="C20:corr-symmetric")
                    return
            if abs(corr[i][i] - 1.0) > 1e-9:
                res.fail("similarity matrix has a non-unit diagonal entry", case, corr[i][i], 1.0, signature="C20:corr-diagonal")
                return
        if lines is not None:
            hs = "/".join(P.theta_tok(kind, t) for t in ths)
            lines.append(("c20.corr %s %d %s %d %s %s %s" % (kind, len(ths), hs, a, ints_tok(tm_ids), ints_tok(sm_ids), ints_tok(sc.sample_ids)),
                          corr, ("matrix", 1e3), case))
            lines.append(("c20.corrp " + mat_tok(Pm), corr, ("matrix", 1e3), case))


def run_space_temporaries(case, res, sc, h, ths):
    """correlation_matrix / generate_full_combinatoric_space on TEMPORARY subsets of equal size and on temporary holders of equal
    length: the references are computed first on subsets / holders that stay alive (distinct addresses), then the same calls are
    made on throw-away objects (address reuse): identical matrices and labels are required"""
    from batchie.core import ThetaHolder
    from batchie.models.main import generate_full_combinatoric_space, correlation_matrix
    n = sc.size
    masks = [np.array(m, dtype=bool) for m in case.get("tmp_masks", [])]

    def cm_of(screen, holder):
        with np.errstate(all="ignore"):
            cm = correlation_matrix(screen, holder)
        return (np.asarray(cm.values, dtype=float), [str(x) for x in cm.index], [str(x) for x in cm.columns])

    def cm_same(a, b):
        return a[1] == b[1] and a[2] == b[2] and a[0].shape == b[0].shape and np.allclose(a[0], b[0], rtol=1e-9, atol=1e-9, equal_nan=True)

    def sp_of(sid, screen):
        sp = generate_full_combinatoric_space(sid, screen)
        return (sorted(tuple(sorted(int(x) for x in r)) for r in np.asarray(sp.treatment_ids)), sorted(int(x) for x in sp.sample_ids))

    try:
        alive = [sc.subset(m) for m in masks]
        want_cm = [cm_of(v, h) for v in alive]
        want_sp = [sp_of(int(v.unique_sample_ids[0]), v) for v in alive]
        for rnd in (0, 1):
            for k, m in enumerate(masks):
                if not cm_same(cm_of(sc.subset(m), h), want_cm[k]):
                    res.fail("correlation_matrix on a temporary subset differs from the same subset kept alive", case, {"subset": k, "round": rnd},
                             "identical matrix and labels", signature="C20:temporaries")
                    return
                if sp_of(int(alive[k].unique_sample_ids[0]), sc.subset(m)) != want_sp[k]:
                    res.fail("generate_full_combinatoric_space on a temporary subset differs from the same subset kept alive", case,
                             {"subset": k, "round": rnd}, "identical ids", signature="C20:temporaries")
                    return
        if len(ths) >= 2:
            combos = ([0, 0], [1, 0], [1, 1], [len(ths) - 1, 0])
            keep = []
            want = []
            for c in combos:
                hh = P.make_holder([ths[i] for i in c])
                keep.append(hh)
                want.append(cm_of(sc, hh))
            for rnd in (0, 1):
                for c, w in zip(combos, want):
                    hh = P.make_holder([ths[i] for i in c])       # the previous holder bound to this name dies here
                    if not cm_same(cm_of(sc, hh), w):
                        res.fail("correlation_matrix with a freshly built holder differs from an equal holder kept alive", case,
                                 {"members": c, "round": rnd}, "identical matrix", signature="C20:temporaries")
                        return
    except Exception as e:  # noqa
        res.fail("correlation_matrix / generate_full_combinatoric_space raises on a temporary subset or holder", case, repr(e)[:200], "a result",
                 signature="C20:temporaries")


def gen_cli_eval(rng, idx):
    arity = rng.choice([1, 2, 2])
    n_s, n_t = rng.randint(1, 3), rng.randint(1, 4)
    raw = P.gen_raw(rng, arity, n_s, n_t, n_max=8)
    while len(raw["snames"]) < 2:
        raw = P.gen_raw(rng, arity, n_s, n_t, n_max=8)
    raw["mask"] = None        # evaluate_model wants a fully observed screen
    chains = [[P.gen_theta_case(rng, "sdc", n_s, n_t, "normal", d=rng.choice([1, 2, 3])) for _ in range(rng.randint(1, 3))]
              for _ in range(rng.randint(1, 3))]
    d0 = chains[0][0]["D"]
    chains = [[P.gen_theta_case(rng, "sdc", n_s, n_t, "normal", d=d0) for _ in ch] for ch in chains]
    return {"kind": "cli_eval", "idx": idx, "raw": raw, "chains": chains, "verbose": True}


def _call_main(mod, argv):
    """the real `main()` of a batchie command line tool: argv patched, stderr silenced, logging state restored"""
    import contextlib
    import io
    import logging
    import sys
    lg = logging.getLogger("batchie")
    keep = (list(lg.handlers), lg.level, logging.root.manager.disable)
    old = sys.argv
    sys.argv = argv
    try:
        with contextlib.redirect_stderr(io.StringIO()), contextlib.redirect_stdout(io.StringIO()):
            mod.main()
    finally:
        sys.argv = old
        lg.handlers = keep[0]
        lg.setLevel(keep[1])
        logging.disable(keep[2])


def run_cli_eval(case, res, lines):
    """item 18: `batchie.cli.evaluate_model.main()` on real files, default and --verbose: row e of the saved evaluation is experiment e of
    the screen (observation, sample name, and the prediction of every posterior sample for THAT experiment), the file reloads, and its
    metrics are the definitions computed from the per-sample predictions"""
    from batchie.cli import evaluate_model
    from batchie.core import ThetaHolder
    from batchie.data import Screen
    from batchie.models.main import ModelEvaluation
    tmp = tempfile.mkdtemp(prefix="c20cli_")
    try:
        sc0 = P.build_screen(case["raw"])
        sfn = os.path.join(tmp, "screen.h5")
        sc0.save_h5(sfn)
        files, all_thetas = [], []
        for ci, ch in enumerate(case["chains"]):
            h = ThetaHolder(n_thetas=len(ch))
            for c in ch:
                h.add_theta(P.theta_from_case("sdc", dict(c, layout="c")))
            fn = os.path.join(tmp, "chain%d.h5" % ci)
            h.save_h5(fn)
            files.append(fn)
        sc = Screen.load_h5(sfn)                                    # what the command line tool will see
        for fn in files:
            hl = ThetaHolder.load_h5(fn)
            all_thetas += [hl.get_theta(k) for k in range(hl.n_thetas)]
        per = [np.asarray(t.predict_viability(sc), dtype=float) for t in all_thetas]
        obs = np.asarray(sc.observations, dtype=float)
        n, K = sc.size, len(per)
        ascending = all(bool(np.all(np.diff(p) >= 0)) for p in per)
        outs = {}
        for mode in ("default", "verbose"):
            out = os.path.join(tmp, "me_%s.h5" % mode)
            argv = ["evaluate_model", "--screen", sfn, "--thetas"] + files + ["--output", out] + (["--verbose"] if mode == "verbose" else [])
            try:
                if mode == "verbose":
                    with common.verbose_logging():
                        _call_main(evaluate_model, argv)
                else:
                    _call_main(evaluate_model, argv)
                me = ModelEvaluation.load_h5(out)
            except Exception as e:  # noqa
                res.fail("evaluate_model.main() (%s) raises on a fully observed screen and complete chain files" % mode, case, repr(e)[:200],
                         "an evaluation file", signature="C20:entry-point")
                return
            Pm = np.asarray(me.predictions, dtype=float)
            outs[mode] = (Pm.tobytes(), np.asarray(me.observations, dtype=float).tobytes(), [str(x) for x in me.sample_names])
            if Pm.shape != (n, K):
                res.fail("evaluate_model (%s): the saved predictions are not (experiments x posterior samples)" % mode, case, list(Pm.shape), [n, K],
                         signature="C20:entry-point")
                return
            if np.asarray(me.observations, dtype=float).tobytes() != obs.tobytes() or [str(x) for x in me.sample_names] != [str(x) for x in sc.sample_names]:
                res.fail("evaluate_model (%s): saved observations / sample names are not the screen's, row by row" % mode, case,
                         np.asarray(me.observations).tolist()[:6], obs.tolist()[:6], signature="C20:entry-point")
            for k in range(K):
                if Pm[:, k].tobytes() != per[k].tobytes():
                    res.fail("evaluate_model (%s): row e of the saved predictions is not the prediction for experiment e "
                             "(rows no longer line up with the observations)" % mode, case,
                             {"posterior_sample": k, "saved": Pm[:, k].tolist()[:8]}, per[k].tolist()[:8], signature="C20:entry-point-rows")
                    break
            want = fsum((float(per[k][e]) - float(obs[e])) ** 2 for e in range(n) for k in range(K)) / (n * K)
            if not close(float(me.mse()), want, 1.0):
                res.fail("evaluate_model (%s): the MSE of the saved evaluation is not the mean squared error over all (experiment, sample) pairs"
                         % mode, case, float(me.mse()), want, signature="C20:mse")
        if outs.get("default") != outs.get("verbose"):
            res.fail("evaluate_model --verbose saves another evaluation than evaluate_model on the same files", case, "different", "identical",
                     signature="C20:verbose-logging")
        res.count("class.entry-point.evaluate_model")
        res.count("class.verbose-logging.evaluate_model")
        if not ascending:
            res.count("class.verbose-logging.predictions_not_ascending")
    finally:
        shutil.rmtree(tmp, ignore_errors=True)


def run_space_boundary(case, res, lines):
    """size boundaries of generate_full_combinatoric_space: mapping of `n_map` treatments (ids = positions, no control), arity 2:
    n_map = 1 -> factorial of a negative number (ValueError); 2 -> exactly one combination; 4472 -> 9 997 156 combinations (allowed,
    not built here); 4473 -> 10 001 628 > 1e7 (refused)"""
    from batchie.data import Screen
    from batchie.models.main import generate_full_combinatoric_space
    n_map = case["n_map"]
    names = np.array(["d%05d" % i for i in range(n_map)], dtype=str)
    tm = (names, np.ones(n_map, dtype=float), np.arange(n_map, dtype=int))
    sm = (np.array(["s0", "s1"], dtype=str), np.array([0, 1], dtype=int))
    sc = Screen(treatment_names=np.array([[names[0], names[-1]], [names[-1], names[0]]], dtype=str),
                treatment_doses=np.ones((2, 2), dtype=float), sample_names=np.array(["s1", "s0"], dtype=str),
                plate_names=np.array(["p", "p"], dtype=str), treatment_mapping=tm, sample_mapping=sm)
    count = n_map * (n_map - 1) // 2
    if count > 100000 and count <= 10 ** 7:
        got = "skipped"      # allowed but too large to build here: only the count and the model's answer are compared
        if lines is not None:
            lines.append(("c20.spaceok 2 %d 0,1 0" % n_map, "ok", "text", case))
        return
    try:
        sp = generate_full_combinatoric_space(0, sc)
        got = (int(sp.size), sorted(set(int(x) for x in sp.sample_ids)), [[int(x) for x in r] for r in np.asarray(sp.treatment_ids)][:3])
    except Exception as e:  # noqa
        got = S.err_tok(e)
    if n_map < 2 or count > 10 ** 7:
        pass    # the refusals (budget, arity > treatments) are not clauses of the property text: compared with the model below only
    elif isinstance(got, str) or got[0] != count or got[1] != [0]:
        res.fail("generate_full_combinatoric_space refuses / miscounts a space within the budget", case, str(got)[:200], count, signature="C20:space-budget")
    if lines is not None:
        lines.append(("c20.spaceok 2 %d 0,1 0" % n_map, "ok" if not isinstance(got, str) else got, "text", case))


# ============================================================================= tie comparison

def compare(res, entry, out):
    line, impl, how, case = entry
    small = {"kind": case.get("kind"), "idx": case.get("idx"), "line": line[:400]}

    def dis(m):
        res.disagree("c20." + line.split(" ")[0][4:], small, str(impl)[:300], m[:300])

    if how == "text":
        if impl != out:
            dis(out)
        return
    if isinstance(impl, str) or out.startswith("err:") or out == "bad-op":
        if impl != out:
            dis(out)
        return
    body = out[3:]
    if how == "map":
        got = [] if body == "-" else [(int(a), int(b), P.parse_vec(c)[0]) for a, b, c in (e.split(":") for e in body.split(","))]
        if len(got) != len(impl) or any(g[0] != w[0] or g[1] != w[1] or not close(g[2], w[2]) for g, w in zip(got, impl)):
            dis(out)
    elif how == "syn":
        got = []
        if body != "-":
            for e in body.split(";"):
                s, t, v = e.split("|")
                got.append((int(s), [] if t == "_" else [int(x) for x in t.split(",")], P.parse_vec(v)[0]))
        if len(got) != len(impl) or any(g[0] != w[0] or g[1] != w[1] or not close(g[2], w[2]) for g, w in zip(got, impl)):
            dis(out)
    elif how == "space":
        if body != "%s %s" % impl:
            dis(out)
    elif how == "matrix" or (isinstance(how, tuple) and how[0] == "matrix"):
        scale = how[1] if isinstance(how, tuple) else 1.0
        got = P.parse_out(out, True)
        if len(got) != len(impl) or any(len(a) != len(b) for a, b in zip(got, impl)) or \
                any(not close(x, y, scale) for a, b in zip(got, impl) for x, y in zip(a, b)):
            dis(out)
    elif how[0] == "vec":
        got = P.parse_out(out, False)
        if len(got) != len(impl) or any(not close(x, y, how[1]) for x, y in zip(got, impl)):
            dis(out)
    else:
        got = P.parse_vec(body)[0]
        sc = how[1] if isinstance(how, tuple) else 1.0
        if not close(got, impl, sc):
            dis(out)


def run(ctx, res):
    import warnings
    with warnings.catch_warnings(), np.errstate(all="ignore"):
        warnings.simplefilter("ignore")
        _run(ctx, res)


def _run(ctx, res):
    import logging
    logging.getLogger("batchie.synergy").setLevel(logging.ERROR)
    res.rule = RULE
    lines = [] if ctx.driver is not None else None
    tmp = tempfile.mkdtemp(prefix="c20_")
    try:
        for i in range(ctx.scale(120, 6000, 1200)):
            case = gen_eval(ctx.subrng("eval", i), i)
            reload = i % 4 == 0 or ctx.tier != "quick" or any(len(nm) >= 25 for nm in case["names"]) or case["boundary"]
            run_eval(case, res, lines, tmp if reload else None)
            res.evaluations += 1
            res.count("eval.chains.%s" % case["mode"])
            if case["verbose"] and not case["bad"]:
                res.count("class.verbose-logging.eval")
            res.count("eval.square" if case["E"] == case["K"] else "eval.nonsquare")
            res.count("eval.layout.%s" % case["layout"])
            if not case["bad"]:
                res.count("class.object_reuse.eval")
                res.count("class.temporaries.eval")
                res.count("class.input_mutation_aliasing.eval")
                if reload:
                    res.count("class.attribute_completeness.reload")
                    res.count("class.instalments.save_twice_same_path")
                if case["boundary"]:
                    res.count("class.boundary.eval_sizes_labels_names_127_257")
                if case["blocks"] or case["boundary"]:
                    res.count("class.size.eval_E_or_K_straddles_8_16_32_64_128")
                if case["layout"] != "c":
                    res.count("class.memory_layout.eval")
                if any(len(nm) >= 25 for nm in case["names"]):
                    res.count("class.long_names.eval")
                if case["chains"] != sorted(case["chains"]):
                    res.count("class.row_order.chains_interleaved")
                if case["E"] == 1 or case["K"] == 1:
                    res.count("class.falsy.E1_or_K1")
                if 0 in case["chains"] and len(set(case["chains"])) >= 2:
                    res.count("class.falsy.chain_label_0")
            if case["chains"] != sorted(case["chains"]):
                res.count("eval.chains.not_sorted_blocks")
            if case["bad"]:
                res.count("eval.malformed")
            cl = sorted(case["chains"].count(c) for c in set(case["chains"]))
            if len(cl) >= 2 and cl[0] != cl[-1] and case["E"] != case["K"] and not case["bad"]:
                res.nontrivial.add(("eval", i))
            if i < 2:
                res.sample({"kind": "eval", "E": case["E"], "K": case["K"], "chains": case["chains"]})
    finally:
        shutil.rmtree(tmp, ignore_errors=True)
    for i in range(ctx.scale(150, 8000, 1500)):
        case = gen_effects(ctx.subrng("eff", i), i)
        run_effects(case, res, lines)
        res.evaluations += 1
        res.count("effects.arity%d" % case["arity"])
        if case["verbose"]:
            res.count("class.verbose-logging.effects")
        singles = {}
        cols = set()
        for s, r in zip(case["sids"], case["tids"]):
            nc = [t for t in r if t != -1]
            if len(nc) == 1:
                singles[(s, nc[0])] = singles.get((s, nc[0]), 0) + 1
                cols.add(r.index(nc[0]))
        skipped = any(len([t for t in r if t != -1]) >= 2 and any((s, t) not in singles for t in r if t != -1)
                      for s, r in zip(case["sids"], case["tids"]))
        ids_used = sorted(set(t for r in case["tids"] for t in r))
        nonctl = [t for t in ids_used if t != -1]
        if nonctl and nonctl != list(range(len(nonctl))) and len(set(case["sids"])) >= 2 and singles:
            res.count("class.encoding.id_gaps_multi_sample")
        if case["mode"] == "gap_collision" and len(set(singles)) >= 3:
            res.count("class.encoding.gap_radix_collision")
        if case["mode"] == "wide_ids" and singles:
            res.count("class.boundary.effect_ids_127_257")
        if case["tids"] and -1 not in ids_used:
            res.count("class.encoding.no_control")
        if case["layout"] != "c" and case["tids"]:
            res.count("class.memory_layout.effects")
        if any(s == 0 and 0 in r and sum(1 for x in r if x != -1) == 1 for s, r in zip(case["sids"], case["tids"])):
            res.count("class.falsy.sample0_treatment0_single")
        if any(S.from_bits(b) == 0.0 for b in case["obs"]):
            res.count("class.falsy.observation_zero")
        if len(case["sids"]) <= 1:
            res.count("class.falsy.n0_n1")
        # a combination row BEFORE the single-agent measurement of one of its agents
        first_single = {}
        for i, (s_, r) in enumerate(zip(case["sids"], case["tids"])):
            nc = [t for t in r if t != -1]
            if len(nc) == 1:
                first_single.setdefault((s_, nc[0]), i)
        if any(len([t for t in r if t != -1]) >= 2 and any(first_single.get((s_, t), -1) > i for t in r if t != -1)
               for i, (s_, r) in enumerate(zip(case["sids"], case["tids"]))):
            res.count("class.row_order.single_after_combo")
        if case["tids"]:
            res.count("class.input_mutation.effects")
        if any(v >= 2 for v in singles.values()):
            res.count("effects.repeated_single")
        if skipped:
            res.count("effects.unmeasured_combo")
        if any(v >= 2 for v in singles.values()) and len(cols) >= 2 and skipped:
            res.nontrivial.add(("effects", i))
        if i < 2:
            res.sample({"kind": "effects", "arity": case["arity"], "sids": case["sids"], "tids": case["tids"]})
    for i in range(ctx.scale(40, 2000, 400)):
        case = gen_model(ctx.subrng("cmse", i), i, "cmse")
        run_cmse(case, res, lines)
        res.evaluations += 1
        res.count("cmse.%s" % case["model"])
        if case["verbose"]:
            res.count("class.verbose-logging.cmse")
        if len(case["thetas"]) >= 15:
            res.count("class.size.holder_15_to_33.cmse")
    for i in range(ctx.scale(80, 1500, 300)):
        case = gen_model(ctx.subrng("space", i), i, "space")
        run_space(case, res, lines)
        res.evaluations += 1
        res.count("space.%s.arity%d" % (case["model"], case["raw"]["arity"]))
        if case["verbose"]:
            res.count("class.verbose-logging.space")
        res.count("class.input_mutation.space")
        if case["tmp_masks"]:
            res.count("class.temporaries.space")
        res.count("class.object_reuse.corr")
        if case["raw"].get("enc"):
            res.count("class.encoding.permuted.space")
        if case["raw"].get("suffix"):
            res.count("class.long_names.space")
        if case["raw"]["n_s"] >= 11:
            res.count("class.size.two_digit_names")
        if len(case["thetas"]) >= 15:
            res.count("class.size.holder_15_to_33.corr")
        if any(t.get("layout", "c") != "c" for t in case["thetas"]):
            res.count("class.memory_layout.space")
        if case["raw"].get("enc"):
            res.count("space.nondefault_encoding")
        if case["raw"].get("mask") is not None and not all(case["raw"]["mask"]):
            res.count("space.partially_observed")
        if len(set(case["raw"]["snames"])) >= 2:
            res.nontrivial.add(("space", i))
    # averages over LARGE holders (sizes straddling the blocking factors 16 / 32 / 64), in every run
    for size in (15, 16, 17, 20, 33, 40, 65):
        for kind_name, fn in (("cmse", run_cmse), ("space", run_space)):
            case = gen_model(ctx.subrng("bigholder", kind_name, size), 100000 + size, kind_name, n_th=size)
            fn(case, res, lines)
            res.evaluations += 1
            res.count("class.size.holder_%d.%s" % (size, kind_name))
            if case["verbose"]:
                res.count("class.verbose-logging.%s" % kind_name)
    for i in range(ctx.scale(10, 200, 60)):
        case = gen_cli_eval(ctx.subrng("cli_eval", i), i)
        run_cli_eval(case, res, lines)
        res.evaluations += 1
    for n_map in (1, 2, 3, 4472, 4473):
        case = {"kind": "space_boundary", "idx": n_map, "n_map": n_map}
        run_space_boundary(case, res, lines)
        res.evaluations += 1
        res.count("class.size.space_budget_boundary")
    res.traces_validated = res.evaluations
    if lines:
        outs = ctx.driver.ask([e[0] for e in lines])
        for e, o in zip(lines, outs):
            compare(res, e, o)
        res.count("tie_lines", len(lines))


def replay(ctx, case, res):
    import logging
    import warnings
    warnings.simplefilter("ignore")
    logging.getLogger("batchie.synergy").setLevel(logging.ERROR)
    k = case.get("kind")
    if k == "eval":
        tmp = tempfile.mkdtemp(prefix="c20_")
        try:
            run_eval(case, res, None, tmp)
        finally:
            shutil.rmtree(tmp, ignore_errors=True)
    elif k == "effects":
        run_effects(case, res, None)
    elif k == "cmse":
        run_cmse(case, res, None)
    elif k == "space":
        run_space(case, res, None)
    elif k == "space_boundary":
        run_space_boundary(case, res, None)
    elif k == "cli_eval":
        run_cli_eval(case, res, None)
