"""C02 -- Screen and experiment-space persistence is lossless.

Real `Screen.save_h5 / load_h5` and `ExperimentSpace.save_h5 / load_h5` through temp files, 1 + (0..3) cycles,
on generated screens.  Oracle: every observable of the reloaded object equals the original's.  Tie: the
byte-level model (`saveloadb`, `space`, `codec` of lean/Batchie/Model/RetroIO.lean) prints the same."""
import contextlib
import os
import shutil
import tempfile

import numpy as np

from vlib import common
from harness import screens as S

common.use_repo_sources()


@contextlib.contextmanager
def maybe_verbose(case):
    """cases with "verbose": true run the way every command runs under -v/--verbose (replay re-enters this)"""
    if case.get("verbose"):
        with common.verbose_logging():
            yield
    else:
        yield


def verbose_aware(fn):
    import functools

    @functools.wraps(fn)
    def wrapped(case, *a, **kw):
        with maybe_verbose(case):
            return fn(case, *a, **kw)
    return wrapped

RULE = ("random valid screens (arity 1-3, 0..n_max rows, non-ASCII/astral/empty/unequal-length names, empty control name, "
        "doses incl. -0.0/subnormal/1e300, observation bit patterns incl. NaN payloads, -0.0, inf, any plate-uniform mask or none), "
        "35% with a mapping batchie produced for a strict superset of the rows; saved and loaded 1..4 times through real h5 files; "
        "ExperimentSpace.from_screen saved/loaded 1..4 times; string tables through np.char.encode + h5 + np.char.decode. "
        "Memory layout: 70% of the screens with arity >= 2 (40% otherwise) are built from arrays that hold the same values but are "
        "not plain C-contiguous arrays: Fortran order, vstack(...).T, pandas to_numpy(), strided views, negative strides, slices "
        "of a wider Fortran parent with names in a wider <U dtype, boolean row index into a parent (as the hold-out does), read-only arrays; "
        "oracle: the screen equals its C-ordered twin's observables before and after every cycle, tie: the twin's driver line. "
        "12% carry mappings whose extra names are longer than every row name (>= 2 cycles); 10% carry their own exact mapping; 45% of "
        "all supplied mappings are HAND-MADE tables (ids relabelled by a random permutation, rows shuffled: not sorted, ids not "
        "arange); 15% of the screens have names / control name with leading, trailing or only whitespace (space, tab, newline, U+3000), "
        "12% have long ROW names of unequal length (17..130 characters). A fixed corpus (zero-row witness, "
        "every layout on a position-sensitive screen, long mapping names) runs first on every invocation. "
        "Hardening classes (counted as class.*): object reuse (same object saved again, same file loaded twice), input mutation (all "
        "instance attributes of the saved object snapshotted), attribute completeness (vars(), every property of the class and every h5 "
        "dataset/attribute by enumeration; files of cycle k equal the file of cycle 1), hand-made mappings always >= 2 cycles, 6% screens "
        "with >= 11 samples/plates/treatments with numeric suffixes, up to 10 saved files re-loaded in another interpreter (other PYTHONHASHSEED). "
        "class.verbose-logging: every 7th screen (+ three corpus screens, every 5th merged screen) is built, saved and loaded under "
        "vlib.common.verbose_logging() (replay re-enters it); class.load-path.nan-inf-observations: NaN (several payloads), +inf and -inf "
        "observation values on observed and hidden rows (fixed corpus + 15% of the screens) compared bit for bit after every load.  "
        "Entry points: the property names no command-line stage (save_h5 / load_h5 are library calls; the CLIs that load and save screens are "
        "driven by C03 and C12).  Merged stream (class.stale-derived-state): 40 screens per quick run whose plates were merged IN PLACE by 1-3 Plate.merge calls "
        "(the disappearing plate name being the first / a middle / the last in sort order, merges of merged plates) or by MergeMinPlateSmoother / "
        "MergeTopBottomPlateSmoother, before the first save or between two saves (other path / same path), >= 2 cycles; every per-row "
        "observable of the reloaded screen equals the in-memory screen's at save time and its plate ids decode to those names (the "
        "derived plate_mapping attribute, stale after a merge on the unchanged code, is not compared but counted); the model is asked "
        "about the post-merge rows.  Non-trivial: >= 2 rows and (superset mapping or non-ASCII name or both observed and unobserved plates).")

OBS_VALUES = [0.0, -0.0, 1.0, 0.5, 0.25, 0.1, 0.3333333333333333, 1e-300, 5e-324, 1e300, 2.0, -1.5, float("inf"), float("-inf"),
              0.7000000000000001, 0.9]
NAN_BITS = [0x7FF8000000000000, 0x7FF8000000000001, 0xFFF8000000000000, 0x7FF4000000000000]

ZERO_ROW = "C02:zero-row-screen"


LAYOUTS = ["fortran", "vstackT", "pandas", "strided", "negstride", "parent-slice", "holdout-index", "readonly"]
LONG_NAMES = ["a_very_long_treatment_name_" + "\u00e9" * 5, "x" * 33, "long name \U0001F600 0123456789 0123456789"]

# deterministic corpus, run first on every invocation
CORPUS = [
    # known finding C02:zero-row-screen: what both hold-out functions return for fraction 0
    {"kind": "corpus-zero-row", "cycles": 1,
     "raw": dict(ctrl="control", arity=2, tnames=[], tdoses=[], snames=[], pnames=[], obs=[], mask=[], tmap=None, smap=None)},
    {"kind": "corpus-zero-row-with-mappings", "cycles": 2,
     "raw": dict(ctrl="", arity=2, tnames=[], tdoses=[], snames=[], pnames=[], obs=[], mask=[],
                 tmap=(["a", "b", "control"], [1.0, 2.0, 0.0], [0, 1, -1]), smap=(["s0", "s1"], [0, 1]))},
    # DESIGN section 7 #1 shaped screen: the training half after a split carries a strict-superset mapping
    {"kind": "corpus-superset", "cycles": 3,
     "raw": dict(ctrl="control", arity=2, tnames=[["b", "c"], ["b", "d"], ["c", "d"], ["b", "c"]],
                 tdoses=[[1.0, 1.0], [1.0, 1.0], [1.0, 1.0], [1.0, 1.0]], snames=["s1", "s1", "s2", "s2"],
                 pnames=["p1", "p1", "p2", "p2"], obs=[0.1, 0.2, 0.3, 0.4], mask=[True, True, False, False],
                 tmap=(["a", "b", "c", "d"], [1.0, 1.0, 1.0, 1.0], [0, 1, 2, 3]), smap=(["s0", "s1", "s2"], [0, 1, 2]))},
]
_ASYM = dict(ctrl="control", arity=2, tnames=[["a", "b"], ["c", "dd"], ["\u00e9", "control"], ["b", "a"]],
             tdoses=[[1.0, 2.0], [3.0, 0.5], [0.25, 0.0], [2.0, 1.0]], snames=["s1", "s2", "s1", "s3"],
             pnames=["p1", "p1", "p2", "p2"], obs=[0.1, 0.2, 0.3, 0.4], mask=[True, True, False, False], tmap=None, smap=None)
# every non-default layout on a screen whose cells differ by (row, col) position (a transposed/ravelled save shows)
CORPUS += [{"kind": "corpus-layout-" + lay, "cycles": 2, "layout": lay, "raw": dict(_ASYM)} for lay in LAYOUTS]
CORPUS.append({"kind": "corpus-long-mapping-names", "cycles": 3, "layout": "fortran",
               "raw": dict(_ASYM, tmap=(["a", "b", "c", "control", "dd", LONG_NAMES[0], "\u00e9", LONG_NAMES[1]],
                                        [1.0, 2.0, 3.0, 0.0, 0.5, 1.0, 0.25, 2.0], [0, 1, 2, -1, 3, 4, 5, 6]),
                           smap=(["s1", "s2", "s3", LONG_NAMES[2]], [0, 1, 2, 3]))})

# NaN (two payloads) / +inf / -inf observation values on OBSERVED and on HIDDEN rows: compared bit for bit after every load
CORPUS.append({"kind": "corpus-nan-inf-observations", "cycles": 3,
               "raw": dict(ctrl="control", arity=2, tnames=[["a", "b"]] * 8, tdoses=[[1.0, 2.0]] * 8, snames=["s1", "s2"] * 4,
                           pnames=["p1", "p2"] * 4,
                           obs=[S.from_bits(0x7FF8000000000000), S.from_bits(0x7FF8000000000001), float("inf"), float("inf"),
                                float("-inf"), float("-inf"), S.from_bits(0xFFF8000000000000), S.from_bits(0x7FF4000000000000)],
                           mask=[True, False] * 4, tmap=None, smap=None)})
# hand-made mapping tables (rows not sorted, ids not in table order) and names with leading / trailing whitespace
CORPUS.append({"kind": "corpus-hand-made-mapping", "cycles": 2,
               "raw": dict(_ASYM, tmap=(["dd", "control", "b", "zz", "\u00e9", "a", "c"], [0.5, 0.0, 2.0, 1.0, 0.25, 1.0, 3.0],
                                        [2, -1, 5, 0, 1, 4, 3]), smap=(["s3", "s0", "s1", "s2"], [1, 3, 0, 2]))})
CORPUS.append({"kind": "corpus-whitespace-names", "cycles": 2,
               "raw": dict(ctrl=" ", arity=2, tnames=[[" a", "a"], ["a ", " "], ["\ta", "a\n"]],
                           tdoses=[[1.0, 1.0], [1.0, 1.0], [1.0, 1.0]], snames=["s", " s", "s "], pnames=["p ", "p", "p "],
                           obs=[0.1, 0.2, 0.3], mask=[True, False, True], tmap=None, smap=None)})


def _two_d(x, layout, rng_bits):
    """the same (n, a) values in a non-default memory layout"""
    n, a = x.shape
    if layout in ("fortran", "readonly"):
        return np.asfortranarray(x)
    if layout == "vstackT":
        return np.vstack([x[:, i] for i in range(a)]).T if a else x
    if layout == "strided":
        big = np.repeat(np.repeat(x, 2, axis=0), 2, axis=1)
        return big[::2, ::2]
    if layout == "negstride":
        return np.ascontiguousarray(x[::-1, ::-1])[::-1, ::-1]
    if layout == "parent-slice":
        # a slice of a wider parent (extra rows and columns around it), Fortran ordered
        pad = np.empty((n + 3, a + 2), dtype=x.dtype)
        pad[...] = x.dtype.type("junk") if x.dtype.kind == "U" else -7.0
        pad = np.asfortranarray(pad)
        pad[2:2 + n, 1:1 + a] = x
        return pad[2:2 + n, 1:1 + a]
    if layout == "holdout-index":
        # what create_*_holdout does: boolean row index into a (Fortran ordered) parent
        sel = np.zeros(2 * n + 1, dtype=bool)
        sel[1:2 * n:2] = True
        parent = np.empty((2 * n + 1, a), dtype=x.dtype)
        parent[...] = x.dtype.type("junk") if x.dtype.kind == "U" else -7.0
        parent = np.asfortranarray(parent)
        parent[sel] = x
        return parent[sel]
    return x


def _one_d(x, layout):
    n = x.shape[0]
    if layout in ("fortran", "strided", "vstackT", "readonly"):
        return np.repeat(x, 2)[::2]
    if layout == "negstride":
        return np.ascontiguousarray(x[::-1])[::-1]
    if layout == "parent-slice":
        pad = np.concatenate([x[:1] if n else x, x, x[:2]])
        return pad[1 if n else 0:(1 if n else 0) + n]
    if layout == "holdout-index":
        sel = np.zeros(2 * n + 1, dtype=bool)
        sel[1:2 * n:2] = True
        parent = np.empty(2 * n + 1, dtype=x.dtype)
        parent[sel] = x
        return parent[sel]
    return x


def build_layout(raw, layout):
    """the real Screen for `raw`, built from arrays that hold the same values as S.build's but are not plain
    C-contiguous arrays of the minimal dtype"""
    from batchie.data import Screen
    if layout in (None, "c") or len(raw["snames"]) == 0:
        return S.build(raw)
    n, a = len(raw["snames"]), raw["arity"]
    tn = np.array(raw["tnames"], dtype=str).reshape(n, a)
    td = np.array(raw["tdoses"], dtype=float).reshape(n, a)
    sn = np.array(raw["snames"], dtype=str)
    pn = np.array(raw["pnames"], dtype=str)
    obs = None if raw["obs"] is None else np.array(raw["obs"], dtype=float)
    mask = None if raw["mask"] is None else np.array(raw["mask"], dtype=bool)
    if layout == "pandas":
        import pandas as pd
        cols = ["c%d" % i for i in range(a)]
        tn = pd.DataFrame({c: tn[:, i] for i, c in enumerate(cols)})[cols].to_numpy().astype(str).reshape(n, a) if a else tn
        td = pd.DataFrame({c: td[:, i] for i, c in enumerate(cols)})[cols].to_numpy().reshape(n, a) if a else td
        df = pd.DataFrame({"s": sn, "p": pn})
        sn, pn = df["s"].to_numpy().astype(str), df["p"].to_numpy().astype(str)
        if obs is not None:
            df2 = pd.DataFrame({"o": obs, "z": obs})
            obs = df2[["z", "o"]].to_numpy()[:, 1]
    else:
        if layout in ("parent-slice", "holdout-index", "readonly"):
            wide = "<U%d" % max(24, max(tn.dtype.itemsize, sn.dtype.itemsize, pn.dtype.itemsize) // 4 + 8)
            tn, sn, pn = tn.astype(wide), sn.astype(wide), pn.astype(wide)            # wider dtype than the names need
        tn, td = _two_d(tn, layout, 0), _two_d(td, layout, 0)
        sn, pn = _one_d(sn, layout), _one_d(pn, layout)
        if obs is not None:
            obs = _one_d(obs, layout)
        if mask is not None:
            mask = _one_d(mask, layout)
    arrays = [tn, td, sn, pn] + ([obs] if obs is not None else []) + ([mask] if mask is not None else [])
    if layout == "readonly":
        for x in arrays:
            x.setflags(write=False)
    kw = dict(treatment_names=tn, treatment_doses=td, sample_names=sn, plate_names=pn, control_treatment_name=raw["ctrl"])
    if obs is not None:
        kw["observations"] = obs
    if mask is not None:
        kw["observation_mask"] = mask
    if raw.get("tmap") is not None:
        kw["treatment_mapping"] = (np.array(raw["tmap"][0], dtype=str), np.array(raw["tmap"][1], dtype=float), np.array(raw["tmap"][2], dtype=int))
    if raw.get("smap") is not None:
        kw["sample_mapping"] = (np.array(raw["smap"][0], dtype=str), np.array(raw["smap"][1], dtype=int))
    return Screen(**kw)


def long_superset_mappings(rng, raw):
    """mappings batchie produces for a superset whose extra names are LONGER than every name of the rows"""
    extra = rng.randint(1, 3)
    a = raw["arity"]
    big = dict(raw)
    big["tnames"] = raw["tnames"] + [[rng.choice(LONG_NAMES) for _ in range(a)] for _ in range(extra)]
    big["tdoses"] = raw["tdoses"] + [[rng.choice([1.0, 2.5, 0.1]) for _ in range(a)] for _ in range(extra)]
    big["snames"] = raw["snames"] + [rng.choice(LONG_NAMES) for _ in range(extra)]
    big["pnames"] = raw["pnames"] + ["zzz_extra"] * extra
    if raw["obs"] is not None:
        big["obs"] = raw["obs"] + [0.5] * extra
        big["mask"] = None if raw["mask"] is None else raw["mask"] + [True] * extra
    s = S.build(big)
    return tuple(list(x) for x in s.treatment_mapping), tuple(list(x) for x in s.sample_mapping)


def permute_mappings(rng, tmap, smap):
    """the same name -> id relation as a HAND-MADE table: non-control treatment ids and sample ids relabelled by a random
    permutation and the table rows shuffled.  Still a valid mapping (0-indexed ids, every key once), but neither sorted by
    name nor numbered in table order -- a loader / rebuild step that re-sorts the table or regenerates ids as arange
    (identity on every table batchie's own encoder produces) shows."""
    tn, td, ti = [list(x) for x in tmap]
    sn, si = [list(x) for x in smap]
    real = sorted(set(int(i) for i in ti if int(i) >= 0))
    perm = list(real)
    rng.shuffle(perm)
    relabel = dict(zip(real, perm))
    ti = [relabel.get(int(i), int(i)) for i in ti]
    order = list(range(len(tn)))
    rng.shuffle(order)
    tn, td, ti = [tn[i] for i in order], [td[i] for i in order], [ti[i] for i in order]
    sreal = sorted(set(int(i) for i in si))
    sperm = list(sreal)
    rng.shuffle(sperm)
    srel = dict(zip(sreal, sperm))
    si = [srel[int(i)] for i in si]
    order = list(range(len(sn)))
    rng.shuffle(order)
    sn, si = [sn[i] for i in order], [si[i] for i in order]
    return (tn, td, ti), (sn, si)


def whitespace_rename(rng, raw, variants=None):
    """rename some of the screen's names to variants with leading / trailing / only whitespace (injective: the pool has
    no name that starts or ends with whitespace); the control name follows its treatment name"""
    names = sorted(set([x for r in raw["tnames"] for x in r] + raw["snames"] + raw["pnames"] + [raw["ctrl"]]))
    ren = {}
    for x in names:
        if rng.random() < 0.4:
            ren[x] = rng.choice(variants(x) if variants else [" " + x, x + " ", "\t" + x, x + "\n", " " + x + " ", x + "\u3000"])
    f = lambda x: ren.get(x, x)
    out = dict(raw)
    out["tnames"] = [[f(x) for x in r] for r in raw["tnames"]]
    out["snames"] = [f(x) for x in raw["snames"]]
    out["pnames"] = [f(x) for x in raw["pnames"]]
    out["ctrl"] = f(raw["ctrl"])
    return out, bool(ren)


def unobserved_counts(s):
    n_obs = n_un = 0
    for plate in s.plates:
        if plate.is_observed:
            n_obs += 1
        else:
            n_un += 1
    return n_un, n_obs


def show_stage(s):
    """python twin of RetroIO.showStage"""
    n_un, n_obs = unobserved_counts(s)
    return (S.show_screen(s) + "|" + S.show_rows(s) + "|ctrl=" + S.name_tok(str(s.control_treatment_name))
            + "|arity=%d" % int(s.treatment_arity) + "|nunobs=%d|nobs=%d|nplates=%d" % (n_un, n_obs, int(s.n_plates)))


def observables(s):
    """every observable of a screen, floats by bit pattern, strings as python str, dtypes' kinds included"""
    return {
        "treatment_names": [[str(x) for x in r] for r in s.treatment_names],
        "treatment_doses": [[S.bits(x) for x in r] for r in s.treatment_doses],
        "sample_names": [str(x) for x in s.sample_names],
        "plate_names": [str(x) for x in s.plate_names],
        "observations": [S.bits(x) for x in s.observations],
        "observation_mask": [bool(b) for b in s.observation_mask],
        "control_treatment_name": str(s.control_treatment_name),
        "treatment_ids": [[int(x) for x in r] for r in np.asarray(s.treatment_ids)],
        "treatment_ids_shape": list(np.asarray(s.treatment_ids).shape),
        "sample_ids": [int(x) for x in s.sample_ids],
        "plate_ids": [int(x) for x in s.plate_ids],
        "treatment_mapping": [[str(x) for x in s.treatment_mapping[0]], [S.bits(x) for x in s.treatment_mapping[1]],
                              [int(x) for x in s.treatment_mapping[2]]],
        "sample_mapping": [[str(x) for x in s.sample_mapping[0]], [int(x) for x in s.sample_mapping[1]]],
        "plate_mapping": [[str(x) for x in s.plate_mapping[0]], [int(x) for x in s.plate_mapping[1]]],
        "kinds": [np.asarray(s.treatment_names).dtype.kind, np.asarray(s.treatment_doses).dtype.kind,
                  np.asarray(s.observations).dtype.str, np.asarray(s.observation_mask).dtype.kind,
                  np.asarray(s.sample_names).dtype.kind, np.asarray(s.plate_names).dtype.kind],
    }


def canon(v):
    """canonical, JSON-able form of an attribute value: floats by bit pattern, every string dtype (U / S-free object) alike,
    views by their selection vector; used for the introspective comparisons (no hand-written list of fields)"""
    from batchie.data import ScreenSubset
    if isinstance(v, ScreenSubset):
        return [type(v).__name__, canon(v.selection_vector)]
    if isinstance(v, np.ndarray):
        k = v.dtype.kind
        flat = v.ravel(order="C").tolist()
        if k == "f":
            vals = [S.bits(x) for x in flat]
        elif k in "UO":
            k, vals = "str", [x if isinstance(x, (int, float, bool)) and not isinstance(x, str) else str(x) for x in flat]
        elif k in "iu":
            k, vals = "int", [int(x) for x in flat]
        elif k == "b":
            vals = [bool(x) for x in flat]
        else:
            vals = [repr(x) for x in flat]
        return [k, list(v.shape), vals]
    if isinstance(v, (tuple, list)):
        return [canon(x) for x in v]
    if isinstance(v, dict):
        return {str(k): canon(x) for k, x in sorted(v.items(), key=lambda kv: str(kv[0]))}
    if isinstance(v, (bool, np.bool_)):
        return bool(v)
    if isinstance(v, (int, np.integer)):
        return int(v)
    if isinstance(v, (float, np.floating)):
        return ["f", S.bits(v)]
    if isinstance(v, (str, np.str_)):
        return ["str", str(v)]
    if v is None:
        return None
    return ["repr", type(v).__name__, repr(v)]


def attrs_snapshot(obj):
    """every INSTANCE attribute (vars()), found by introspection"""
    return {k: canon(v) for k, v in sorted(vars(obj).items())}


def props_snapshot(obj):
    """every property defined on the class hierarchy, found by introspection; an exception is part of the value"""
    import logging
    import warnings
    out = {}
    logging.disable(logging.CRITICAL)
    try:
      with np.errstate(all="ignore"), warnings.catch_warnings():
        warnings.simplefilter("ignore")
        for name in sorted(dir(type(obj))):
            if name.startswith("__") or not isinstance(getattr(type(obj), name, None), property):
                continue
            try:
                out[name] = canon(getattr(obj, name))
            except Exception as e:
                out[name] = ["raises", type(e).__name__]
    finally:
        logging.disable(logging.NOTSET)
    return out


def h5_dump(fn):
    """every dataset and attribute of an h5 file, discovered by walking the file (no dataset name or group structure is assumed:
    the layout is not a property); bytes cells as hex, floats by bits, compound / other dtypes by repr"""
    import h5py
    out = {}

    def visit(name, obj):
        if isinstance(obj, h5py.Dataset):
            try:
                a = np.asarray(obj[()])
                if a.dtype.kind == "S":
                    out["/" + name] = ["S", list(a.shape), [bytes(x).hex() for x in a.ravel().tolist()]]
                elif a.dtype.names:
                    out["/" + name] = ["compound", list(a.shape), repr(a.tolist())]
                else:
                    out["/" + name] = canon(a)
            except Exception as e:
                out["/" + name] = ["unreadable", type(e).__name__]
        for k in sorted(obj.attrs.keys()):
            out["/" + name + "@" + k] = canon(obj.attrs[k])

    with h5py.File(fn, "r") as f:
        f.visititems(visit)
        for k in sorted(f.attrs.keys()):
            out["@" + k] = canon(f.attrs[k])
    return out


LAYOUT_TIES = [0]


def layout_tie(res, what, case, detail, expected):
    """the harness's own raw access to a file batchie wrote met something it did not expect: knowledge about the CURRENT file layout
    is part of the tie, never an oracle (a refactor may change the layout as long as its loader reads old and new files)"""
    res.count("layout.unexpected")
    LAYOUT_TIES[0] += 1
    if LAYOUT_TIES[0] <= 3:
        res.disagree("C02:file-layout", {"kind": case.get("kind"), "what": what}, str(detail)[:300], str(expected)[:300])


def dict_diff(a, b):
    for k in sorted(set(a) | set(b)):
        if a.get(k, "<missing>") != b.get(k, "<missing>"):
            return k, a.get(k, "<missing>"), b.get(k, "<missing>")
    return None


def cross_process_observables(files, hashseed):
    """load the files in ANOTHER interpreter (other PYTHONHASHSEED) and return their observables"""
    import json
    import subprocess
    import sys
    code = ("import sys, json; sys.path.insert(0, %r); from harness import c02; from batchie.data import Screen; "
            "print('XPROC' + json.dumps([c02.observables(Screen.load_h5(f)) for f in %r]))" % (common.VERIF, list(files)))
    env = dict(os.environ, PYTHONHASHSEED=str(hashseed))
    p = subprocess.run([sys.executable, "-c", code], env=env, stdout=subprocess.PIPE, stderr=subprocess.PIPE, text=True, timeout=300)
    for line in p.stdout.splitlines():
        if line.startswith("XPROC"):
            return json.loads(line[5:])
    raise RuntimeError("other interpreter failed: " + p.stderr[-400:])


def many_names_raw(rng):
    """>= 11 distinct samples, plates and treatment names with numeric suffixes: ids get two digits and the sort order of
    the names (s10 < s2) is not the numeric one"""
    k = rng.randint(11, 14)
    n = rng.randint(k, k + 6)
    a = rng.choice([1, 2])
    sn = ["s%d" % i for i in range(k)]
    pn = ["p%d" % (i % 12) for i in range(n)]
    tn = ["t%d" % i for i in range(k)] + ["control"]
    rows = list(range(n))
    raw = dict(ctrl="control", arity=a, tnames=[[rng.choice(tn) for _ in range(a)] for _ in rows],
               tdoses=[[rng.choice([1.0, 2.5, 0.1]) for _ in range(a)] for _ in rows],
               snames=[sn[i % k] if i < k else rng.choice(sn) for i in rows], pnames=pn,
               obs=[rng.choice(OBS_VALUES) for _ in rows], mask=None, tmap=None, smap=None)
    st = {p: rng.random() < 0.5 for p in set(pn)}
    raw["mask"] = [st[p] for p in pn]
    order = rows[:]
    rng.shuffle(order)
    for key in ("tnames", "tdoses", "snames", "pnames", "obs", "mask"):
        raw[key] = [raw[key][i] for i in order]
    return raw


def space_observables(e):
    return {
        "treatment_mapping": [[str(x) for x in e.treatment_mapping[0]], [S.bits(x) for x in e.treatment_mapping[1]],
                              [int(x) for x in e.treatment_mapping[2]]],
        "sample_mapping": [[str(x) for x in e.sample_mapping[0]], [int(x) for x in e.sample_mapping[1]]],
        "control_treatment_name": str(e.control_treatment_name),
        "n_unique_treatments": int(e.n_unique_treatments),
        "n_unique_samples": int(e.n_unique_samples),
    }


def show_space(e):
    tm, sm = e.treatment_mapping, e.sample_mapping
    return ("ok tn=" + S.lst(S.name_tok(str(x)) for x in tm[0]) + "|td=" + S.lst(S.dose_tok(x) for x in tm[1])
            + "|ti=" + S.show_ids(tm[2]) + "|sn=" + S.lst(S.name_tok(str(x)) for x in sm[0]) + "|si=" + S.show_ids(sm[1])
            + "|ctrl=" + S.name_tok(str(e.control_treatment_name))
            + "|nt=%d|ns=%d" % (int(e.n_unique_treatments), int(e.n_unique_samples)))


def first_diff(a, b):
    for k in a:
        if a[k] != b[k]:
            return k, a[k], b[k]
    return None


def gen_case(rng, n_max):
    raw = S.gen_raw(rng, n_max=n_max, obs_values=OBS_VALUES) if rng.random() >= 0.06 else many_names_raw(rng)
    if raw["obs"] is not None and rng.random() < 0.15 and raw["obs"]:
        i = rng.randrange(len(raw["obs"]))
        raw["obs"][i] = S.from_bits(rng.choice(NAN_BITS))
    kind = "fresh"
    cycles = 1 + rng.randint(0, 3)
    ws = False
    z = rng.random()
    if z < 0.15:
        raw, ws = whitespace_rename(rng, raw)
    elif z < 0.27:
        # long ROW names of very unequal length (17 .. 130 characters, some non-ASCII): a fixed-width buffer on the way
        # (`.astype("U16")`, assignment into a preallocated `<U` array) truncates them
        raw, ws = whitespace_rename(rng, raw, variants=lambda x: [x + "_" + "0123456789abcdef" * k + t for k in (1, 2, 4, 8)
                                                                    for t in ("", "\u00e9", "\U0001F600")])
        ws = "long" if ws else False
    x = rng.random()
    if x < 0.30:
        try:
            raw["tmap"], raw["smap"] = S.superset_mappings(rng, raw)
            kind = "superset-mapping"
        except Exception:
            pass
    elif x < 0.42:
        try:
            raw["tmap"], raw["smap"] = long_superset_mappings(rng, raw)
            kind = "superset-mapping"
            cycles = 2 + rng.randint(0, 2)
        except Exception:
            pass
    elif x < 0.52:
        # the screen's own (exact) mapping, handed back as a hand-made table
        try:
            s0 = S.build(raw)
            raw["tmap"], raw["smap"] = tuple(list(x) for x in s0.treatment_mapping), tuple(list(x) for x in s0.sample_mapping)
            kind = "own-mapping"
        except Exception:
            pass
    permuted = False
    if raw.get("tmap") is not None and rng.random() < 0.45:
        raw["tmap"], raw["smap"] = permute_mappings(rng, raw["tmap"], raw["smap"])
        permuted = True
        cycles = max(cycles, 2)          # ids that are not positions: the second load reads what the first load's save wrote
    if raw.get("tmap") is not None:
        # JSON-able (replay) and independent of numpy scalar types
        raw["tmap"] = ([str(a) for a in raw["tmap"][0]], [float(b) for b in raw["tmap"][1]], [int(c) for c in raw["tmap"][2]])
        raw["smap"] = ([str(a) for a in raw["smap"][0]], [int(c) for c in raw["smap"][1]])
    layout = "c"
    if raw["snames"] and rng.random() < (0.7 if raw["arity"] >= 2 else 0.4):
        layout = rng.choice(LAYOUTS)
    return {"kind": kind, "raw": raw, "cycles": cycles, "layout": layout, "permuted": permuted, "whitespace": ws}


# ------------------------------------------------------------------------------------------------
# screens whose plates were merged IN PLACE (`Plate.merge`, the merge smoothers) before / between saves
# ------------------------------------------------------------------------------------------------

MERGE_NAMES = ["run_A", "run_B", "run_C", "run_D", "run_E", "run_F"]
SIG_MERGED = "C02:merged-plates-screen"


def gen_merge_case(rng):
    """A screen with 4-6 plates (one sample per plate, rows of the plates interleaved, every plate unobserved or one status per
    plate) on which 1-3 `Plate.merge` calls run in place -- into the alphabetically first / a middle / the last plate name,
    merges of already merged plates -- or a real merge smoother.  `schedule`: 'pre' = merges before the first save;
    'between-other' / 'between-same' = save, merge, save again to another / the same path.  `Plate.merge` rewrites `plate_names`
    and the plate ids but leaves the derived `plate_mapping` attribute stale (behaviour of the unchanged code)."""
    k = rng.randint(4, 6)
    names = MERGE_NAMES[:k] if rng.random() < 0.6 else rng.sample([x for x in S.NAME_POOL if x], k)
    n = rng.randint(k + 2, k + 8)
    pn = names + [rng.choice(names) for _ in range(n - k)]
    rng.shuffle(pn)
    sample_of = {p: "s%d" % (i % 3) for i, p in enumerate(sorted(names))}
    a = rng.choice([1, 2])
    tpool = ["a", "b", "c", "control", "\u00e9"]
    status = {p: False for p in names} if rng.random() < 0.6 else {p: rng.random() < 0.4 for p in names}
    raw = dict(ctrl="control", arity=a, tnames=[[rng.choice(tpool) for _ in range(a)] for _ in pn],
               tdoses=[[rng.choice([1.0, 2.5, 0.1, 0.0]) for _ in range(a)] for _ in pn], snames=[sample_of[p] for p in pn], pnames=pn,
               obs=[rng.choice(OBS_VALUES) for _ in pn], mask=[status[p] for p in pn], tmap=None, smap=None)
    mode = rng.choice(["merge", "merge", "merge", "smoother-min", "smoother-topbottom"])
    steps = []
    if mode == "merge":
        # the steps are chosen on a scratch copy: `Plate.merge` names the merged plate after the FIRST row of the union, so which
        # name survives depends on the row order
        scratch = S.build(raw)
        for _ in range(rng.randint(1, 3)):
            cur = sorted(set(str(x) for x in scratch.plate_names))
            if len(cur) < 2:
                break
            where = rng.choice(["first", "middle", "last"])
            target = cur[0] if where == "first" else cur[-1] if where == "last" else cur[len(cur) // 2]
            others = [x for x in cur if x != target and status[x] == status[target]]
            if not others:
                continue
            other = rng.choice(others)
            before = set(cur)
            apply_merge(scratch, target, other)
            gone = sorted(before - set(str(x) for x in scratch.plate_names))[0]
            steps.append([target, other, "first" if gone == cur[0] else "last" if gone == cur[-1] else "middle"])
    else:
        raw["mask"] = [False] * n                   # the smoothers work on the unobserved part
    return {"kind": "merged", "mode": mode, "raw": raw, "steps": steps, "cycles": rng.randint(2, 3),
            "schedule": rng.choice(["pre", "pre", "between-other", "between-same"]) if mode == "merge" and steps else "pre",
            "param": rng.randint(2, 6), "obs_bits": obs_bits_list(raw)}


def apply_merge(s, target, other):
    names = [str(x) for x in s.plate_names]
    ids = [int(x) for x in s.plate_ids]
    s.get_plate(ids[names.index(target)]).merge(s.get_plate(ids[names.index(other)]))


def per_row(s, merged):
    """what is compared for a screen whose plates were merged in place: every observable except the derived `plate_mapping`
    attribute, which `Plate.merge` leaves stale on the unchanged tree"""
    o = observables(s)
    if merged:
        o.pop("plate_mapping")
    return o


@verbose_aware
def run_merge_case(case, tmp, res):
    """returns (model line, expected output) -- the model is asked about the POST-merge rows"""
    import logging
    from batchie.data import Screen
    raw = dict(case["raw"])
    if case.get("obs_bits") is not None:
        raw["obs"] = [S.from_bits(b) for b in case["obs_bits"]]
    case = dict(case, part="screen")
    s = S.build(raw)
    f1, f2 = os.path.join(tmp, "m1.h5"), os.path.join(tmp, "m2.h5")
    steps = list(case["steps"])
    logging.disable(logging.CRITICAL)
    try:
        if case["mode"] == "smoother-min":
            from batchie.retrospective import MergeMinPlateSmoother
            s = MergeMinPlateSmoother(min_size=case["param"]).smooth_plates(s, np.random.default_rng(0))
        elif case["mode"] == "smoother-topbottom":
            from batchie.retrospective import MergeTopBottomPlateSmoother
            s = MergeTopBottomPlateSmoother(n_iterations=1 + case["param"] % 2).smooth_plates(s, np.random.default_rng(0))
    finally:
        logging.disable(logging.NOTSET)
    early = steps if case["schedule"] == "pre" else steps[:-1]
    for t, o, _ in early:
        apply_merge(s, t, o)

    def stale(x):
        fresh = sorted(set(str(p) for p in x.plate_names))
        return [str(p) for p in x.plate_mapping[0]] != fresh

    def cycle(obj, fn, label, k):
        """save obj to fn, load, compare with obj AT SAVE TIME; returns the loaded screen or None"""
        want = per_row(obj, True)
        obj.save_h5(fn)
        try:
            back = Screen.load_h5(fn)
        except Exception as e:
            res.fail("a screen whose plates were merged in place saves but does not load (%s)" % label, case,
                     "%s: %s" % (type(e).__name__, e), "the saved screen", signature=SIG_MERGED)
            return None
        got = per_row(back, True)
        d = first_diff(want, got)
        if d is not None:
            res.fail("observable '%s' of a screen whose plates were merged in place changed after save/load cycle %d (%s)" % (d[0], k, label),
                     case, {"field": d[0], "after": d[2]}, {"field": d[0], "in_memory_at_save_time": d[1]}, signature=SIG_MERGED)
            return None
        # the reloaded screen's plate ids decode to its per-row plate names through its own plate mapping
        pm = {int(i): str(nm) for nm, i in zip(*back.plate_mapping)}
        dec = [pm.get(int(i)) for i in back.plate_ids]
        if dec != want["plate_names"]:
            res.fail("plate ids of the reloaded screen do not decode to the plate names the rows had at save time (%s)" % label, case,
                     {"decoded": dec}, {"plate_names": want["plate_names"]}, signature=SIG_MERGED)
            return None
        return back

    if stale(s):
        res.count("class.stale-derived-state.plate-mapping-stale-at-save")
    cur = s
    ok = True
    if case["schedule"] != "pre":
        # an instalment: the screen is saved, merged further in place, and saved again (other path / same path)
        back = cycle(s, f1, "before the last merge", 1)
        ok = back is not None
        t, o, _ = steps[-1]
        apply_merge(s, t, o)
        if stale(s):
            res.count("class.stale-derived-state.plate-mapping-stale-at-save")
        fn = f2 if case["schedule"] == "between-other" else f1
    else:
        fn = f1
    for k in range(case["cycles"]):
        if not ok:
            break
        nxt = cycle(cur, fn, case["schedule"], k + 1)
        ok = nxt is not None
        cur = nxt if ok else cur
        fn = f2 if fn == f1 else f1
    final = S.raw_of_screen(s, with_maps=True)
    line = "saveloadb %d %s" % (case["cycles"], S.raw_to_tokens(final))
    return line, (show_stage(cur) if ok else None)


def obs_bits_list(raw):
    return None if raw["obs"] is None else [S.bits(x) for x in raw["obs"]]


@verbose_aware
def run_screen_case(case, tmp, res, check=True):
    """runs the implementation; returns (line for the model, expected output, screen or None)"""
    from batchie.data import Screen
    raw = case["raw"]
    case = dict(case, part="screen")
    # NaN payloads do not survive JSON: the case keeps bit patterns next to the floats
    if case.get("obs_bits") is not None:
        raw = dict(raw)
        raw["obs"] = [S.from_bits(b) for b in case["obs_bits"]]
    layout = case.get("layout", "c")
    s0 = build_layout(raw, layout)
    want = observables(s0)
    if layout != "c":
        # same values, other memory layout: the screen must be what the plain C-ordered arrays give
        twin = observables(S.build(raw))
        # a constructor that depends on the memory layout is not THIS property's business (the text is about save + load of the
        # screen that exists): the round trip below is judged against s0 itself; the model line (built from the values) shows a
        # layout-dependent constructor as a broken tie
        if first_diff(twin, want) is not None:
            res.count("layout.constructor-differs-from-c-ordered-twin")
    fn = os.path.join(tmp, "s.h5")
    cur = s0
    out = None
    snap0 = attrs_snapshot(s0) if check else None
    props0 = props_snapshot(s0) if check else None
    dump1 = None
    for k in range(case["cycles"]):
        cur.save_h5(fn)
        if check:
            # file level, every dataset and attribute by enumeration: the second and later saves write what the first wrote
            try:
                dump = h5_dump(fn)
            except Exception as e:
                dump = {}
                layout_tie(res, "walking the saved file", case, "%s: %s" % (type(e).__name__, e), "an HDF5 file of datasets and attributes")
            if dump1 is None:
                dump1 = dump
            else:
                # what is IN the file is not an observable of the property (only what load_h5 returns is): counted, not judged
                if dict_diff(dump1, dump) is not None:
                    res.count("file.cycle-k-differs-from-cycle-1")
        if check and cur.size:
            # raw read of the three id datasets the current layout stores next to the rows (load_h5 does not read them): tie only
            try:
                import h5py
                with h5py.File(fn, "r") as f:
                    stored = ([[int(x) for x in r] for r in f["treatment_ids"][:]],
                              [int(x) for x in f["sample_ids"][:]], [int(x) for x in f["plate_ids"][:]])
                have = (want["treatment_ids"], want["sample_ids"], want["plate_ids"])
                if stored != have:
                    res.count("file.stored-ids-differ-from-screen")
                    layout_tie(res, "ids stored in the file differ from the screen's ids", case, stored, have)
            except Exception as e:
                layout_tie(res, "raw read of treatment_ids / sample_ids / plate_ids", case, "%s: %s" % (type(e).__name__, e),
                           "three integer datasets with these names")
        try:
            cur = Screen.load_h5(fn)
        except Exception as e:
            out = S.err_tok(e)
            if len(raw["snames"]) == 0:
                res.fail("a zero-row screen saves but does not load", case, "%s: %s" % (type(e).__name__, e),
                         "the saved screen", signature=ZERO_ROW)
            else:
                res.fail("load_h5 raises on a file written by save_h5", case, "%s: %s" % (type(e).__name__, e), "the saved screen")
            cur = None
            break
        got = observables(cur)
        d = first_diff(want, got)
        if d is not None:
            res.fail("observable '%s' changed after %d save/load cycle(s)" % (d[0], k + 1), case,
                     {"field": d[0], "after": d[2]}, {"field": d[0], "before": d[1]})
            break
        if check:
            # attribute completeness: every instance attribute and every property of the class, found by introspection
            d = dict_diff(snap0, attrs_snapshot(cur)) or dict_diff(props0, props_snapshot(cur))
            if d is not None:
                res.fail("attribute / property '%s' (found by introspection) changed after %d save/load cycle(s)" % (d[0], k + 1), case,
                         {"name": d[0], "after": d[2]}, {"name": d[0], "before": d[1]})
                break
    if check and cur is not None and len(raw["snames"]) > 0:
        # input mutation: saving (any number of times) leaves the saved object untouched
        d = dict_diff(snap0, attrs_snapshot(s0))
        if d is not None:
            res.fail("save_h5 modifies the screen it saves (attribute '%s')" % d[0], case, {"name": d[0], "after": d[2]},
                     {"name": d[0], "before": d[1]})
        # object reuse: the same object saved once more (to another path), the same file loaded twice
        fn2 = os.path.join(tmp, "s_again.h5")
        try:
            s0.save_h5(fn2)
            a, b = observables(Screen.load_h5(fn2)), observables(Screen.load_h5(fn2))
            d = first_diff(want, a) or first_diff(want, b)
            if d is not None:
                res.fail("saving the same screen object again / loading the same file twice gives another screen ('%s')" % d[0], case,
                         {"field": d[0], "got": d[2]}, {"field": d[0], "original": d[1]})
        except Exception as e:
            res.fail("saving the same screen object again raises", case, "%s: %s" % (type(e).__name__, e), "a saved screen")
    if out is None:
        out = show_stage(cur)
    line = "saveloadb %d %s" % (case["cycles"], S.raw_to_tokens(raw))
    return line, out, s0


@verbose_aware
def run_space_case(case, tmp, res, s0):
    from batchie.data import ExperimentSpace
    case = dict(case, part="space")
    e0 = ExperimentSpace.from_screen(s0)
    want = space_observables(e0)
    fn = os.path.join(tmp, "e.h5")
    cur = e0
    out = None
    for k in range(case["cycles"]):
        try:
            cur.save_h5(fn)
        except Exception as e:
            out = S.err_tok(e)
            res.fail("ExperimentSpace.save_h5 raises on the space of a valid screen", case, "%s: %s" % (type(e).__name__, e), "a saved space")
            break
        try:
            cur = ExperimentSpace.load_h5(fn)
        except Exception as e:
            out = S.err_tok(e)
            if len(e0.treatment_mapping[0]) == 0 or len(e0.sample_mapping[0]) == 0:
                res.fail("an experiment space with an empty mapping saves but does not load", case,
                         "%s: %s" % (type(e).__name__, e), "the saved space", signature=ZERO_ROW)
            else:
                res.fail("ExperimentSpace.load_h5 raises on a file written by save_h5", case, "%s: %s" % (type(e).__name__, e), "the saved space")
            break
        got = space_observables(cur)
        d = first_diff(want, got)
        if d is not None:
            res.fail("experiment space '%s' changed after %d save/load cycle(s)" % (d[0], k + 1), case,
                     {"field": d[0], "after": d[2]}, {"field": d[0], "before": d[1]})
            break
    if out is None:
        out = show_space(cur)
    line = "space %d %s %s %s" % (case["cycles"], S.name_tok(str(e0.control_treatment_name)), S.show_tmap(e0.treatment_mapping),
                                S.show_smap(e0.sample_mapping))
    return line, out


def run_codec_case(names, tmp):
    """np.char.encode -> h5 dataset -> np.char.decode; returns (line, expected)"""
    import h5py
    arr = np.array(names, dtype=str)
    enc = np.char.encode(arr)
    fn = os.path.join(tmp, "c.h5")
    with h5py.File(fn, "w") as f:
        f.create_dataset("x", data=enc, compression="gzip")
    with h5py.File(fn, "r") as f:
        back = f["x"][:]
    try:
        dec = S.lst(S.name_tok(str(x)) for x in np.char.decode(back, "utf-8"))
    except Exception as e:
        dec = S.err_tok(e)
    if enc.dtype.kind == "S":
        w = enc.dtype.itemsize
        cells = [enc.tobytes()[i * w:(i + 1) * w] for i in range(len(names))]
        cells_tok = S.lst((S.lst((str(b) for b in c), ".") for c in cells))
    else:                       # empty array: float64
        w = 1
        cells_tok = "-"
    return "codec " + S.lst(S.name_tok(x) for x in names), "w=%d|cells=%s|dec=%s" % (w, cells_tok, dec), dec


def run(ctx, res):
    res.rule = RULE
    rng = ctx.subrng("c02")
    n_cases = ctx.scale(150, 2000, 1500)
    n_max = 12 if ctx.tier == "quick" else 40
    tmp = tempfile.mkdtemp(prefix="verif_c02_")
    lines, expect, cases, where = [], [], [], []
    xproc = []                                      # (file, observables, case) re-loaded in another interpreter at the end
    try:
        for t in range(-len(CORPUS), n_cases):
            if t < 0:
                # fixed corpus first: the zero-row witness (hold-out with fraction 0) is exercised on every run
                case = {"kind": CORPUS[t]["kind"], "raw": dict(CORPUS[t]["raw"]), "cycles": CORPUS[t]["cycles"],
                        "layout": CORPUS[t].get("layout", "c")}
            else:
                case = gen_case(rng, n_max)
            case["obs_bits"] = obs_bits_list(case["raw"])
            case["verbose"] = (t % 7 == 3) or (t < 0 and case["kind"] in ("corpus-nan-inf-observations", "corpus-zero-row", "corpus-superset"))
            if case["verbose"]:
                res.count("class.verbose-logging")
            ob_ = case["obs_bits"] or []
            if any((b >> 52) & 0x7FF == 0x7FF for b in ob_):
                res.count("class.load-path.nan-inf-observations")
            raw = case["raw"]
            res.evaluations += 1
            res.count("kind." + case["kind"])
            res.count("cycles.%d" % case["cycles"])
            res.count("layout." + case.get("layout", "c"))
            if case.get("permuted"):
                res.count("mapping.hand-made-permuted")
            if case.get("whitespace"):
                res.count("names.long-row-names" if case["whitespace"] == "long" else "names.whitespace-variants")
            res.count("rows.%s" % ("0" if not raw["snames"] else "1-5" if len(raw["snames"]) <= 5 else "6+"))
            try:
                line, out, s0 = run_screen_case(case, tmp, res)
            except Exception as e:
                res.fail("constructor/save raises on a valid screen", case, "%s: %s" % (type(e).__name__, e), "a saved screen")
                continue
            lines.append(line)
            expect.append(out)
            cases.append(case)
            where.append("C02:saveload:" + case["kind"])
            sline, sout = run_space_case(case, tmp, res, s0)
            lines.append(sline)
            expect.append(sout)
            cases.append(case)
            where.append("C02:space")
            res.evaluations += 1
            names = [x for r in raw["tnames"] for x in r] + raw["snames"] + raw["pnames"]
            nonascii = any(ord(c) > 127 for x in names for c in x)
            mixed = raw["mask"] is not None and len(set(raw["mask"])) == 2
            if len(raw["snames"]) >= 2 and (case["kind"] in ("superset-mapping", "own-mapping") or nonascii or mixed):
                res.nontrivial.add(common.short_hash(raw))
            if nonascii:
                res.count("names.non-ascii")
            if case["kind"] == "superset-mapping" and len(s0.treatment_mapping[0]) > len(set(
                    (a, b) for rn, rd in zip(raw["tnames"], raw["tdoses"]) for a, b in zip(rn, rd))):
                res.count("mapping.strict-superset")
            # ---- hardening-checklist classes present in this case ------------------------------------------------
            n_rows = len(raw["snames"])
            if n_rows:
                res.count("class.object-reuse")                    # same object saved again, same file loaded twice
                res.count("class.input-mutation")                  # saved object snapshotted (all attributes) and compared
                res.count("class.attribute-completeness")          # vars() + properties + h5 datasets by enumeration
            if n_rows and (case.get("layout", "c") != "c" or case.get("whitespace") == "long" or
                           any(len(str(x)) >= 25 for x in (raw.get("tmap") or [[]])[0])):
                res.count("class.memory-layout-dtype")
            keys = set((a, float(b)) for rn, rd in zip(raw["tnames"], raw["tdoses"]) for a, b in zip(rn, rd))
            no_control = n_rows and not any(a == raw["ctrl"] or b <= 0 for a, b in keys)
            named_pos = any(a == raw["ctrl"] and b > 0 for a, b in keys)
            if n_rows and (case.get("permuted") or no_control or named_pos or case["kind"] == "superset-mapping"):
                res.count("class.non-default-ids")
                if case.get("permuted"):
                    res.count("class.non-default-ids.permuted-ids-2+cycles")
                if no_control:
                    res.count("class.non-default-ids.no-control")
                if named_pos:
                    res.count("class.non-default-ids.named-control-positive-dose")
            if n_rows <= 1 or raw["ctrl"] == "" or (raw["mask"] is not None and not any(raw["mask"])) or "" in names:
                res.count("class.falsy-boundaries")
            pn = raw["pnames"]
            if any(pn[i] != pn[i - 1] and pn[i] in pn[:i - 1] for i in range(2, len(pn))):
                res.count("class.row-orderings")                   # rows of a plate not contiguous
            if len(set(raw["snames"])) >= 11:
                res.count("class.size-boundary.ge-11-names")
            if n_rows and len(xproc) < 10 and case["kind"] != "fresh" and (case.get("permuted") or len(xproc) < 5):
                keep = os.path.join(tmp, "xproc_%d.h5" % len(xproc))
                try:
                    s0.save_h5(keep)
                    xproc.append((keep, observables(s0) if case.get("layout", "c") == "c" else observables(S.build(
                        dict(raw, obs=[S.from_bits(b) for b in case["obs_bits"]] if case["obs_bits"] is not None else None))), case))
                except Exception:
                    pass
            if rng.random() < 0.02:
                res.sample({"kind": case["kind"], "cycles": case["cycles"], "line": line[:300], "impl": out[:300]})
        # screens whose plates were merged in place before / between saves (stale derived state, instalments)
        for t in range(ctx.scale(40, 500, 300)):
            case = gen_merge_case(rng)
            case["verbose"] = t % 5 == 2
            if case["verbose"]:
                res.count("class.verbose-logging")
            res.evaluations += 1
            res.count("class.stale-derived-state")
            res.count("merged.%s.%s" % (case["mode"], case["schedule"]))
            for st in case["steps"]:
                res.count("merged.disappearing-name-" + st[2])
            try:
                line, out = run_merge_case(case, tmp, res)
            except Exception as e:
                res.fail("merging plates / saving a merged screen raises", dict(case, part="screen"), "%s: %s" % (type(e).__name__, e),
                         "a saved screen", signature=SIG_MERGED)
                continue
            if out is not None:
                lines.append(line)
                expect.append(out)
                cases.append(case)
                where.append("C02:saveload:merged")
                if len(set(case["raw"]["pnames"])) >= 3:
                    res.nontrivial.add(common.short_hash([case["raw"], case["steps"], case["schedule"]]))
        # cross-process determinism: the files load to the same screens in another interpreter with another hash seed
        if xproc:
            try:
                back = cross_process_observables([x[0] for x in xproc], 1 + rng.randrange(4000000000))
                for (fnx, wantx, casex), gotx in zip(xproc, back):
                    res.count("class.cross-process")
                    res.evaluations += 1
                    d = first_diff(wantx, gotx)
                    if d is not None:
                        res.fail("a saved screen loads differently in another interpreter process ('%s')" % d[0], dict(casex, part="screen"),
                                 {"field": d[0], "other_process": d[2]}, {"field": d[0], "this_process": d[1]})
            except Exception as e:
                res.notes.append("cross-process reload not run: %s" % e)
        # string-table codec
        for t in range(ctx.scale(120, 1500)):
            k = rng.choice([0, 1, 1, 2, 3, 5, 8])
            names = [rng.choice(S.NAME_POOL + ["ééé", "ࠀ", "퟿", "", "￿", "\U00010000", "\U0010ffff", "\x7f", "\x80", "߿", "a\x00b"])
                     for _ in range(k)]
            line, out, dec = run_codec_case(names, tmp)
            res.evaluations += 1
            res.count("codec.size.%s" % ("0" if k == 0 else "1+"))
            if k and dec != S.lst(S.name_tok(x) for x in names):
                res.fail("string table does not survive encode/h5/decode", {"kind": "codec", "names": names}, dec, names)
            lines.append(line)
            expect.append(out)
            cases.append({"kind": "codec", "names": names})
            where.append("C02:codec")
    finally:
        shutil.rmtree(tmp, ignore_errors=True)
    if ctx.driver is not None:
        got = ctx.driver.ask(lines)
        for l, e, g, c, w in zip(lines, expect, got, cases, where):
            if e != g:
                res.disagree(w, {"line": l[:2000]}, e[:800], g[:800])
        res.traces_validated += len(lines)


def replay(ctx, case, res):
    tmp = tempfile.mkdtemp(prefix="verif_c02_")
    try:
        if case.get("kind") == "codec":
            line, out, dec = run_codec_case(case["names"], tmp)
            if case["names"] and dec != S.lst(S.name_tok(x) for x in case["names"]):
                res.fail("string table does not survive encode/h5/decode", case, dec, case["names"])
            return
        if case.get("kind") == "merged":
            try:
                run_merge_case(case, tmp, res)
            except Exception as e:
                res.fail("merging plates / saving a merged screen raises", case, "%s: %s" % (type(e).__name__, e), "a saved screen",
                         signature=SIG_MERGED)
            return
        part = case.get("part")
        try:
            line, out, s0 = run_screen_case(case, tmp, common.Result() if part == "space" else res)
        except Exception as e:
            res.fail("constructor/save raises on a valid screen", case, "%s: %s" % (type(e).__name__, e), "a saved screen")
            return
        if part != "screen":
            run_space_case(case, tmp, res, s0)
    finally:
        shutil.rmtree(tmp, ignore_errors=True)
