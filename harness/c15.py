"""C15 -- combination unranking is a bijection.

Tie: the translator-generated Lean function (`Batchie.Gen.Unrank.run`, the object of the theorems in
Props/C15.lean) is executed by the driver (`unrank <index> <n> <k>`) on the same arguments as the real
`get_combination_at_sorted_index`; outputs (or the error class) must agree.

Oracles (on the implementation alone):
  * valid      : length k, strictly descending, entries in [0, n)
  * rank       : sum_i C(c_i, i) == index  (positions counted from the small end)
  * successor  : out(index+1) is the lexicographic successor of out(index) among descending k-tuples
  * exhaustive : for small n all C(n,k) outputs are pairwise distinct, ascending, and are all k-subsets
  * call site  : the triples `dbal_fast_gauss_scoring_vectorized` actually indexes its arrays with are pairwise
                 distinct, in range, min(C(n,3), max_combos) many, and are ALL triples when the budget covers them
"""
import itertools
import math

import numpy as np

from vlib import common

common.use_repo_sources()

RULE = ("A: every index of every (n,k), n <= Nexh, k <= min(n,5) (plus k = n for n <= 8); B: for n up to 3000 and k in 1..5 "
        "(mostly 3; a few (n,k) with C(n,k) far beyond 2^64) the indices 0, C(n,k)-1, C(m,k)-1/C(m,k)/C(m,k)+1 for boundary values m, second-level boundaries "
        "C(a,k)+C(b,k-1)+-1 and uniform random indices, each together with its successor index, passed as python int or "
        "numpy.int64 (what the call site passes); C: malformed arguments (k > n, index >= C(n,k), negative index) for the tie "
        "only; D: the production call site with a recording distance matrix. Non-trivial: k >= 2 and C(n,k) >= 3.")


def rank(c):
    k = len(c)
    return sum(math.comb(int(x), k - i) for i, x in enumerate(c))


def successor(c, n):
    """lexicographic successor of the strictly descending tuple c (entries < n) among such tuples, or None"""
    c = list(c)
    k = len(c)
    # positions from the small end: c[k-1] is position 1
    for pos in range(k - 1, -1, -1):
        upper = n if pos == 0 else c[pos - 1]
        if c[pos] + 1 < upper:
            c[pos] += 1
            # reset everything smaller to the least values
            for q in range(pos + 1, k):
                c[q] = k - 1 - q
            return tuple(c)
    return None


def check_valid(c, n, k):
    if len(c) != k:
        return "length %d != k" % len(c)
    for x in c:
        if not (0 <= x < n):
            return "entry %r outside [0,%d)" % (x, n)
    for a, b in zip(c, c[1:]):
        if not a > b:
            return "not strictly descending"
    return None


def show(c):
    return "-" if len(c) == 0 else ",".join(str(int(x)) for x in c)


def call(fn, index, n, k):
    try:
        return tuple(int(x) for x in fn(index, n, k))
    except ZeroDivisionError:
        return "err:ZeroDivisionError"
    except Exception as e:  # noqa
        return "err:" + type(e).__name__


def oracle_point(res, fn, index, n, k, as_numpy, want_successor=True):
    """evaluate the oracles at one index (and its successor); returns the implementation's output"""
    arg = np.int64(index) if as_numpy else index
    case = {"kind": "point", "index": int(index), "n": n, "k": k, "numpy_index": bool(as_numpy)}
    out = call(fn, arg, n, k)
    res.evaluations += 1
    if isinstance(out, str):
        res.fail("unranking raises on a valid index", case, out, "a k-tuple", signature="C15:raises")
        return out
    bad = check_valid(out, n, k)
    if bad:
        res.fail("output is not a strictly descending k-tuple below n", case, {"out": list(out), "why": bad},
                 "length k, strictly descending, entries in [0,n)", signature="C15:valid")
        return out
    r = rank(out)
    if r != index:
        res.fail("rank(unrank(index)) != index (a combination is repeated or skipped)", case,
                 {"out": list(out), "rank": r}, {"rank": int(index)}, signature="C15:rank")
        return out
    if want_successor and index + 1 < math.comb(n, k):
        arg2 = np.int64(index + 1) if as_numpy else index + 1
        out2 = call(fn, arg2, n, k)
        res.evaluations += 1
        want = successor(out, n)
        if out2 != want:
            res.fail("out(index+1) is not the lexicographic successor of out(index)", case,
                     {"out": list(out), "next": list(out2) if not isinstance(out2, str) else out2},
                     {"next": list(want) if want else None}, signature="C15:successor")
    return out


def exhaustive(res, fn, n, k, lines, expect, meta):
    total = math.comb(n, k)
    case = {"kind": "exhaustive", "n": n, "k": k}
    outs = []
    for idx in range(total):
        o = call(fn, idx, n, k)
        outs.append(o)
        lines.append("unrank %d %d %d" % (idx, n, k))
        expect.append(o if isinstance(o, str) else show(o))
        meta.append(("exh", idx, n, k))
    res.evaluations += total
    ref = sorted(tuple(reversed(c)) for c in itertools.combinations(range(n), k))
    # reference enumeration: descending tuples in ascending lexicographic order
    if outs != ref:
        first = next((i for i, (a, b) in enumerate(zip(outs, ref)) if a != b), None)
        res.fail("enumeration over all indices is not every k-subset once in ascending order", dict(case, first_bad_index=first),
                 {"out": list(outs[first]) if first is not None and not isinstance(outs[first], str) else (outs[first] if first is not None else None),
                  "distinct": len(set(outs)), "total": total},
                 {"out": list(ref[first]) if first is not None else None, "distinct": total}, signature="C15:enumeration")
        return
    for idx, o in enumerate(outs):
        if rank(o) != idx:
            res.fail("rank(unrank(index)) != index (a combination is repeated or skipped)",
                     {"kind": "point", "index": idx, "n": n, "k": k, "numpy_index": False},
                     {"out": list(o), "rank": rank(o)}, {"rank": idx}, signature="C15:rank")
            break


def sample_indices(rng, n, k, budget):
    total = math.comb(n, k)
    if total == 0:
        return []
    s = {0, total - 1, total // 2}
    ms = list(range(k, n + 1))
    if len(ms) > budget:
        ms = sorted(set([k, k + 1, n - 1, n] + rng.sample(ms, budget)))
    for m in ms:
        b = math.comb(m, k)
        for d in (-1, 0, 1):
            s.add(b + d)
    if k >= 2:
        for _ in range(budget):
            a = rng.randint(k, n)
            b = rng.randint(k - 1, a)
            v = math.comb(a, k) + math.comb(b, k - 1)
            for d in (-1, 0, 1):
                s.add(v + d)
    for _ in range(budget):
        s.add(rng.randrange(total))
    return sorted(i for i in s if 0 <= i < total)


class RecordingMatrix(np.ndarray):
    """distance matrix that records the fancy-index keys it is read with"""

    def __new__(cls, arr):
        obj = np.asarray(arr).view(cls)
        obj.keys = []
        return obj

    def __array_finalize__(self, obj):
        self.keys = getattr(obj, "keys", [])

    def __getitem__(self, key):
        if isinstance(key, tuple) and len(key) == 2 and all(isinstance(x, np.ndarray) for x in key):
            self.keys.append((np.array(key[0]), np.array(key[1])))
        return np.asarray(super().__getitem__(key))


def callsite_case(res, gd, n_thetas, max_combos, seed):
    case = {"kind": "callsite", "n_thetas": n_thetas, "max_combos": max_combos, "seed": seed}
    nprng = np.random.default_rng(seed)
    n_plates, E = 2, 3
    preds = nprng.normal(size=(n_plates, n_thetas, E))
    var = nprng.uniform(0.5, 2.0, size=(n_plates, n_thetas, E))
    d = nprng.uniform(0.1, 1.0, size=(n_thetas, n_thetas))
    d = (d + d.T) / 2
    dm = RecordingMatrix(d)
    calls = []
    orig = gd.get_combination_at_sorted_index

    def rec(index, n, k):
        out = orig(index, n, k)
        calls.append((int(index), int(n), int(k), tuple(int(x) for x in out)))
        return out

    gd.get_combination_at_sorted_index = rec
    try:
        scores = gd.dbal_fast_gauss_scoring_vectorized(preds, var, dm, nprng, max_combos=max_combos)
    except Exception as e:  # noqa
        res.fail("scoring raises", case, "%s: %s" % (type(e).__name__, e), "scores", signature="C15:callsite-raises")
        return
    finally:
        gd.get_combination_at_sorted_index = orig
    res.evaluations += 1
    total = math.comb(n_thetas, 3)
    want_n = min(total, max_combos)
    keys = dm.keys
    if len(keys) != 3:
        res.notes.append("call site reads the distance matrix %d times (expected 3): triples taken from the recorded calls" % len(keys))
        triples = [c[3] for c in calls]
    else:
        (a1, b1), (a2, b2), (a3, b3) = keys
        # (idx1,idx2), (idx2,idx3), (idx1,idx3)
        if not (np.array_equal(a1, a3) and np.array_equal(b1, a2) and np.array_equal(b2, b3)):
            res.fail("distance matrix is not read at the three pairs of one triple", case,
                     {"keys": [[x.tolist()[:5] for x in kk] for kk in keys]}, "(i,j),(j,l),(i,l)", signature="C15:callsite-pairs")
            return
        triples = [(int(i), int(j), int(l)) for i, j, l in zip(a1, b1, b2)]
    obs = {"n_triples": len(triples), "distinct": len(set(triples)), "first": [list(t) for t in triples[:5]]}
    if len(triples) != want_n:
        res.fail("number of triples used differs from min(C(n,3), max_combos)", case, obs, {"n_triples": want_n}, signature="C15:callsite-count")
        return
    if len(set(triples)) != len(triples):
        res.fail("triples used for scoring are not pairwise distinct", case, obs, "pairwise distinct", signature="C15:callsite-distinct")
        return
    for t in triples:
        if check_valid(t, n_thetas, 3):
            res.fail("triple used for scoring is not i>j>l within range", case, dict(obs, bad=list(t)), "n_thetas > i > j > l >= 0",
                     signature="C15:callsite-range")
            return
    if total <= max_combos:
        allt = set(tuple(reversed(c)) for c in itertools.combinations(range(n_thetas), 3))
        if set(triples) != allt:
            res.fail("budget covers all triples but not all triples are used", case,
                     dict(obs, missing=[list(t) for t in sorted(allt - set(triples))[:5]]), "all C(n,3) triples", signature="C15:callsite-all")
            return
        res.nontrivial.add(("callsite-all", n_thetas, max_combos))
    else:
        res.nontrivial.add(("callsite-sub", n_thetas, max_combos))
    for (index, n, k, out) in calls:
        if n != n_thetas or k != 3:
            res.fail("call site unranks with other (n,k) than (n_thetas,3)", case, {"n": n, "k": k}, {"n": n_thetas, "k": 3}, signature="C15:callsite-args")
            return
    if not np.all(np.isfinite(scores)):
        res.notes.append("non-finite score at call-site case %r" % (case,))
    res.count("callsite.all" if total <= max_combos else "callsite.sub")
    res.traces_validated += 1


def run(ctx, res):
    from batchie.scoring import gaussian_dbal as gd
    fn = gd.get_combination_at_sorted_index
    res.rule = RULE
    lines, expect, meta = [], [], []

    # ---------- A. exhaustive small scope ----------------------------------------------------
    nexh = ctx.scale(14, 24, 16)
    for n in range(0, nexh + 1):
        ks = list(range(0, min(n, 5) + 1))
        if n <= 8:
            ks = list(range(0, n + 1))
        for k in ks:
            exhaustive(res, fn, n, k, lines, expect, meta)
            if k >= 2 and math.comb(n, k) >= 3:
                res.nontrivial.add(("exh", n, k))
            res.count("exhaustive.pairs")
    res.count("exhaustive.indices", len(lines))

    # ---------- B. sampled indices, production regime ------------------------------------------
    rng = ctx.subrng("sampled")
    target = ctx.scale(2000, 200000, 20000)
    per = ctx.scale(12, 60, 30)
    nks = [(3000, 3), (2999, 3), (1000, 3), (400, 3), (100, 3), (3000, 2), (3000, 4), (500, 5), (64, 1), (37, 4),
           (3000, 5), (2500, 6), (300, 12), (100, 50), (64, 32), (70, 69)]  # big-integer regime: beyond float/int64 exactness
    done = 0
    guard = 0
    while done < target and guard < 100000:
        guard += 1
        if nks:
            n, k = nks.pop(0)
        else:
            n = int(round(math.exp(rng.uniform(math.log(6), math.log(3000)))))
            k = rng.choice([1, 2, 3, 3, 3, 3, 4, 5])
            if k > n:
                continue
        for idx in sample_indices(rng, n, k, per):
            as_np = (idx + 1 < 2 ** 62) and rng.random() < 0.5
            out = oracle_point(res, fn, idx, n, k, as_np)
            lines.append("unrank %d %d %d" % (idx, n, k))
            expect.append(out if isinstance(out, str) else show(out))
            meta.append(("sampled", idx, n, k))
            done += 1
            if k >= 2 and math.comb(n, k) >= 3:
                res.nontrivial.add(("pt", idx, n, k))
            res.count("sampled.k=%d" % k)
            res.count("sampled.n<=100" if n <= 100 else ("sampled.n<=1000" if n <= 1000 else "sampled.n<=3000"))
            if len(res.oracle_failures) >= 20:
                break
        if len(res.oracle_failures) >= 20:
            break
    # every C(m,3) boundary of one production-size n (thorough / search), of n = 300 (quick)
    nb = ctx.scale(300, 3000, 1000)
    for m in range(3, nb + 1):
        b = math.comb(m, 3)
        for idx in (b - 1, b):
            if 0 <= idx < math.comb(nb, 3):
                out = oracle_point(res, fn, idx, nb, 3, False, want_successor=(idx == b - 1))
                lines.append("unrank %d %d %d" % (idx, nb, 3))
                expect.append(out if isinstance(out, str) else show(out))
                meta.append(("boundary", idx, nb, 3))
                res.nontrivial.add(("pt", idx, nb, 3))
                res.count("boundary.C(m,3)")
        if len(res.oracle_failures) >= 20:
            break

    # ---------- C. malformed arguments: tie only (error class / clamped output) ----------------
    mal = [(0, 2, 3), (0, 0, 1), (5, 3, 5), (10, 5, 2), (11, 5, 2), (100, 5, 2), (-1, 5, 2), (-7, 6, 3), (1, 4, 0), (0, 0, 0),
           (35, 7, 3), (1, 1, 1), (3, 3, 1), (2 ** 70, 80, 40)]
    mrng = ctx.subrng("malformed")
    for _ in range(ctx.scale(40, 400)):
        n = mrng.randint(0, 12)
        k = mrng.randint(0, 7)
        idx = mrng.randint(-3, math.comb(n, k) + 3)
        mal.append((idx, n, k))
    for (idx, n, k) in mal:
        o = call(fn, idx, n, k)
        lines.append("unrank %d %d %d" % (idx, n, k))
        expect.append(o if isinstance(o, str) else show(o))
        meta.append(("malformed", idx, n, k))
        res.count("malformed")

    # ---------- D. production call site ---------------------------------------------------------
    crng = ctx.subrng("callsite")
    cs = [(3, 5000), (4, 4), (5, 10), (5, 9), (7, 35), (7, 36), (9, 5000), (12, 220), (12, 100), (30, 50)]
    for _ in range(ctx.scale(20, 200)):
        n = crng.randint(3, 16)
        t = math.comb(n, 3)
        cs.append((n, crng.choice([t, t + 1, 5000, max(1, t - 1), max(1, t // 2), 1])))
    for (n, mc) in cs:
        callsite_case(res, gd, n, mc, crng.randrange(2 ** 31))

    # ---------- tie: generated Lean vs implementation ---------------------------------------------
    drv = ctx.driver
    if drv is not None:
        got = drv.ask(lines)
        for l, e, g_, m in zip(lines, expect, got, meta):
            if e != g_:
                res.disagree("C15:unrank:%s" % m[0], {"line": l}, e[:200], g_[:200])
        res.count("tie.lines", len(lines))
        res.traces_validated += len(lines)
    res.sample({"kind": "point", "index": 1000000007, "n": 3000, "k": 3, "out": list(call(fn, 1000000007, 3000, 3))})
    res.sample({"kind": "exhaustive", "n": 5, "k": 2, "out": [list(call(fn, i, 5, 2)) for i in range(10)]})
    res.sample({"kind": "callsite", "n_thetas": 7, "max_combos": 35})


def replay(ctx, case, res):
    from batchie.scoring import gaussian_dbal as gd
    fn = gd.get_combination_at_sorted_index
    kind = case.get("kind")
    if kind == "point":
        oracle_point(res, fn, case["index"], case["n"], case["k"], case.get("numpy_index", False))
    elif kind == "exhaustive":
        exhaustive(res, fn, case["n"], case["k"], [], [], [])
    elif kind == "callsite":
        callsite_case(res, gd, case["n_thetas"], case["max_combos"], case["seed"])
    else:
        run(ctx, res)
