"""C15 -- combination unranking is a bijection.

Tie: the translator-generated Lean function (`Batchie.Gen.Unrank.run`, the object of the theorems in
Props/C15.lean) is executed by the driver (`unrank <index> <n> <k>`) on the same arguments as the real
`get_combination_at_sorted_index`; outputs (or the error class) must agree.

Oracles (on the implementation alone):
  * valid      : length k, strictly descending, entries in [0, n)
  * rank       : sum_i C(c_i, i) == index  (positions counted from the small end)
  * successor  : out(index+1) is the lexicographic successor of out(index) among descending k-tuples
  * exhaustive : for small n all C(n,k) outputs are pairwise distinct, ascending, and are all k-subsets
  * call site  : the triples `dbal_fast_gauss_scoring_vectorized` actually indexes its arrays with (read off recording
                 subclasses of ALL THREE input arrays, so also after the python loop over the unranking function has been
                 replaced by something else) are pairwise distinct, in range, min(C(n,3), max_combos) many, the same for
                 distances / predictions / variances, and are ALL triples when the budget covers them; no index outside
                 [0, C(n,3)) is unranked and rng.choice is not given a larger population; budgets <, =, > C(n,3); n_thetas up
                 to 3000 (C(n,3) > 2^31); a generator whose with-replacement draws are constant (a legitimate outcome);
                 and without any instrumentation: unit distances/variances give log(3 K) - E/2 log 3.
  * reuse      : ONE GaussianDBALScorer object scores successive rounds with different numbers of posterior samples and
                 distance matrices; the gathers of every kernel invocation of every round (observed by wrapping the kernel's
                 three arrays, all other arguments passed through) must satisfy the call-site oracles for THAT round's n.
Tie of the call site: `unrank.callsite n max_combos <recorded draw>` (Model/UnrankCallsite.lean, the object of
`C15_callsite`) must reproduce the population and size rng.choice received and the observed triples, in order.
"""
import itertools
import math

import numpy as np

from vlib import common

common.use_repo_sources()

RULE = ("A: every index of every (n,k), n <= Nexh, k <= min(n,5) (plus k = n for n <= 8); B: for n up to 3000 and k in 1..5 "
        "(mostly 3; a few (n,k) with C(n,k) far beyond 2^64) the indices 0, C(n,k)-1, C(m,k)-1/C(m,k)/C(m,k)+1 for boundary values m, second-level boundaries "
        "C(a,k)+C(b,k-1)+-1 and uniform random indices, each together with its successor index, passed as python int or "
        "numpy.int64 (what the call site passes); C: malformed arguments (k > n, index >= C(n,k), negative index) for the tie "
        "only; D: the production call site observed through recording input arrays and a recording generator: n_thetas 3..16 with budgets "
        "1, C/2, C-1, C, C+1, 2C, 5000, n_thetas 32/33 around the default budget 5000, n_thetas 60..3000 with budgets 50..5000 (sub-sampling), "
        "a third of them with a generator whose with-replacement draws are constant; plus uninstrumented unit-weight runs; plus one scorer object "
        "reused over 2-4 rounds with different n_thetas (growing and shrinking; budget covering all rounds / some / none), triples observed per kernel invocation; "
        "hardening classes: every argument a temporary (identity-keyed memo), one scorer + another generator, instalments, n_thetas 127..257 and budgets "
        "4999/5001/C/C+1/20000 around the default 5000 through kernel, both wrappers and the scorer. Oracles fire only for k <= 4 and for the stated clauses "
        "(in range, distinct, all when covered); item 18: the call site through calculate_scores.main() with --scorer-param max_triples/max_chunk (budgets below / at / "
        "above C(n,3), n_thetas 34/36 above the default budget, 300 sub-sampled), triples observed per kernel invocation, received options as a tie; item 19: "
        "slices of every stream (exhaustive n = 5, 7, max; every 6th sampled (n,k); every 10th boundary; every 5th call-site / 4th reuse / 3rd class / 3rd black-box case; "
        "a third of the CLI cases with --verbose) under verbose logging, cases carry verbose=true; k > 4, invalid arguments, the number of sub-sampled triples, unranked index range and rng.choice population are ties. Non-trivial: k >= 2 and C(n,k) >= 3.")


def rank(c):
    k = len(c)
    return sum(math.comb(int(x), k - i) for i, x in enumerate(c))


def successor(c, n):
    """lexicographic successor of the strictly descending tuple c (entries < n) among such tuples, or None"""
    c = list(c)
    k = len(c)
    # positions from the small end: c[k-1] is position 1
    for pos in range(k - 1, -1, -1):
        upper = n if pos == 0 else c[pos - 1]
        if c[pos] + 1 < upper:
            c[pos] += 1
            # reset everything smaller to the least values
            for q in range(pos + 1, k):
                c[q] = k - 1 - q
            return tuple(c)
    return None


def check_valid(c, n, k):
    if len(c) != k:
        return "length %d != k" % len(c)
    for x in c:
        if not (0 <= x < n):
            return "entry %r outside [0,%d)" % (x, n)
    for a, b in zip(c, c[1:]):
        if not a > b:
            return "not strictly descending"
    return None


def show(c):
    return "-" if len(c) == 0 else ",".join(str(int(x)) for x in c)


def call(fn, index, n, k):
    try:
        return tuple(int(x) for x in fn(index, n, k))
    except ZeroDivisionError:
        return "err:ZeroDivisionError"
    except Exception as e:  # noqa
        return "err:" + type(e).__name__


VERB = [False]


def mk(case):
    """case dicts created while a verbose slice is active carry "verbose": True, so that `replay` re-enters that configuration"""
    if VERB[0]:
        case["verbose"] = True
    return case


class verbose_slice:
    """HARDENING item 19: run a slice of a stream with the `batchie` logger at DEBUG and a formatting sink (vlib.common.verbose_logging)"""

    def __init__(self, flag):
        self.flag = bool(flag)

    def __enter__(self):
        self.old = VERB[0]
        if self.flag:
            VERB[0] = True
            self.cm = common.verbose_logging()
            self.cm.__enter__()
        return self

    def __exit__(self, *exc):
        if self.flag:
            self.cm.__exit__(*exc)
            VERB[0] = self.old
        return False


KMAX = 4     # the property's quantifier: all n >= 0, all 0 <= k <= 4 (larger k is compared with the model only)


class _Quantified:
    """`res.fail` for inputs inside the property's quantifier; for k > 4 only a counter (the tie with the model still compares them)"""

    def __init__(self, res, k):
        self.res, self.inside = res, k <= KMAX

    def fail(self, *a, **kw):
        if self.inside:
            self.res.fail(*a, **kw)
        else:
            self.res.count("outside_quantifier.k>4.oracle_would_fire(tie only)")


def oracle_point(res, fn, index, n, k, as_numpy, want_successor=True):
    """evaluate the oracles at one index (and its successor); returns the implementation's output"""
    arg = np.int64(index) if as_numpy else index
    case = mk({"kind": "point", "index": int(index), "n": n, "k": k, "numpy_index": bool(as_numpy)})
    out = call(fn, arg, n, k)
    res.evaluations += 1
    q = _Quantified(res, k)
    if isinstance(out, str):
        q.fail("unranking raises on a valid index", case, out, "a k-tuple", signature="C15:raises")
        return out
    bad = check_valid(out, n, k)
    if bad:
        q.fail("output is not a strictly descending k-tuple below n", case, {"out": list(out), "why": bad},
                 "length k, strictly descending, entries in [0,n)", signature="C15:valid")
        return out
    r = rank(out)
    if r != index:
        q.fail("rank(unrank(index)) != index (a combination is repeated or skipped)", case,
                 {"out": list(out), "rank": r}, {"rank": int(index)}, signature="C15:rank")
        return out
    if want_successor and index + 1 < math.comb(n, k):
        arg2 = np.int64(index + 1) if as_numpy else index + 1
        out2 = call(fn, arg2, n, k)
        res.evaluations += 1
        want = successor(out, n)
        if out2 != want:
            q.fail("out(index+1) is not the lexicographic successor of out(index)", case,
                     {"out": list(out), "next": list(out2) if not isinstance(out2, str) else out2},
                     {"next": list(want) if want else None}, signature="C15:successor")
    return out


def exhaustive(res, fn, n, k, lines, expect, meta):
    total = math.comb(n, k)
    case = mk({"kind": "exhaustive", "n": n, "k": k})
    q = _Quantified(res, k)
    outs = []
    for idx in range(total):
        o = call(fn, idx, n, k)
        outs.append(o)
        lines.append("unrank %d %d %d" % (idx, n, k))
        expect.append(o if isinstance(o, str) else show(o))
        meta.append(("exh", idx, n, k))
    res.evaluations += total
    ref = sorted(tuple(reversed(c)) for c in itertools.combinations(range(n), k))
    # reference enumeration: descending tuples in ascending lexicographic order
    if outs != ref:
        first = next((i for i, (a, b) in enumerate(zip(outs, ref)) if a != b), None)
        q.fail("enumeration over all indices is not every k-subset once in ascending order", dict(case, first_bad_index=first),
                 {"out": list(outs[first]) if first is not None and not isinstance(outs[first], str) else (outs[first] if first is not None else None),
                  "distinct": len(set(outs)), "total": total},
                 {"out": list(ref[first]) if first is not None else None, "distinct": total}, signature="C15:enumeration")
        return
    for idx, o in enumerate(outs):
        if rank(o) != idx:
            q.fail("rank(unrank(index)) != index (a combination is repeated or skipped)",
                     {"kind": "point", "index": idx, "n": n, "k": k, "numpy_index": False},
                     {"out": list(o), "rank": rank(o)}, {"rank": idx}, signature="C15:rank")
            break


def sample_indices(rng, n, k, budget):
    total = math.comb(n, k)
    if total == 0:
        return []
    s = {0, total - 1, total // 2}
    ms = list(range(k, n + 1))
    if len(ms) > budget:
        ms = sorted(set([k, k + 1, n - 1, n] + rng.sample(ms, budget)))
    for m in ms:
        b = math.comb(m, k)
        for d in (-1, 0, 1):
            s.add(b + d)
    if k >= 2:
        for _ in range(budget):
            a = rng.randint(k, n)
            b = rng.randint(k - 1, a)
            v = math.comb(a, k) + math.comb(b, k - 1)
            for d in (-1, 0, 1):
                s.add(v + d)
    for _ in range(budget):
        s.add(rng.randrange(total))
    return sorted(i for i in s if 0 <= i < total)


class RecordingArray(np.ndarray):
    """input array that records the integer index arrays it (or anything derived from it by ufuncs / views, e.g.
    `~np.isnan(variances)`, `np.nan_to_num(variances)`) is fancy-indexed with"""

    def __new__(cls, arr, log):
        obj = np.asarray(arr).view(cls)
        obj.log = log
        return obj

    def __array_finalize__(self, obj):
        self.log = getattr(obj, "log", None)

    def __getitem__(self, key):
        if self.log is not None and isinstance(key, tuple):
            arrs = []
            for x in key:
                if isinstance(x, (list, tuple)):
                    x = np.asarray(x)
                if isinstance(x, np.ndarray) and x.dtype.kind in "iu":
                    arrs.append(np.array(x, dtype=np.int64).ravel())
            if arrs:
                self.log.append(arrs)
        return np.asarray(super().__getitem__(key))


class RecGen(np.random.Generator):
    """a real numpy Generator that records `choice` and, when `adversarial`, returns for every WITH-replacement draw
    (`integers`, `choice(replace=True)`, `random`) a constant sample -- a legitimate outcome of such a draw, under which
    code that relies on 'collisions are unlikely' uses the same triple repeatedly.  `choice(replace=False)`, `permutation`,
    `shuffle` are untouched."""

    def __new__(cls, seed, adversarial=False):
        return super().__new__(cls, np.random.PCG64(seed))

    def __init__(self, seed, adversarial=False):
        super().__init__(np.random.PCG64(seed))
        self.adv = adversarial
        self.choices = []
        self.other = []

    # signature-agnostic (item 21): every argument is forwarded unchanged to numpy; what the harness needs is bound by name afterwards
    def choice(self, *args, **kwargs):
        out = super().choice(*args, **kwargs)
        try:
            b = dict(zip(("a", "size", "replace", "p", "axis", "shuffle"), args))
            b.update(kwargs)
            a, size, replace = b.get("a"), b.get("size"), b.get("replace", True)
            if self.adv and replace and isinstance(out, np.ndarray) and out.size:
                out = np.full_like(out, out.flat[0])
            self.choices.append({"a": a if isinstance(a, (int, np.integer)) else None, "size": size, "replace": bool(replace),
                                 "out": [int(x) for x in np.asarray(out).ravel()] if np.asarray(out).dtype.kind in "iu" else None})
        except Exception as e:  # noqa
            self.other.append("choice(unrecorded: %s)" % type(e).__name__)
        return out

    def integers(self, *args, **kwargs):
        out = super().integers(*args, **kwargs)
        self.other.append("integers")
        if self.adv and isinstance(out, np.ndarray) and out.size:
            out = np.full_like(out, out.flat[0])
        return out

    def random(self, *args, **kwargs):
        o = super().random(*args, **kwargs)
        self.other.append("random")
        if self.adv and isinstance(o, np.ndarray) and o.size:
            o[...] = o.flat[0]
        return o


def own_fault(res, e, case, where):
    """item 21: an exception that is the harness's own doing (a wrapper / stub could not cope with how it was called) is a broken tie"""
    from harness.dbal_cli import harness_fault
    if harness_fault(e):
        res.count("wrapper.unexpected-call")
        res.disagree("C15:wrapper:%s" % where, case, "%s: %s" % (type(e).__name__, str(e)[:200]), "the harness's recorder accepts the call")
        return True
    return False


def callsite_case(res, gd, n_thetas, max_combos, seed, adversarial=False, tie=None):
    """run the production kernel and observe the triples it REALLY uses: the index arrays its three input arrays are read
    with (whatever produced them -- the python loop over get_combination_at_sorted_index or any replacement)"""
    case = mk({"kind": "callsite", "n_thetas": n_thetas, "max_combos": max_combos, "seed": seed, "adversarial": bool(adversarial)})
    nprng = np.random.default_rng(seed)
    n_plates, E = (2, 3) if n_thetas <= 64 else (1, 1)
    log_p, log_v, log_d = [], [], []
    preds = RecordingArray(nprng.normal(size=(n_plates, n_thetas, E)), log_p)
    var = RecordingArray(nprng.uniform(0.5, 2.0, size=(n_plates, n_thetas, E)), log_v)
    d = nprng.uniform(0.1, 1.0, size=(n_thetas, n_thetas))
    d = (d + d.T) / 2
    dm = RecordingArray(d, log_d)
    rng = RecGen(seed, adversarial)
    calls = []
    orig = gd.get_combination_at_sorted_index

    def rec(*args, **kwargs):
        # signature-agnostic (item 21): forward unchanged; (index, n, k) are found by binding against the ORIGINAL signature
        out = orig(*args, **kwargs)
        try:
            import inspect
            ba = inspect.signature(orig).bind(*args, **kwargs).arguments
            calls.append((int(ba["index"]), int(ba["n"]), int(ba["k"]), tuple(int(x) for x in out)))
        except Exception:  # noqa
            res.count("wrapper.unexpected-call")
        return out

    gd.get_combination_at_sorted_index = rec
    try:
        scores = gd.dbal_fast_gauss_scoring_vectorized(preds, var, dm, rng, max_combos=max_combos)
    except Exception as e:  # noqa
        if not own_fault(res, e, case, "callsite"):
            res.fail("scoring raises", case, "%s: %s" % (type(e).__name__, e), "scores", signature="C15:callsite-raises")
        return
    finally:
        gd.get_combination_at_sorted_index = orig
    res.evaluations += 1
    total = math.comb(n_thetas, 3)
    want_n = min(total, max_combos)

    # ---- what was unranked (when the code goes through the repo's unranking function at all) ------------------
    # HOW the triples are obtained (which (n,k) is unranked, index range, population handed to rng.choice) is not stated by the property:
    # it is compared with the call-site model (a difference is a broken tie); only the triples really used are an oracle.
    for (index, n, k, out) in calls:
        if n != n_thetas or k != 3:
            res.disagree("C15:callsite-args", case, {"n": n, "k": k}, {"n": n_thetas, "k": 3})
            break
        if not (0 <= index < total):
            res.disagree("C15:callsite-index", case, {"unranked_index": index}, {"valid_indices": "[0, %d)" % total})
            break
    for ch in rng.choices:
        if ch["a"] is not None and int(ch["a"]) != total:
            res.disagree("C15:callsite-population", case, {"population": int(ch["a"]), "size": ch["size"]}, {"population": total})
            break

    # ---- the triples: read off the distance matrix keys, cross-checked with the keys of predictions / variances -----
    triples = None
    how = None
    dkeys = [k for k in log_d if len(k) == 2 and len(k[0]) == len(k[1])]
    if len(dkeys) == 3:
        (a1, b1), (a2, b2), (a3, b3) = dkeys
        # (idx1,idx2), (idx2,idx3), (idx1,idx3)
        if not (np.array_equal(a1, a3) and np.array_equal(b1, a2) and np.array_equal(b2, b3)):
            res.count("callsite.unobserved(distance gathers not recognised)")
            return
        cols = (a1, b1, b2)
        triples = [(int(i), int(j), int(l)) for i, j, l in zip(*cols)]
        how = "distance-matrix"
        # predictions / variances / mask gathered with other index arrays: an access pattern this harness does not recognise (counter only)
        for name, lg in (("predictions", log_p), ("variances", log_v)):
            seen = [k[0] for k in lg if len(k) == 1]
            if any(not any(np.array_equal(arr, c_) for c_ in cols) for arr in seen):
                res.count("callsite.unrecognised_gathers_on_" + name)
    else:
        uniq = []
        for k in log_p + log_v:
            if len(k) == 1 and not any(np.array_equal(k[0], u) for u in uniq):
                uniq.append(k[0])
        if len(uniq) == 3 and len(set(len(u) for u in uniq)) == 1:
            triples = [tuple(sorted((int(i), int(j), int(l)), reverse=True)) for i, j, l in zip(*uniq)]
            if any(len(set(t)) != 3 for t in triples):
                triples = [(int(i), int(j), int(l)) for i, j, l in zip(*uniq)]
            how = "predictions/variances"
        elif calls:
            triples = [c_[3] for c_ in calls]
            how = "recorded-unranking-calls"
    if triples is None:
        res.notes.append("call site: the triples could not be observed (no recognisable fancy indexing, no unranking calls); case %r" % (case,))
        res.count("callsite.unobserved")
        return
    if how != "distance-matrix":
        res.count("callsite.observed-via-" + how)
    obs = {"n_triples": len(triples), "distinct": len(set(triples)), "first": [list(t) for t in triples[:5]], "observed_via": how}
    if len(triples) != want_n and total > max_combos:
        # sub-sampling regime: HOW MANY triples are drawn is not stated by the property (only distinct / in range): tie with the model
        res.disagree("C15:callsite-count", case, {"n_triples": len(triples)}, {"n_triples": want_n})
    for t in triples:
        if check_valid(t, n_thetas, 3):
            res.fail("triple used for scoring is not i>j>l within range", case, dict(obs, bad=list(t)), "n_thetas > i > j > l >= 0",
                     signature="C15:callsite-range")
            return
    if len(set(triples)) != len(triples):
        res.fail("triples used for scoring are not pairwise distinct", case, obs, "pairwise distinct", signature="C15:callsite-distinct")
        return
    if total <= max_combos:
        allt = set(tuple(reversed(c_)) for c_ in itertools.combinations(range(n_thetas), 3))
        if set(triples) != allt:
            res.fail("budget covers all triples but not all triples are used", case,
                     dict(obs, missing=[list(t) for t in sorted(allt - set(triples))[:5]]), "all C(n,3) triples", signature="C15:callsite-all")
            return
        res.nontrivial.add(("callsite-all", n_thetas, max_combos))
    else:
        res.nontrivial.add(("callsite-sub", n_thetas, max_combos))
    if not np.all(np.isfinite(scores)):
        res.notes.append("non-finite score at call-site case %r" % (case,))
    res.count("callsite.all" if total <= max_combos else "callsite.sub")
    res.count("callsite.budget" + ("<" if max_combos < total else "=" if max_combos == total else ">") + "C(n,3)")
    res.count("callsite.n<=64" if n_thetas <= 64 else "callsite.n<=1000" if n_thetas <= 1000 else "callsite.n<=3000")
    if adversarial:
        res.count("callsite.adversarial_generator")
    res.traces_validated += 1
    # ---- tie with the call-site model: same draw -> same population, size and triples, in order ------------------
    if tie is not None and len(rng.choices) == 1 and rng.choices[0]["out"] is not None and rng.choices[0]["a"] is not None \
            and not rng.other and how == "distance-matrix":
        ch = rng.choices[0]
        if len(set(ch["out"])) != len(ch["out"]) or any(not (0 <= x < int(ch["a"])) for x in ch["out"]) or len(ch["out"]) != ch["size"]:
            res.notes.append("numpy's rng.choice(replace=False) contract not met?! case %r" % (case,))
        tie.append(("unrank.callsite %d %d %s" % (n_thetas, max_combos, ",".join(str(x) for x in ch["out"]) or "-"),
                    "%d|%d|%s" % (int(ch["a"]), int(ch["size"]), ";".join("%d,%d,%d" % t for t in sorted(triples)) or "-"), case))


class _StubPlate:
    def __init__(self, means, variances):
        self.means, self.variances = means, variances
        self.size = means.shape[1]
        self.selection_vector = np.zeros(1, dtype=bool)


class _StubTheta:
    def __init__(self, i):
        self.i = i

    # stand-ins for the repo's interfaces: whatever way (position / keyword name) the implementation passes the argument (item 21)
    def predict_conditional_mean(self, *args, **kwargs):
        from harness.dbal_cli import first_arg
        return first_arg(args, kwargs).means[self.i]

    def predict_conditional_variance(self, *args, **kwargs):
        from harness.dbal_cli import first_arg
        return first_arg(args, kwargs).variances[self.i]


class _StubThetas:
    def __init__(self, n):
        self.n_thetas = n

    def get_theta(self, *args, **kwargs):
        from harness.dbal_cli import first_arg
        return _StubTheta(int(first_arg(args, kwargs)))


class _StubDM:
    def __init__(self, d):
        self.d = d

    def to_dense(self, *args, **kwargs):
        return self.d


def triples_of_kernel_call(log_d, log_p, log_v):
    """the triples ONE kernel invocation used, read off the gathers on its input arrays (never off the generator, so it
    also works when the kernel is handed precomputed triples through some new argument); None if unobservable"""
    dkeys = [k for k in log_d if len(k) == 2 and len(k[0]) == len(k[1])]
    if len(dkeys) == 3:
        (a1, b1), (a2, b2), (a3, b3) = dkeys
        if not (np.array_equal(a1, a3) and np.array_equal(b1, a2) and np.array_equal(b2, b3)):
            return "pairs", None
        cols = (a1, b1, b2)
        for lg in (log_p, log_v):
            seen = [k[0] for k in lg if len(k) == 1]
            if any(not any(np.array_equal(arr, c_) for c_ in cols) for arr in seen):
                return "inconsistent", None
        return "distance-matrix", [(int(i), int(j), int(l)) for i, j, l in zip(*cols)]
    uniq = []
    for k in log_p + log_v:
        if len(k) == 1 and not any(np.array_equal(k[0], u) for u in uniq):
            uniq.append(k[0])
    if len(uniq) == 3 and len(set(len(u) for u in uniq)) == 1:
        return "predictions/variances", [tuple(sorted((int(i), int(j), int(l)), reverse=True)) if len({int(i), int(j), int(l)}) == 3
                                         else (int(i), int(j), int(l)) for i, j, l in zip(*uniq)]
    return "unobserved", None


def scorer_reuse_case(res, gd, ns, max_triples, max_chunk, seed):
    """ONE GaussianDBALScorer object scores successive rounds with DIFFERENT numbers of posterior samples `ns` (and different
    distance matrices, plates), as an in-process active-learning loop does.  In every round and every kernel invocation of that
    round the triples actually gathered must be min(C(n,3), max_triples) pairwise distinct in-range triples of THAT round's n,
    and all C(n,3) of them when the budget covers them."""
    case = mk({"kind": "reuse", "ns": list(ns), "max_triples": max_triples, "max_chunk": max_chunk, "seed": seed})
    g = np.random.default_rng(seed)
    scorer = gd.GaussianDBALScorer(max_chunk=max_chunk, max_triples=max_triples)
    rng = RecGen(seed, adversarial=True)
    kernel = gd.dbal_fast_gauss_scoring_vectorized
    per_call = []

    def wrapped(*a, **k):
        # wrap the three arrays in recorders and pass EVERYTHING else through untouched (also arguments this harness does not know)
        try:
            logs = ([], [], [])
            names = ("predictions", "variances", "distance_matrix")
            a2, k2 = list(a), dict(k)
            for pos, (name, lg) in enumerate(zip(names, logs)):
                if name in k2:
                    k2[name] = RecordingArray(np.asarray(k2[name]), lg)
                elif pos < len(a2):
                    a2[pos] = RecordingArray(np.asarray(a2[pos]), lg)
        except Exception:  # noqa
            res.count("wrapper.unexpected-call")
            return kernel(*a, **k)
        out = kernel(*a2, **k2)
        per_call.append(logs)
        return out

    gd.dbal_fast_gauss_scoring_vectorized = wrapped
    try:
        for rnd, n in enumerate(ns):
            del per_call[:]
            sizes = [int(x) for x in g.integers(1, 4, size=int(g.integers(1, 5)))]
            plates = {10 * rnd + i: _StubPlate(g.normal(size=(n, L)), g.uniform(0.5, 2.0, size=(n, L))) for i, L in enumerate(sizes)}
            d = g.uniform(0.1, 1.0, size=(n, n))
            d = (d + d.T) / 2
            np.fill_diagonal(d, 0.0)
            where = dict(case, round=rnd, n_thetas=n)
            try:
                out = scorer.score(plates=plates, distance_matrix=_StubDM(d), samples=_StubThetas(n), rng=rng, progress_bar=False)
            except Exception as e:  # noqa
                if own_fault(res, e, case, "reuse"):
                    return
                res.fail("a scorer object used before with %s posterior samples raises when scoring with %d" % (list(ns[:rnd]), n), case,
                         {"round": rnd, "error": "%s: %s" % (type(e).__name__, str(e)[:200])}, "scores", signature="C15:reuse-raises")
                return
            res.evaluations += 1
            total = math.comb(n, 3)
            want_n = min(total, max_triples)
            if len(per_call) != int(math.ceil(len(plates) / max_chunk)):
                res.notes.append("reuse: %d kernel invocations observed for %d plates, max_chunk %d" % (len(per_call), len(plates), max_chunk))
            for inv, (lp, lv, ld) in enumerate(per_call):
                how, triples = triples_of_kernel_call(ld, lp, lv)
                if triples is None:
                    res.count("reuse.unobserved")
                    continue
                obs = {"round": rnd, "n_thetas": n, "kernel_call": inv, "n_triples": len(triples), "distinct": len(set(triples)),
                       "first": [list(t) for t in triples[:5]], "observed_via": how, "previous_n_thetas": list(ns[:rnd])}
                bad_t = next((t for t in triples if check_valid(t, n, 3)), None)
                if bad_t is not None:
                    res.fail("triple used for scoring is not i>j>l within range (scorer object reused with another number of posterior samples)",
                             case, dict(obs, bad=list(bad_t)), "n_thetas > i > j > l >= 0", signature="C15:reuse-range")
                    return
                if len(set(triples)) != len(triples):
                    res.fail("triples used for scoring are not pairwise distinct (scorer object reused)", case, obs, "pairwise distinct",
                             signature="C15:reuse-distinct")
                    return
                if len(triples) != want_n and total > max_triples:
                    res.disagree("C15:reuse-count", case, {"round": rnd, "n_triples": len(triples)}, {"n_triples": want_n})     # sub-sampling: not stated
                if total <= max_triples and len(set(triples)) != total:
                    res.fail("budget covers all triples but not all triples are used (scorer object reused)", case, obs, "all C(n,3) triples",
                             signature="C15:reuse-all")
                    return
            if rnd >= 1:
                res.count("reuse.round_after_%s_n.%s" % ("smaller" if ns[rnd - 1] < n else "larger" if ns[rnd - 1] > n else "equal",
                                                        "exhaustive" if total <= max_triples else "subsampled"))
                res.nontrivial.add(("reuse", tuple(ns[:rnd + 1]), max_triples))
                res.traces_validated += 1
    finally:
        gd.dbal_fast_gauss_scoring_vectorized = kernel


class observed_kernel:
    """context manager: wraps the three arrays every kernel invocation receives in recorders (all other arguments, also ones this
    harness does not know such as precomputed triples, pass through untouched); yields the list of per-invocation gather logs"""

    def __init__(self, gd):
        self.gd, self.per_call = gd, []

    def __enter__(self):
        self.kernel = kernel = self.gd.dbal_fast_gauss_scoring_vectorized
        per_call = self.per_call

        def wrapped(*a, **k):
            try:
                logs = ([], [], [])
                a2, k2 = list(a), dict(k)
                for pos, (name, lg) in enumerate(zip(("predictions", "variances", "distance_matrix"), logs)):
                    if name in k2:
                        k2[name] = RecordingArray(np.asarray(k2[name]), lg)
                    elif pos < len(a2):
                        a2[pos] = RecordingArray(np.asarray(a2[pos]), lg)
            except Exception:  # noqa
                return kernel(*a, **k)
            out = kernel(*a2, **k2)
            per_call.append(logs)
            return out

        self.gd.dbal_fast_gauss_scoring_vectorized = wrapped
        return per_call

    def __exit__(self, *exc):
        self.gd.dbal_fast_gauss_scoring_vectorized = self.kernel
        return False


def check_used(res, case, logs, n, budget, cls, extra=None):
    """the property's clauses on the triples ONE kernel invocation gathered: in range i>j>l, pairwise distinct, all C(n,3) when the budget
    covers them (concrete oracles); their number in the sub-sampling regime is compared as a tie.  Returns the triples or None."""
    lp, lv, ld = logs
    how, triples = triples_of_kernel_call(ld, lp, lv)
    if triples is None:
        res.count("class.%s.unobserved" % cls)
        return None
    total = math.comb(n, 3)
    obs = dict({"n_thetas": n, "budget": budget, "n_triples": len(triples), "distinct": len(set(triples)), "first": [list(t) for t in triples[:5]],
                "observed_via": how}, **(extra or {}))
    bad_t = next((t for t in triples if check_valid(t, n, 3)), None)
    if bad_t is not None:
        res.fail("triple used for scoring is not i>j>l within range [%s]" % cls, case, dict(obs, bad=list(bad_t)), "n_thetas > i > j > l >= 0", signature="C15:%s-range" % cls)
        return None
    if len(set(triples)) != len(triples):
        res.fail("triples used for scoring are not pairwise distinct [%s]" % cls, case, obs, "pairwise distinct", signature="C15:%s-distinct" % cls)
        return None
    if total <= budget and len(set(triples)) != total:
        res.fail("budget covers all triples but not all triples are used [%s]" % cls, case, obs, "all C(n,3) = %d triples" % total, signature="C15:%s-all" % cls)
        return None
    if total > budget and len(triples) != budget:
        res.disagree("C15:%s-count" % cls, case, {"n_triples": len(triples)}, {"n_triples": budget})
    return triples


def _tiny_inputs(g, n, n_plates=1):
    sizes = [int(x) for x in g.integers(1, 3, size=n_plates)]
    means = [g.normal(size=(n, L)) for L in sizes]
    hv = g.uniform(0.5, 2.0, size=(n_plates, n))
    variances = [hv[k][:, None] * np.ones((n, L)) for k, L in enumerate(sizes)]
    d = g.uniform(0.1, 1.0, size=(n, n))
    d = (d + d.T) / 2
    np.fill_diagonal(d, 0.0)
    return means, variances, hv, d


def entry_call(gd, entry, n, budget, rng, g, scorer=None):
    """one call of an entry point on fresh tiny inputs"""
    means, variances, hv, d = _tiny_inputs(g, n, int(g.integers(1, 3)))
    if entry == "kernel":
        W = max(m.shape[1] for m in means)
        pm = np.zeros((len(means), n, W))
        pv = np.full((len(means), n, W), np.nan)
        for i, (m, v) in enumerate(zip(means, variances)):
            pm[i, :, :m.shape[1]] = m
            pv[i, :, :v.shape[1]] = v
        return gd.dbal_fast_gauss_scoring_vectorized(pm, pv, d, rng, max_combos=budget)
    if entry == "heteroscedastic":
        return gd.dbal_fast_gaussian_scoring_heteroscedastic(means, variances, d, rng, max_combos=budget)
    if entry == "homoscedastic":
        return gd.dbal_fast_gaussian_scoring_homoscedastic(means, hv, d, rng, max_combos=budget)
    sc = scorer if scorer is not None else gd.GaussianDBALScorer(max_chunk=50, max_triples=budget)
    return sc.score(plates={i: _StubPlate(m, v) for i, (m, v) in enumerate(zip(means, variances))}, distance_matrix=_StubDM(d),
                    samples=_StubThetas(n), rng=rng, progress_bar=False)


def classes_case(res, gd, cls, params, seed):
    """hardening classes 10-13 on the call-site stream; every failing case is replayable from (cls, params, seed)"""
    case = mk({"kind": "class", "class": cls, "params": params, "seed": seed})
    g = np.random.default_rng(seed)
    try:
        with observed_kernel(gd) as pc:
            if cls == "identity-temporaries":
                # every argument (arrays, generator, scorer) is a temporary; only the observation is kept.  CPython hands the freed
                # addresses out again, so anything memoised by id() of an argument returns the triples of ANOTHER n_thetas.
                for rnd, n in enumerate(params["ns"]):
                    del pc[:]
                    entry_call(gd, params["entries"][rnd % len(params["entries"])], n, params["budget"], RecGen(int(g.integers(2 ** 31))), g)
                    for logs in pc:
                        if check_used(res, case, logs, n, params["budget"], cls, {"round": rnd, "previous_n_thetas": params["ns"][:rnd]}) is None:
                            return
                    res.count("class.identity-temporaries")
            elif cls == "reuse-other-seed":
                n, budget = params["n"], params["budget"]
                means, variances, hv, d = _tiny_inputs(g, n, 3)
                plates = {i: _StubPlate(m, v) for i, (m, v) in enumerate(zip(means, variances))}
                sc = gd.GaussianDBALScorer(max_chunk=params["max_chunk"], max_triples=budget)
                s1, s2 = int(g.integers(2 ** 31)), int(g.integers(2 ** 31))
                sc.score(plates=plates, distance_matrix=_StubDM(d), samples=_StubThetas(n), rng=RecGen(s1), progress_bar=False)
                del pc[:]
                rb = RecGen(s2)
                sc.score(plates=plates, distance_matrix=_StubDM(d), samples=_StubThetas(n), rng=rb, progress_bar=False)
                second = []
                for logs in pc:
                    t = check_used(res, case, logs, n, budget, cls, {"call": "second, other generator"})
                    if t is None:
                        return
                    second.append(t)
                del pc[:]
                rf = RecGen(s2)
                gd.GaussianDBALScorer(max_chunk=params["max_chunk"], max_triples=budget).score(
                    plates=plates, distance_matrix=_StubDM(d), samples=_StubThetas(n), rng=rf, progress_bar=False)
                fresh = [triples_of_kernel_call(ld, lp, lv)[1] for (lp, lv, ld) in pc]
                if [sorted(t) for t in second] != [sorted(t or []) for t in fresh] or rb.bit_generator.state != rf.bit_generator.state:
                    # which triples a given seed selects / how much the generator advances is C18's subject: tie only
                    res.disagree("C15:reuse-other-seed-trace", case, {"second_call_first_triples": [t[:3] for t in second][:2]},
                                 {"fresh_scorer_first_triples": [(t or [])[:3] for t in fresh][:2]})
                res.count("class.reuse-other-seed")
            elif cls == "instalments":
                n, budget = params["n"], params["budget"]
                sc = gd.GaussianDBALScorer(max_chunk=params["max_chunk"], max_triples=budget)
                rng = RecGen(int(g.integers(2 ** 31)))
                for part in range(params["parts"]):
                    del pc[:]
                    entry_call(gd, "scorer", n, budget, rng, g, scorer=sc)
                    for logs in pc:
                        if check_used(res, case, logs, n, budget, cls, {"instalment": part}) is None:
                            return
                res.count("class.instalments")
            elif cls in ("width-boundaries", "budget-vs-default"):
                n, budget = params["n"], params["budget"]
                for entry in ("kernel", "heteroscedastic", "homoscedastic", "scorer"):
                    del pc[:]
                    entry_call(gd, entry, n, budget, RecGen(int(g.integers(2 ** 31))), g)
                    for logs in pc:
                        if check_used(res, case, logs, n, budget, cls, {"entry": entry}) is None:
                            return
                    res.count("class.%s" % cls)
    except Exception as e:  # noqa
        if own_fault(res, e, case, cls):
            return
        res.fail("scoring raises on valid input [%s]" % cls, case, "%s: %s" % (type(e).__name__, str(e)[:200]), "scores", signature="C15:%s-raises" % cls)
        return
    res.evaluations += 1
    res.nontrivial.add(("class", cls, repr(sorted(params.items()))))


def cli_case(res, case):
    """HARDENING item 18: the kernel's call site reached through the real `batchie.cli.calculate_scores.main()` with the scorer's budget and
    batch size given as `--scorer-param max_triples=.. / max_chunk=..` (real h5 files; thetas and distances split over two files).  Concrete
    oracles: the triples every kernel invocation really gathered are in range, pairwise distinct and all C(n,3) when the budget given on the
    command line covers them.  What scorer and kernel RECEIVE (max_triples, max_chunk, max_combos, generator, n_thetas) and the number of
    sub-sampled triples are ties."""
    from harness import dbal_cli as dc
    n, budget, mc = case["n"], case["budget"], case["max_chunk"]
    rec = dc.run_cli(case["subseed"], n, budget, mc, case["seed"], verbose=case.get("verbose", False), split_files=case.get("split", True),
                     n_chunks=case.get("n_chunks", 1), chunk_index=case.get("chunk_index", 0), many_rows=n > 64)
    res.evaluations += 1
    for f_ in rec.get("faults", []):
        res.count("wrapper.unexpected-call")
        res.disagree("C15:wrapper:entry-point", case, f_, "the harness's recorder accepts the call")
    if "error" in rec:
        if rec.get("error_in_harness"):
            res.count("wrapper.unexpected-call")
            res.disagree("C15:wrapper:entry-point", case, rec["error"], "the harness's recorder accepts the call")
        else:
            res.fail("calculate_scores.main() raises on valid input", case, rec["error"], "a scores file", signature="C15:entry-point-raises")
        return None
    used = []
    for c_ in rec["score_calls"]:
        for inv, k in enumerate(c_["kernel"]):
            t = check_used(res, case, k["logs"], n, budget, "entry-point", {"kernel_call": inv, "kernel_received_max_combos": str(k["max_combos"]),
                                                                            "scorer_received": c_["attrs"]})
            if t is None:
                return None
            used.append(sorted(t))
    got = {"init": [{k_: i[k_] for k_ in ("max_chunk", "max_triples", "types")} for i in rec["init"]],
           "kernel_max_combos": sorted(set(str(k["max_combos"]) for c_ in rec["score_calls"] for k in c_["kernel"])),
           "kernel_same_rng": all(k["same_rng"] for c_ in rec["score_calls"] for k in c_["kernel"]),
           "n_thetas": sorted(set(c_["n_thetas"] for c_ in rec["score_calls"]))}
    want = {"init": [{"max_chunk": mc, "max_triples": budget, "types": ["int", "int"]}], "kernel_max_combos": [str(budget)] if used else [],
            "kernel_same_rng": True, "n_thetas": [n] if rec["score_calls"] else []}
    if got != want:
        res.disagree("C15:entry-point-received", case, {k_: got[k_] for k_ in want if got[k_] != want[k_]}, {k_: want[k_] for k_ in want if got[k_] != want[k_]})
    res.count("class.entry-point.calculate_scores")
    res.nontrivial.add(("cli", n, budget, mc))
    res.traces_validated += 1
    return used


def blackbox_case(res, gd, n_thetas, max_combos, seed):
    """no instrumentation at all: with all distances 1, all means 0, all variances 1 and E experiments every triple of
    three DIFFERENT samples weighs 3 * 3^(-E/2), a 'triple' with a repeated sample weighs 2 * ... or 0: the score must be
    log(3 K) - E/2 log 3 with K = min(C(n,3), max_combos)"""
    case = mk({"kind": "blackbox", "n_thetas": n_thetas, "max_combos": max_combos, "seed": seed})
    E = 2
    d = np.ones((n_thetas, n_thetas)) - np.eye(n_thetas)
    try:
        sc = gd.dbal_fast_gauss_scoring_vectorized(np.zeros((1, n_thetas, E)), np.ones((1, n_thetas, E)), d,
                                                   np.random.default_rng(seed), max_combos=max_combos)
    except Exception as e:  # noqa
        if not own_fault(res, e, case, "blackbox"):
            res.fail("scoring raises", case, "%s: %s" % (type(e).__name__, e), "scores", signature="C15:callsite-raises")
        return
    res.evaluations += 1
    K = min(math.comb(n_thetas, 3), max_combos)
    want = math.log(3.0 * K) - 0.5 * E * math.log(3.0)
    if not abs(float(sc[0]) - want) <= 1e-9 * max(1.0, abs(want)) and math.comb(n_thetas, 3) > max_combos:
        res.disagree("C15:callsite-blackbox", case, {"score": float(sc[0])}, {"score": want, "K": K})
    elif not abs(float(sc[0]) - want) <= 1e-9 * max(1.0, abs(want)):
        res.fail("score with unit distances/variances is not log(3 K) - E/2 log 3: not K triples of three different samples are used", case,
                 {"score": float(sc[0]), "implied_K_times_3": math.exp(float(sc[0]) + 0.5 * E * math.log(3.0))}, {"score": want, "K": K},
                 signature="C15:callsite-blackbox")
    res.count("callsite.blackbox")


def run(ctx, res):
    from batchie.scoring import gaussian_dbal as gd
    fn = gd.get_combination_at_sorted_index
    res.rule = RULE
    lines, expect, meta = [], [], []

    # ---------- A. exhaustive small scope ----------------------------------------------------
    nexh = ctx.scale(14, 24, 16)
    for n in range(0, nexh + 1):
        ks = list(range(0, min(n, 5) + 1))
        if n <= 8:
            ks = list(range(0, n + 1))
        for k in ks:
            with verbose_slice(n in (5, 7, nexh)):
                exhaustive(res, fn, n, k, lines, expect, meta)
            if n in (5, 7, nexh):
                res.count("class.verbose-logging")
            if k >= 2 and math.comb(n, k) >= 3:
                res.nontrivial.add(("exh", n, k))
            res.count("exhaustive.pairs")
    res.count("exhaustive.indices", len(lines))

    # ---------- B. sampled indices, production regime ------------------------------------------
    rng = ctx.subrng("sampled")
    target = ctx.scale(2000, 200000, 20000)
    per = ctx.scale(12, 60, 30)
    nks = [(3000, 3), (2999, 3), (1000, 3), (400, 3), (100, 3), (3000, 2), (3000, 4), (500, 5), (64, 1), (37, 4),
           (3000, 5), (2500, 6), (300, 12), (100, 50), (64, 32), (70, 69)]  # big-integer regime: beyond float/int64 exactness
    done = 0
    guard = 0
    while done < target and guard < 100000:
        guard += 1
        if nks:
            n, k = nks.pop(0)
        else:
            n = int(round(math.exp(rng.uniform(math.log(6), math.log(3000)))))
            k = rng.choice([1, 2, 3, 3, 3, 3, 4, 5])
            if k > n:
                continue
        for idx in sample_indices(rng, n, k, per):
            as_np = (idx + 1 < 2 ** 62) and rng.random() < 0.5
            with verbose_slice(guard % 6 == 1):
                out = oracle_point(res, fn, idx, n, k, as_np)
            if guard % 6 == 1:
                res.count("class.verbose-logging")
            lines.append("unrank %d %d %d" % (idx, n, k))
            expect.append(out if isinstance(out, str) else show(out))
            meta.append(("sampled", idx, n, k))
            done += 1
            if k >= 2 and math.comb(n, k) >= 3:
                res.nontrivial.add(("pt", idx, n, k))
            res.count("sampled.k=%d" % k)
            res.count("sampled.n<=100" if n <= 100 else ("sampled.n<=1000" if n <= 1000 else "sampled.n<=3000"))
            if len(res.oracle_failures) >= 20:
                break
        if len(res.oracle_failures) >= 20:
            break
    # every C(m,3) boundary of one production-size n (thorough / search), of n = 300 (quick)
    nb = ctx.scale(300, 3000, 1000)
    for m in range(3, nb + 1):
        b = math.comb(m, 3)
        for idx in (b - 1, b):
            if 0 <= idx < math.comb(nb, 3):
                with verbose_slice(m % 10 == 0):
                    out = oracle_point(res, fn, idx, nb, 3, False, want_successor=(idx == b - 1))
                if m % 10 == 0:
                    res.count("class.verbose-logging")
                lines.append("unrank %d %d %d" % (idx, nb, 3))
                expect.append(out if isinstance(out, str) else show(out))
                meta.append(("boundary", idx, nb, 3))
                res.nontrivial.add(("pt", idx, nb, 3))
                res.count("boundary.C(m,3)")
        if len(res.oracle_failures) >= 20:
            break

    # ---------- C. malformed arguments: tie only (error class / clamped output) ----------------
    mal = [(0, 2, 3), (0, 0, 1), (5, 3, 5), (10, 5, 2), (11, 5, 2), (100, 5, 2), (-1, 5, 2), (-7, 6, 3), (1, 4, 0), (0, 0, 0),
           (35, 7, 3), (1, 1, 1), (3, 3, 1), (2 ** 70, 80, 40)]
    mrng = ctx.subrng("malformed")
    for _ in range(ctx.scale(40, 400)):
        n = mrng.randint(0, 12)
        k = mrng.randint(0, 7)
        idx = mrng.randint(-3, math.comb(n, k) + 3)
        mal.append((idx, n, k))
    for (idx, n, k) in mal:
        o = call(fn, idx, n, k)
        lines.append("unrank %d %d %d" % (idx, n, k))
        expect.append(o if isinstance(o, str) else show(o))
        meta.append(("malformed", idx, n, k))
        res.count("malformed")

    # ---------- D. production call site ---------------------------------------------------------
    crng = ctx.subrng("callsite")
    cs_tie = []
    cs = [(3, 5000), (4, 4), (5, 10), (5, 9), (7, 35), (7, 36), (9, 5000), (12, 220), (12, 100), (30, 50), (33, 5000), (32, 5000), (32, 4960),
          (3, 1), (4, 3), (6, 19), (6, 20), (6, 21)]
    for _ in range(ctx.scale(30, 300)):
        n = crng.randint(3, 16)
        t = math.comb(n, 3)
        cs.append((n, crng.choice([t, t + 1, 5000, max(1, t - 1), max(1, t // 2), 1, 2 * t, crng.randint(1, t + 3)])))
    # n_thetas in the hundreds and thousands (C(n,3) beyond 2^31 from n = 2346 on): the sub-sampling regime of production
    big = [(100, 5000), (400, 1500), (1000, 600), (2345, 250), (2400, 300), (3000, 300)]
    for _ in range(ctx.scale(3, 40)):
        n = int(round(math.exp(crng.uniform(math.log(60), math.log(3000)))))
        big.append((n, crng.randint(50, max(60, 200000 // n))))
    for i, (n, mc) in enumerate(cs + big):
        with verbose_slice(i % 5 == 1 or n in (257, 2400)):
            callsite_case(res, gd, n, mc, crng.randrange(2 ** 31), adversarial=(i % 3 == 2) or n > 64, tie=cs_tie)
        if i % 5 == 1:
            res.count("class.verbose-logging")
        if len(res.oracle_failures) >= 20:
            break
    for bi, (n, mc) in enumerate([(3, 1), (3, 5000), (4, 4), (5, 7), (10, 120), (10, 5000), (12, 100), (33, 5000), (40, 5000), (200, 5000), (1500, 2000)]):
        with verbose_slice(bi % 3 == 1):
            blackbox_case(res, gd, n, mc, crng.randrange(2 ** 31))
        if bi % 3 == 1:
            res.count("class.verbose-logging")
    # one scorer object over rounds with changing numbers of posterior samples (exhaustive budget for all rounds, for some, for none)
    reuse = [((4, 7, 5), 5000, 50), ((7, 4), 5000, 2), ((5, 9, 3, 9), 84, 1), ((9, 5), 84, 50), ((6, 8), 20, 2), ((8, 6), 20, 1),
             ((12, 30, 10), 100, 3), ((30, 12), 100, 50), ((3, 4), 5000, 50), ((4, 3), 1, 1), ((40, 60, 25), 5000, 50), ((300, 200, 400), 500, 2)]
    for _ in range(ctx.scale(10, 100)):
        k = crng.randint(2, 4)
        ns = tuple(crng.randint(3, 14) for _ in range(k))
        cmax = max(math.comb(x, 3) for x in ns)
        cmin = min(math.comb(x, 3) for x in ns)
        reuse.append((ns, crng.choice([5000, cmax, cmax + 1, cmin, max(1, cmin - 1), crng.randint(1, cmax)]), crng.choice([1, 2, 3, 50])))
    for ri, (ns, mt, mc) in enumerate(reuse):
        with verbose_slice(ri % 4 == 0):
            scorer_reuse_case(res, gd, ns, mt, mc, crng.randrange(2 ** 31))
        if ri % 4 == 0:
            res.count("class.verbose-logging")
        if len(res.oracle_failures) >= 20:
            break
    # item 18: the call site through the real entry point; item 19: a third of them with --verbose (same triples as the quiet run)
    kseeds = ctx.subrng("cli")
    C34 = math.comb(34, 3)
    cli_cfg = [(6, 20, 2, 0), (8, 10, 50, 3), (5, 5000, 1, 0), (34, C34, 50, 7), (36, 6000, 2, 0), (300, 200, 50, 1), (4, 3, 1, 0), (3, 1, 50, 5),
               (34, 20000, 3, 0), (9, 84, 2, 2), (9, 85, 2, 0), (9, 83, 50, 4)]
    for _ in range(ctx.scale(0, 15, 8)):
        nn = kseeds.choice([3, 4, 5, 6, 7, 9, 12])
        tt = math.comb(nn, 3)
        cli_cfg.append((nn, kseeds.choice([tt, tt + 1, max(1, tt - 1), max(1, tt // 2), 5000, 1]), kseeds.choice([1, 2, 3, 50]), kseeds.choice([0, 1, 99])))
    for ci_, (nn, bud, mc_, sd_) in enumerate(cli_cfg):
        case = {"kind": "cli", "subseed": kseeds.randrange(2 ** 48), "n": nn, "budget": bud, "max_chunk": mc_, "seed": sd_, "split": ci_ % 3 != 1,
                "n_chunks": 2 if ci_ % 4 == 3 else 1, "chunk_index": 1 if ci_ % 8 == 3 else 0, "verbose": False}
        used = cli_case(res, case)
        if used is not None and (ci_ % 3 == 0 or nn >= 34):
            vcase = dict(case, verbose=True)
            vused = cli_case(res, vcase)
            res.count("class.verbose-logging")
            res.count("class.verbose-logging.cli")
            if vused is not None and vused != used:
                # the same seed selecting other triples under --verbose: determinism is C18's subject -> tie
                res.disagree("C15:entry-point-verbose", vcase, {"first": [u[:3] for u in vused][:2]}, {"first": [u[:3] for u in used][:2]})
        if len(res.oracle_failures) >= 20:
            break
    # hardening classes 10-13 on the call-site stream
    cl = [("identity-temporaries", {"ns": [7, 6, 5, 7, 5, 6, 5, 8, 5], "budget": 10, "entries": ["kernel"]}),
          ("identity-temporaries", {"ns": [5, 9, 4, 9, 5, 4, 6], "budget": 5000, "entries": ["kernel", "scorer", "heteroscedastic", "homoscedastic"]}),
          ("identity-temporaries", {"ns": [6, 5, 6, 4, 5, 4], "budget": 4, "entries": ["scorer"]}),
          ("reuse-other-seed", {"n": 6, "budget": 20, "max_chunk": 50}), ("reuse-other-seed", {"n": 8, "budget": 12, "max_chunk": 1}),
          ("reuse-other-seed", {"n": 5, "budget": 5000, "max_chunk": 2}),
          ("instalments", {"n": 6, "budget": 20, "max_chunk": 50, "parts": 4}), ("instalments", {"n": 7, "budget": 9, "max_chunk": 1, "parts": 3}),
          ("instalments", {"n": 5, "budget": 5000, "max_chunk": 2, "parts": 3})]
    for nb in (127, 128, 129, 255, 256, 257):
        cl.append(("width-boundaries", {"n": nb, "budget": crng.choice([127, 128, 255, 256, 257, 300])}))
    for nb, bud in ((34, 4999), (34, 5001), (34, 5984), (34, 20000), (36, 5001), (36, 7140), (36, 7141), (40, 20000), (36, 6000)):
        cl.append(("budget-vs-default", {"n": nb, "budget": bud}))
    for qi, (cls, params) in enumerate(cl):
        with verbose_slice(qi % 3 == 0 or params.get("n") in (256, 257)):
            classes_case(res, gd, cls, params, crng.randrange(2 ** 31))
        if qi % 3 == 0:
            res.count("class.verbose-logging")
        if len(res.oracle_failures) >= 20:
            break
    # fewer than three posterior samples: tie only
    for (n, mc) in [(2, 10), (0, 5), (1, 1)]:
        try:
            gd.dbal_fast_gauss_scoring_vectorized(np.zeros((1, n, 1)), np.ones((1, n, 1)), np.zeros((n, n)), np.random.default_rng(0), max_combos=mc)
            e = "ok"
        except Exception as ex:  # noqa
            e = "err:" + type(ex).__name__
        cs_tie.append(("unrank.callsite %d %d -" % (n, mc), e, {"kind": "callsite-malformed", "n_thetas": n, "max_combos": mc}))

    # ---------- tie: generated Lean vs implementation ---------------------------------------------
    drv = ctx.driver
    if drv is not None:
        got = drv.ask(lines)
        for l, e, g_, m in zip(lines, expect, got, meta):
            if e != g_:
                res.disagree("C15:unrank:%s" % m[0], {"line": l}, e[:200], g_[:200])
        got = drv.ask([t[0] for t in cs_tie])
        for (l, e, case), g_ in zip(cs_tie, got):
            # the order in which the kernel lines the triples up is immaterial (C15_callsite speaks of the multiset)
            parts = g_.split("|")
            if len(parts) == 3 and parts[2] != "-":
                try:
                    parts[2] = ";".join("%d,%d,%d" % t for t in sorted(tuple(int(x) for x in t.split(",")) for t in parts[2].split(";")))
                    g_ = "|".join(parts)
                except ValueError:
                    pass
            if e != g_:
                res.disagree("C15:callsite", case, e[:300], g_[:300])
        res.count("tie.lines", len(lines) + len(cs_tie))
        res.count("tie.callsite_lines", len(cs_tie))
        res.traces_validated += len(lines) + len(cs_tie)
    res.sample({"kind": "point", "index": 1000000007, "n": 3000, "k": 3, "out": list(call(fn, 1000000007, 3000, 3))})
    res.sample({"kind": "exhaustive", "n": 5, "k": 2, "out": [list(call(fn, i, 5, 2)) for i in range(10)]})
    res.sample({"kind": "callsite", "n_thetas": 7, "max_combos": 35, "adversarial": False})
    res.sample({"kind": "callsite", "n_thetas": 3000, "max_combos": 300, "adversarial": True})


def replay(ctx, case, res):
    if case.get("kind") == "cli":
        cli_case(res, case)          # passes --verbose itself
        return
    with verbose_slice(case.get("verbose")):
        _replay(ctx, case, res)


def _replay(ctx, case, res):
    from batchie.scoring import gaussian_dbal as gd
    fn = gd.get_combination_at_sorted_index
    kind = case.get("kind")
    if kind == "point":
        oracle_point(res, fn, case["index"], case["n"], case["k"], case.get("numpy_index", False))
    elif kind == "exhaustive":
        exhaustive(res, fn, case["n"], case["k"], [], [], [])
    elif kind == "callsite":
        callsite_case(res, gd, case["n_thetas"], case["max_combos"], case["seed"], adversarial=case.get("adversarial", False))
    elif kind == "class":
        classes_case(res, gd, case["class"], case["params"], case["seed"])
    elif kind == "reuse":
        scorer_reuse_case(res, gd, case["ns"], case["max_triples"], case["max_chunk"], case["seed"])
    elif kind == "blackbox":
        blackbox_case(res, gd, case["n_thetas"], case["max_combos"], case["seed"])
    else:
        run(ctx, res)
