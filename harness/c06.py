"""C06 -- every candidate plate is scored once; the minimum-score allowed plate is chosen.

Real code exercised: `score_chunk`, `ChunkedScoresHolder` (add/save_h5/load_h5/concat/combine/
plate_id_with_minimum_score), `select_next_plate`, `RandomScorer`, `SizeScorer`, and for a share of the
cases the two command line `main()`s on saved files (mocked argv), with a harness-supplied `Scorer`
returning prescribed scores and a harness-supplied filtering `PlatePolicy` (the plug-in interfaces).

Oracles (on the implementation alone, independent of the Lean model):
  cover      multiset of plate ids handed to the scorer over chunk indices 0..n-1 == unobserved plates not in
             the batch, each once; chunk sizes differ by at most one
  condition  no batch: the plate itself; batch: selection inside (plate U batch plates), conditions
             (sample id, treatment ids) pairwise distinct, same condition set as the union, every kept row is
             the FIRST row of the union with its condition
  holder     total scorer: the holder lists exactly the handed plates once with the prescribed scores;
             save/load is the identity; concat in any order keeps the multiset of (plate, score)
  select     returned plate unobserved, not in batch, allowed by the policy, no allowed plate strictly lower;
             None  <=>  nothing allowed; CLI writes the id or "-1"; the same on STALE score files (computed for an
             earlier, smaller batch: they still list plates that are in the batch now)
Not oracles (counted only; the tie reports a change): which experiment represents a repeated condition (the code keeps
the first), balance of the chunk sizes -- neither is a clause of the property.
Tie: the same inputs go to the Lean model (`inputs`, `chunk`, `pipeline`, `pipeline2`, `split` lines).
"""
import copy
import itertools
import logging
import os
import shutil
import sys
import tempfile

import numpy as np

from vlib import common
from harness import screens as S

common.use_repo_sources()

RULE = ("random small screens (1-7 plates, arity 1-3, 1-2 samples, few names/doses so conditions repeat across plates, "
        "plate-uniform masks incl. fully observed / fully unobserved), random batches (observed, unobserved and unknown ids), "
        "prescribed scores from a pool with ties, -inf and 0.0, every n_chunks in 1..candidates+3 and every chunk index, "
        "chunk files combined in all orders (<=5 chunks, thorough) or sampled orders, with no policy and with a filtering "
        "policy; for the last chunk count of every case with a batch also STALE score files (scored for a prefix of the batch, so they list plates "
        "that are in the batch now) through select_next_plate and its CLI; one wide screen with 300 plates (thorough: 150, 300, 600; ids beyond a signed / unsigned byte, "
        "ties at -inf on large ids); thorough adds the exhaustive (observed?, in batch?) assignment of every plate for fixed screens with <=6 plates. "
        "Hardening classes generated in every run (counters class.*): crafted cases (packed-key radix neighbours (s,k,max)/(s,k+1,control) and "
        "(s,max,x)/(s+1,control,x) in candidate U batch, plate id 0 the strict minimum with score 0.0, plate 0 in the batch, batch of 3), one scorer / policy "
        "object reused for all calls and screens vs fresh ones, screen / batch list / holder snapshotted around every call, subsets handed to the scorer "
        "re-read after later calls, holder attributes compared by introspection after save/load, np.int64 batch ids, names >= 25 chars, supplied mappings "
        "with id gaps, an empty chunk file first, a plate with 70 wells, and 12 cases repeated in a second interpreter with another PYTHONHASHSEED. "
        "Non-trivial: >=2 candidates, n_chunks>=2, and either a batch that conditions the plates or >=2 allowed plates with a tie or -inf.")

SCORE_POOL = [float("-inf"), 0.0, 0.0, 0.5, -2.0, 1.0, 3.25, -2.0, 1e300, 1e-3, 1.000004, 1.0000000000000002, 1e-9, -0.0]


# ------------------------------------------------------------------ tokens
def score_tok(x):
    x = float(x)
    if x == float("-inf"):
        return "ninf"
    if x == float("inf"):
        return "pinf"          # never produced by the unchanged code (unfilled slots are 0.0): shows up as a tie, the oracles decide
    if x != x:
        return "nan"
    n, d = x.as_integer_ratio()
    return "%d/%d" % (n, d)


def ids_tok(l):
    return S.lst(str(int(x)) for x in l)


def show_holder(h):
    return "size=%d|ids=%s|scores=%s|cur=%d" % (int(h.size), ids_tok(h.plate_ids), S.lst(score_tok(x) for x in h.scores), int(h.current_index))


def enc_score(x):
    return "ninf" if x == float("-inf") else float(x).hex()


def dec_score(s):
    return float("-inf") if s == "ninf" else float.fromhex(s)


# ------------------------------------------------------------------ plug-ins
def make_plugins():
    from batchie.core import Scorer, PlatePolicy

    import inspect

    def bind_to(base_fn, self, args, kwargs, names):
        """the named arguments of a call, identified through the signature of the plug-in INTERFACE (extra / renamed-by-keyword arguments of a
        refactored caller do not matter); falls back to keywords, then positions"""
        try:
            b = inspect.signature(base_fn).bind(self, *args, **kwargs)
            return [b.arguments[n] for n in names]
        except Exception:   # noqa: BLE001
            pos = {n: i for i, n in enumerate(list(inspect.signature(base_fn).parameters)[1:])}
            return [kwargs[n] if n in kwargs else args[pos[n]] for n in names]

    class VerifTableScorer(Scorer):
        """returns the prescribed score for every plate it is given (nothing for plates missing from the table).
        Signature-agnostic: `score(self, *args, **kwargs)`; `plates` is found by binding to `Scorer.score`."""
        table = {}
        log = []
        refs = []
        wrapper_errors = []

        def score(self, *args, **kwargs):
            try:
                (plates,) = bind_to(Scorer.score, self, args, kwargs, ["plates"])
                VerifTableScorer.log.append([(int(k), np.asarray(v.selection_vector).copy(), type(v).__name__) for k, v in plates.items()])
                VerifTableScorer.refs.append([(int(k), v, np.asarray(v.selection_vector).copy()) for k, v in plates.items()])
                self.calls = getattr(self, "calls", 0) + 1
                return {k: VerifTableScorer.table[int(k)] for k in plates.keys() if int(k) in VerifTableScorer.table}
            except Exception as e:   # noqa: BLE001
                VerifTableScorer.wrapper_errors.append("%s: %s" % (type(e).__name__, str(e)[:150]))
                VerifTableScorer.log.append([])
                return {}

    class VerifAllowedPolicy(PlatePolicy):
        allowed = set()
        log = []
        wrapper_errors = []

        def filter_eligible_plates(self, *args, **kwargs):
            try:
                batch_plates, unobserved_plates = bind_to(PlatePolicy.filter_eligible_plates, self, args, kwargs, ["batch_plates", "unobserved_plates"])
                VerifAllowedPolicy.log.append(([int(p.plate_id) for p in batch_plates], [int(p.plate_id) for p in unobserved_plates]))
                return [p for p in unobserved_plates if int(p.plate_id) in VerifAllowedPolicy.allowed]
            except Exception as e:   # noqa: BLE001
                VerifAllowedPolicy.wrapper_errors.append("%s: %s" % (type(e).__name__, str(e)[:150]))
                return []

    return VerifTableScorer, VerifAllowedPolicy


_PLUG = {}


def plugins():
    if not _PLUG:
        sc, pol = make_plugins()
        _PLUG["scorer"], _PLUG["policy"] = sc, pol
        # make them discoverable by batchie.introspection.get_class (the CLI's plug-in lookup)
        import batchie.scoring.size as m1
        import batchie.policies.k_per_sample as m2
        m1.VerifTableScorer = sc
        m2.VerifAllowedPolicy = pol
    return _PLUG["scorer"], _PLUG["policy"]


VERBOSE = [0]      # > 0 while a slice runs under vlib.common.verbose_logging()


def quiet_logging():
    if VERBOSE[0]:
        return
    logging.disable(logging.CRITICAL)      # the CLI mains attach a new stream handler on every call
    lg = logging.getLogger("batchie")
    for h in list(lg.handlers):
        lg.removeHandler(h)
    lg.setLevel(logging.ERROR)


class verbose_slice:
    """a slice of the cases runs the way every batchie command runs under -v/--verbose"""

    def __enter__(self):
        self.cm = common.verbose_logging()
        self.cm.__enter__()
        VERBOSE[0] += 1
        return self

    def __exit__(self, *a):
        VERBOSE[0] -= 1
        r = self.cm.__exit__(*a)
        quiet_logging()
        return r


def raised_by_harness(e):
    """True when the innermost frame of the exception is harness code (a plug-in / recording wrapper of ours)"""
    import traceback
    tb = traceback.extract_tb(e.__traceback__)
    return bool(tb) and os.path.abspath(tb[-1].filename).startswith(os.path.join(common.VERIF, "harness"))


def wrapper_trouble(res, case):
    """recording failures of the plug-ins since the last call: a broken tie; True when there were any (the oracles of that case are skipped)"""
    Scorer, Policy = plugins()
    errs = Scorer.wrapper_errors + Policy.wrapper_errors
    if not errs:
        return False
    res.count("wrapper.unexpected-call", len(errs))
    res.disagree("C06:wrapper:plugin-call", {k: v for k, v in dict(case).items() if k not in ("raw", "thetas")}, errs[0],
                 "the call shape the harness plug-ins know")
    del Scorer.wrapper_errors[:], Policy.wrapper_errors[:]
    return True


class Demote:
    """a Result view for inputs OUTSIDE the property's quantifier, or for observations the property text does not speak about: what
    would be an oracle failure becomes a model/implementation disagreement (red as `no-failing-input-found`, never a concrete replay)"""

    def __init__(self, res, why):
        object.__setattr__(self, "_res", res)
        object.__setattr__(self, "_why", why)

    def fail(self, what, case, observed, required, signature=None):
        self._res.count("demoted.%s.%s" % (self._why, signature or what))
        self._res.disagree("C06:demoted:%s:%s" % (self._why, signature or what), {k: v for k, v in dict(case).items() if k not in ("raw", "thetas")},
                           str(observed)[:300], str(required)[:300])

    def __getattr__(self, name):
        return getattr(self._res, name)

    def __setattr__(self, name, value):
        setattr(self._res, name, value)


# ------------------------------------------------------------------ hardening helpers
SHARED = {}


def shared(name, mk):
    """ONE object per kind for the whole run (object reuse across chunks, chunk counts, batches and screens)"""
    if name not in SHARED:
        SHARED[name] = mk()
    return SHARED[name]


def snap_screen(scr):
    out = {}
    for name in ("observations", "observation_mask", "treatment_ids", "sample_ids", "plate_ids", "treatment_names", "treatment_doses",
                 "sample_names", "plate_names"):
        a = np.asarray(getattr(scr, name))
        out[name] = (str(a.dtype), a.shape, np.ascontiguousarray(a).tobytes())
    return out


def holder_state(h):
    """every attribute of a holder, by introspection (arrays with dtype, shape and bytes)"""
    out = {}
    for k, v in sorted(vars(h).items()):
        if isinstance(v, np.ndarray):
            out[k] = ("ndarray", str(v.dtype), v.shape, np.ascontiguousarray(v).tobytes().hex())
        elif isinstance(v, (np.generic, int, float)):
            out[k] = ("scalar", repr(float(v)) if not float(v).is_integer() else repr(int(v)))
        else:
            out[k] = (type(v).__name__, repr(v))
    return out


# ------------------------------------------------------------------ independent expectations
def facts(scr):
    pids = [int(x) for x in scr.plate_ids]
    mask = [bool(x) for x in scr.observation_mask]
    sids = [int(x) for x in scr.sample_ids]
    tids = [tuple(int(y) for y in r) for r in np.asarray(scr.treatment_ids)]
    plates = sorted(set(pids))
    observed = {p: all(m for q, m in zip(pids, mask) if q == p) for p in plates}
    return pids, mask, sids, tids, plates, observed


def expected_candidates(scr, batch):
    pids, mask, sids, tids, plates, observed = facts(scr)
    return [p for p in plates if not observed[p] and p not in batch]


def gen_case(rng, max_plates=7, n_max=16):
    arity = rng.choice([1, 2, 2, 2, 3])
    names = rng.sample(["a", "b", "c", "control", "zz"], rng.randint(2, 3))
    doses = rng.sample([0.0, 1.0, 2.0, 0.5], rng.randint(1, 2))
    npl = min(max_plates, rng.choice([1, 2, 3, 4, 5, 6, 7, 4, 5, 6, 7]))
    while True:
        raw = S.gen_raw(rng, n_max=n_max, arity=arity, names=names, doses=doses, n_plates=npl,
                        n_samples=rng.randint(1, 2), ctrl="control", all_observed=False)
        if len(raw["snames"]) >= min(npl + 2, n_max):
            break
    if raw["mask"] is not None:
        st = {p: rng.random() < 0.3 for p in sorted(set(raw["pnames"]))}
        raw["mask"] = [st[p] for p in raw["pnames"]]
    if rng.random() < 0.2:          # names longer than any fixed-width buffer
        raw["pnames"] = [p_ + "_a_plate_name_longer_than_25_characters" for p_ in raw["pnames"]]
        raw["snames"] = [s_ + "_a_sample_name_longer_than_25_chars" for s_ in raw["snames"]]
    if rng.random() < 0.3 and raw["snames"]:
        # ids that are not positions: mappings of a superset of the data (gaps in sample / treatment ids)
        tm, sm = S.superset_mappings(rng, dict(raw, obs=None, mask=None))
        raw["tmap"] = ([str(x) for x in tm[0]], [float(x) for x in tm[1]], [int(x) for x in tm[2]])
        raw["smap"] = ([str(x) for x in sm[0]], [int(x) for x in sm[1]])
    # mask flavour: mostly random per plate, sometimes all unobserved / all observed / no observations at all
    r = rng.random()
    if r < 0.12:
        raw["mask"] = [False] * len(raw["snames"])
    elif r < 0.17:
        raw["mask"] = [True] * len(raw["snames"])
    elif r < 0.22:
        raw["obs"] = None
        raw["mask"] = None
    elif raw["mask"] is None:
        raw["mask"] = [False] * len(raw["snames"])
    return raw


def gen_batch(rng, plates):
    r = rng.random()
    if r < 0.3:
        return []
    k = rng.randint(1, max(1, min(3, len(plates))))
    b = rng.sample(plates, min(k, len(plates)))
    if rng.random() < 0.1:
        b.append(max(plates) + 5)           # unknown id
    if rng.random() < 0.05:
        b = [max(plates) + 7]               # only unknown ids: ScreenSubset.concat([]) raises
    if rng.random() < 0.1 and b:
        b.append(b[0])                      # repeated id
    return b


# ------------------------------------------------------------------ one case
class Env:
    def __init__(self):
        self.tmp = tempfile.mkdtemp(prefix="verif_c06_")
        self.k = 0
        self.cli_ready = False

    def path(self, stem):
        self.k += 1
        return os.path.join(self.tmp, "%s_%d" % (stem, self.k))

    def cli_files(self):
        """minimal thetas / distance-matrix files the calculate_scores CLI insists on loading"""
        if not self.cli_ready:
            from batchie.core import ThetaHolder
            from batchie.distance_calculation import ChunkedDistanceMatrix
            from batchie.models.sparse_combo import SparseDrugComboMCMCSample
            th = ThetaHolder(n_thetas=2)
            for _ in range(2):
                th.add_theta(SparseDrugComboMCMCSample(W=np.zeros((2, 2)), W0=np.zeros((2,)), V2=np.zeros((3, 2)),
                                                      V1=np.zeros((3, 2)), V0=np.zeros((3,)), alpha=1.0, precision=1.0))
            self.thetas = os.path.join(self.tmp, "thetas.h5")
            th.save_h5(self.thetas)
            dm = ChunkedDistanceMatrix(size=2)
            dm.add_value(1, 0, 1.0)
            self.dm = os.path.join(self.tmp, "dm.h5")
            dm.save(self.dm)
            self.cli_ready = True
        return self.thetas, self.dm

    def close(self):
        shutil.rmtree(self.tmp, ignore_errors=True)


def run_main(mod, argv):
    """the real `batchie.cli.<stage>.main()`; under a verbose slice with `--verbose` (configure_logging resets the level)"""
    import contextlib
    lg = logging.getLogger("batchie")
    handlers, level = list(lg.handlers), lg.level
    old = sys.argv
    sys.argv = list(argv) + (["--verbose"] if VERBOSE[0] else [])
    try:
        with open(os.devnull, "w") as devnull, contextlib.redirect_stderr(devnull), contextlib.redirect_stdout(devnull):
            mod.main()
    finally:
        sys.argv = old
        if VERBOSE[0]:
            lg.handlers = handlers
            lg.setLevel(level)
        quiet_logging()


def check_inputs(res, case, scr, batch, n, idx, handed):
    """oracle `condition` for one chunk"""
    pids, mask, sids, tids, plates, observed = facts(scr)
    bsel = [p in batch for p in pids]
    for k, sel, tname in handed:
        own = [p == k for p in pids]
        sel = [bool(x) for x in sel]
        if not any(own):
            res.fail("scorer handed a plate id that is not in the screen", case, k, plates, signature="C06:cover")
            return
        if not batch:
            if sel != own:
                res.fail("without a batch the scorer must receive the plate itself", dict(case, n=n, idx=idx), {"plate": k, "sel": sel}, own,
                         signature="C06:condition-noBatch")
            continue
        union = [a or b for a, b in zip(own, bsel)]
        cond = [(sids[i], tids[i]) for i in range(len(pids))]
        kept = [i for i in range(len(pids)) if sel[i]]
        if any(not union[i] for i in kept):
            res.fail("conditioned subset contains an experiment outside plate U batch", dict(case, n=n, idx=idx), {"plate": k, "sel": sel}, union,
                     signature="C06:condition-subset")
            continue
        kc = [cond[i] for i in kept]
        if len(set(kc)) != len(kc):
            res.fail("conditioned subset holds two experiments of the same condition", dict(case, n=n, idx=idx),
                     {"plate": k, "sel": sel, "conditions": [list(map(str, c)) for c in kc]}, "one experiment per (sample, treatments)",
                     signature="C06:condition-unique")
            continue
        if set(kc) != set(cond[i] for i in range(len(pids)) if union[i]):
            res.fail("conditioned subset lost a condition of plate U batch", dict(case, n=n, idx=idx), {"plate": k, "sel": sel}, union,
                     signature="C06:condition-cover")
            continue
        first = {}
        for i in range(len(pids)):
            if union[i]:
                first.setdefault(cond[i], i)
        if sorted(first.values()) != kept:
            # which experiment represents a condition is not part of the property (any one will do): not a violation.
            # The Lean model keeps the first, so the correspondence run reports such a change as a broken tie.
            res.count("condition.kept-not-first")


def select_oracle(res, case, scr, batch, table, allowed, got, what, extra):
    """oracle `select`; `got` is None or a plate id; only meaningful for total tables"""
    pids, mask, sids, tids, plates, observed = facts(scr)
    cands = expected_candidates(scr, batch)
    allow = [p for p in cands if allowed is None or p in allowed]
    c = dict(case, **extra)
    if not allow:
        if got is not None:
            res.fail(what + ": a plate was returned although none is allowed", c, got, None, signature="C06:none-iff")
        return
    if got is None:
        res.fail(what + ": nothing returned although plates are allowed", c, None, allow, signature="C06:none-iff")
        return
    if got not in plates or observed[got]:
        res.fail(what + ": selected plate is observed / unknown", c, got, allow, signature="C06:select-unobserved")
    elif got in batch:
        res.fail(what + ": selected plate is already in the batch", c, got, allow, signature="C06:select-batch")
    elif got not in allow:
        res.fail(what + ": selected plate is not allowed by the policy", c, got, allow, signature="C06:select-allowed")
    else:
        lower = [p for p in allow if table[p] < table[got]]
        if lower:
            res.fail(what + ": an allowed plate has a strictly lower score", c, {"selected": got, "score": enc_score(table[got])},
                     {"lower": lower, "scores": [enc_score(table[p]) for p in lower]}, signature="C06:select-min")


def run_case(ctx, res, env, case, lines, expect, meta, light=False):
    """runs one case on the real code, evaluates the oracles, queues driver lines"""
    if case.get("verbose") and not VERBOSE[0]:
        with verbose_slice():
            res.count("class.verbose-logging")
            return run_case(ctx, res, env, case, lines, expect, meta, light=light)
    from batchie.scoring.main import score_chunk, ChunkedScoresHolder, select_next_plate
    from batchie.scoring.size import SizeScorer
    from batchie.scoring.rand import RandomScorer
    Scorer, Policy = plugins()
    raw = case["raw"]
    batch = list(case["batch"])
    table = {int(k): dec_score(v) for k, v in case["table"].items()}
    total = case.get("total", True)
    allowed = case["allowed"]
    rtok = S.raw_to_tokens(raw)
    scr = S.build(raw)
    pids, mask, sids, tids, plates, observed = facts(scr)
    cands = expected_candidates(scr, batch)
    if any(b not in plates for b in batch) or len(set(batch)) != len(batch):
        # "all batches of already selected plate ids": an id that is not a plate of the screen, or the same plate twice, is malformed input
        res = Demote(res, "batch-outside-quantifier")
        res.count("outside-quantifier.batch-unknown-or-repeated-id")
    Scorer.table = table
    ttok = "T" + S.lst("%d:%s" % (k, score_tok(v)) for k, v in sorted(table.items()))
    atok = "none" if allowed is None else ids_tok(allowed)
    orng = ctx.subrng("c06-orders", case["seed"])
    batch_hits = any(p in batch for p in plates)

    reuse = case["seed"] % 2 == 1
    np64 = case["seed"] % 4 == 2
    if reuse:
        res.count("class.object-reuse.scorer-policy")
    if np64 and batch:
        res.count("class.dtype.np-int64-batch-ids")

    def bp():
        # `batch_plate_ids=None` is the documented default of both functions: used for half of the empty batches
        if not batch and case["seed"] % 2 == 1:
            return None
        return [np.int64(b) for b in batch] if np64 else list(batch)
    snap0 = snap_screen(scr)
    Scorer.refs = []
    for n in case["ns"]:
        holders, files, handed_all, failed = [], [], [], None
        sizes = []
        for idx in range(n):
            Scorer.log = []
            try:
                given = bp()
                given0 = None if given is None else list(given)
                h = score_chunk(scorer=(shared("table", Scorer) if reuse else Scorer()), thetas=None, screen=scr, distance_matrix=None,
                                rng=np.random.default_rng(0), n_chunks=n, chunk_index=idx, batch_plate_ids=given)
                if given != given0:
                    Demote(res, "not-a-clause").fail("score_chunk changed the batch list it was given", dict(case, n=n, idx=idx), str(given), str(given0),
                                                     signature="C06:input-mutated")
                handed = Scorer.log[-1]
                out = "ok " + S.lst(("%d:%s" % (k, S.sel_tok(sel)) for k, sel, _ in handed), ";")
            except Exception as e:   # noqa: BLE001
                h, handed, out, failed = None, None, S.err_tok(e), e
            res.evaluations += 1
            lines.append("inputs %s %d %d %s" % (ids_tok(batch), n, idx, rtok))
            expect.append(out)
            meta.append(("inputs", dict(case, n=n, idx=idx)))
            if h is None:
                break
            check_inputs(res, case, scr, batch, n, idx, handed)
            handed_all.extend(k for k, _, _ in handed)
            sizes.append(len(handed))
            if total:
                want = [(k, table[k]) for k, _, _ in handed]
                got = list(zip([int(x) for x in h.plate_ids], [float(x) for x in h.scores]))
                if got != want or int(h.current_index) != len(want):
                    res.fail("holder does not list the scored plates once with their scores", dict(case, n=n, idx=idx),
                             [(a, enc_score(b)) for a, b in got], [(a, enc_score(b)) for a, b in want], signature="C06:holder")
            fn = env.path("chunk") + ".h5"
            h.save_h5(fn)
            h2 = ChunkedScoresHolder.load_h5(fn)
            cells = lambda x: ([int(v) for v in x.plate_ids], [enc_score(float(v)) if not np.isnan(float(v)) else "nan" for v in x.scores])   # noqa: E731
            if cells(h2) != cells(h):
                res.fail("save_h5/load_h5 changed the (plate, score) cells of a scores holder", dict(case, n=n, idx=idx), show_holder(h2), show_holder(h),
                         signature="C06:saveload")
            elif show_holder(h2) != show_holder(h):
                Demote(res, "not-a-clause").fail("save_h5/load_h5 changed size / current_index of a scores holder", dict(case, n=n, idx=idx), show_holder(h2),
                                                 show_holder(h), signature="C06:saveload")
            elif holder_state(h2) != holder_state(h):
                # attribute completeness: every attribute found by introspection, with dtype and shape
                d_ = [k for k in set(holder_state(h)) | set(holder_state(h2)) if holder_state(h).get(k) != holder_state(h2).get(k)]
                # dtype / bookkeeping attributes are not what the property speaks about (the (plate, score) cells are, above)
                Demote(res, "not-a-clause").fail("save_h5/load_h5 changed an attribute of a scores holder", dict(case, n=n, idx=idx),
                                                 {k: str(holder_state(h2).get(k))[:120] for k in d_}, {k: str(holder_state(h).get(k))[:120] for k in d_},
                                                 signature="C06:saveload")
            holders.append(h2)
            files.append(fn)
        if wrapper_trouble(res, dict(case, n=n)):
            return cands          # the plug-in could not record: nothing of this case can be attributed to the implementation
        if failed is not None and raised_by_harness(failed):
            res.count("wrapper.unexpected-call")
            res.disagree("C06:wrapper:raised", {k: v for k, v in case.items() if k != "raw"}, "%s: %s" % (type(failed).__name__, failed), "no exception from harness code")
            return cands
        if failed is not None:
            if batch and not batch_hits and isinstance(failed, ValueError):
                res.count("score.error.batch-without-plates")
            else:
                res.fail("score_chunk raised on a valid request", dict(case, n=n), "%s: %s" % (type(failed).__name__, failed), "a holder",
                         signature="C06:score-raises")
            lines.append("pipeline %s %d %s %s %s %s" % (ids_tok(batch), n, "0", ttok, atok, rtok))
            expect.append("score-" + S.err_tok(failed))
            meta.append(("pipeline", dict(case, n=n)))
            continue
        # ---- cover oracle
        if sorted(handed_all) != sorted(cands) or len(set(handed_all)) != len(handed_all):
            res.fail("plates scored over all chunk indices != unobserved plates outside the batch, each once", dict(case, n=n),
                     sorted(handed_all), sorted(cands), signature="C06:cover")
        if sizes and max(sizes) - min(sizes) > 1:
            # balance is a property of np.array_split that the model proves, not a clause of C06: counted, not a violation
            res.count("chunks.unbalanced")
        # ---- orders
        if n <= case.get("all_orders_upto", 0):
            orders = list(itertools.permutations(range(n)))
        else:
            orders = [tuple(range(n))]
            if n > len(cands):
                orders.append(tuple(reversed(range(n))))        # trailing chunks are empty: an EMPTY chunk file comes first
                res.count("class.falsy.empty-chunk-file-first")
            for _ in range(case.get("n_orders", 2)):
                o = list(range(n))
                orng.shuffle(o)
                orders.append(tuple(o))
            orders = list(dict.fromkeys(orders))
        use_cli = case.get("cli", False) and n == case["ns"][-1]
        for oi, order in enumerate(orders):
            pols = [None, allowed] if allowed is not None else [None]
            if light:
                pols = pols[-1:]
            for pol in pols:
                Policy.allowed = set(pol) if pol is not None else set()
                Policy.log = []
                hs = [copy.deepcopy(holders[i]) for i in order]
                try:
                    comb = ChunkedScoresHolder.concat(hs)
                    ctext = "ok " + show_holder(comb)
                except Exception as e:   # noqa: BLE001
                    comb, ctext = None, S.err_tok(e)
                stext = None
                if comb is not None:
                    if total:
                        got = sorted(zip([int(x) for x in comb.plate_ids], [float(x) for x in comb.scores]))
                        want = sorted((k, table[k]) for k in cands)
                        if got != want:
                            res.fail("combined holder is not the multiset of (candidate, score)", dict(case, n=n, order=list(order)),
                                     [(a, enc_score(b)) for a, b in got], [(a, enc_score(b)) for a, b in want], signature="C06:concat-multiset")
                    try:
                        before = holder_state(comb)
                        given = bp()
                        given0 = None if given is None else list(given)
                        sel = select_next_plate(scores=comb, screen=scr,
                                                policy=((shared("policy", Policy) if reuse else Policy()) if pol is not None else None),
                                                batch_plate_ids=given, rng=np.random.default_rng(0))
                        if holder_state(comb) != before or given != given0:
                            Demote(res, "not-a-clause").fail("select_next_plate changed the scores holder / batch list it was given",
                                                             dict(case, n=n, order=list(order), policy=pol), "changed", "unchanged", signature="C06:input-mutated")
                        got_id = None if sel is None else int(sel.plate_id)
                        stext = "ok " + ("-1" if got_id is None else str(got_id))
                        if total:
                            select_oracle(res, case, scr, batch, table, pol, got_id, "select_next_plate", {"n": n, "order": list(order), "policy": pol})
                        if pol is not None and Policy.log and Policy.log[-1][1] != cands:
                            Demote(res, "not-a-clause").fail("policy was not given the unobserved plates outside the batch (sorted)", dict(case, n=n),
                                                             Policy.log[-1][1], cands, signature="C06:policy-input")
                    except Exception as e:   # noqa: BLE001
                        stext = S.err_tok(e)
                        if total:
                            (Demote(res, "raised-in-harness-code") if raised_by_harness(e) else res).fail("select_next_plate raised", dict(case, n=n, order=list(order), policy=pol), "%s: %s" % (type(e).__name__, e),
                                     "a plate or None", signature="C06:select-raises")
                res.evaluations += 1
                lines.append("pipeline %s %d %s %s %s %s" % (ids_tok(batch), n, ids_tok(order), ttok, "none" if pol is None else ids_tok(pol), rtok))
                expect.append(ctext + (" sel=" + stext if stext is not None else ""))
                meta.append(("pipeline", dict(case, n=n, order=list(order), policy=pol)))
            if light and oi >= 1:
                break
        # ---- stale score files: scored for an EARLIER batch (a prefix of the current one), selection with the current batch
        if case.get("stale", False) and n == case["ns"][-1] and batch and total:
            run_stale(ctx, res, env, case, scr, batch, table, allowed, n, orders[-1], lines, expect, meta, ttok, rtok, use_cli)
        # ---- the command line path (same model line: the model's pipeline *is* the CLI composition)
        if use_cli:
            run_cli(ctx, res, env, case, scr, raw, batch, table, total, allowed, n, orders[-1], lines, expect, meta, ttok, rtok)
    # ---- input mutation / aliasing: the screen is untouched; every subset handed to the scorer earlier still selects what it selected then
    res.count("class.input-mutation.screen-batch-holder")
    if snap_screen(scr) != snap0:
        now = snap_screen(scr)
        Demote(res, "not-a-clause").fail("scoring / selection wrote into the screen", dict(case), [k for k in snap0 if snap0[k] != now[k]], "screen unchanged",
                                         signature="C06:input-mutated")
    for call in Scorer.refs:
        for k, obj, selcopy in call:
            if not np.array_equal(np.asarray(obj.selection_vector), selcopy):
                Demote(res, "not-a-clause").fail("a subset handed to the scorer was changed by a later call (shared storage)", dict(case), {"plate": k}, "unchanged",
                                                 signature="C06:aliasing")
                break
    Scorer.refs = []
    # ---- requests outside the quantifier that the model also describes: n_chunks = 0 (numpy: ValueError), chunk_index = n_chunks (IndexError)
    if case.get("edges", False):
        n = case["ns"][-1]
        for nn, idx in ((0, 0), (n, n), (n, n + 3)):
            try:
                score_chunk(scorer=Scorer(), thetas=None, screen=scr, distance_matrix=None, rng=np.random.default_rng(0),
                            n_chunks=nn, chunk_index=idx, batch_plate_ids=list(batch))
                out = "ok (not compared)"
            except Exception as e:   # noqa: BLE001
                out = S.err_tok(e)
            res.count("edges.%s" % out)
            lines.append("inputs %s %d %d %s" % (ids_tok(batch), nn, idx, rtok))
            expect.append(out)
            meta.append(("inputs-edge", dict(case, n=nn, idx=idx)))
    # ---- shipped scorers on the last chunking
    if case.get("shipped", False):
        n = case["ns"][-1]
        for idx in range(n):
            for kind in ("S", "R"):
                Scorer.log = []
                try:
                    score_chunk(scorer=Scorer(), thetas=None, screen=scr, distance_matrix=None, rng=np.random.default_rng(0),
                                n_chunks=n, chunk_index=idx, batch_plate_ids=list(batch))
                    handed = Scorer.log[-1]
                    if kind == "S":
                        h = score_chunk(scorer=(shared("size", SizeScorer) if reuse else SizeScorer()), thetas=None, screen=scr, distance_matrix=None, rng=np.random.default_rng(5),
                                        n_chunks=n, chunk_index=idx, batch_plate_ids=list(batch))
                        want = [(k, float(sum(1 for x in sel if x))) for k, sel, _ in handed]
                        tok = "S"
                    else:
                        h = score_chunk(scorer=(shared("random", RandomScorer) if reuse else RandomScorer()), thetas=None, screen=scr, distance_matrix=None, rng=np.random.default_rng(5),
                                        n_chunks=n, chunk_index=idx, batch_plate_ids=list(batch))
                        g = np.random.default_rng(5)
                        draws = [float(g.random()) for _ in handed]
                        want = [(k, d) for (k, _, _), d in zip(handed, draws)]
                        tok = "R" + S.lst(score_tok(d) for d in draws)
                    got = list(zip([int(x) for x in h.plate_ids], [float(x) for x in h.scores]))
                    if got != want or int(h.current_index) != len(handed) or int(h.size) != len(handed):
                        res.fail("shipped scorer did not return exactly one score per plate", dict(case, n=n, idx=idx, scorer=kind),
                                 [(a, repr(b)) for a, b in got], [(a, repr(b)) for a, b in want], signature="C06:shipped-total")
                    out = "ok " + show_holder(h)
                except Exception as e:   # noqa: BLE001
                    out, tok = S.err_tok(e), ("S" if kind == "S" else "R-")
                res.evaluations += 1
                lines.append("chunk %s %d %d %s %s" % (ids_tok(batch), n, idx, tok, rtok))
                expect.append(out)
                meta.append(("chunk", dict(case, n=n, idx=idx, scorer=kind)))
    # ---- items 10-12 on the scores side (every case)
    if reuse:
        # SizeScorer shared object on temporaries: the score of a plate is the size of THAT plate
        sz = shared("size", SizeScorer)
        for p_ in plates:
            v_ = sz.score(plates={p_: scr.get_plate(p_)}, distance_matrix=None, samples=None, rng=np.random.default_rng(0), progress_bar=False)
            if float(v_[p_]) != float(sum(1 for q in pids if q == p_)):
                res.fail("a candidate was not scored on its own experiments: reused SizeScorer on a temporary plate", dict(case, plate=p_), repr(v_),
                         sum(1 for q in pids if q == p_), signature="C06:shipped-total")
        res.count("class.identity-cache.temporary-plates")
        # RandomScorer shared object: seed 5 then seed 6 == fresh with seed 6 (values and generator state)
        rs = shared("random", RandomScorer)
        keys = {p_: None for p_ in plates}
        rs.score(plates=keys, distance_matrix=None, samples=None, rng=np.random.default_rng(5), progress_bar=False)
        g1, g2 = np.random.default_rng(6), np.random.default_rng(6)
        a_ = rs.score(plates=keys, distance_matrix=None, samples=None, rng=g1, progress_bar=False)
        b_ = RandomScorer().score(plates=keys, distance_matrix=None, samples=None, rng=g2, progress_bar=False)
        res.count("class.reuse-different-seed.random-scorer")
        if list(a_.items()) != list(b_.items()) or str(g1.bit_generator.state) != str(g2.bit_generator.state):
            res.fail("a RandomScorer object used before with another generator does not score like a fresh one", dict(case), list(a_.items())[:4],
                     list(b_.items())[:4], signature="C06:shipped-total")
    if total and len(cands) >= 2 and (not batch or batch_hits):
        # instalments: the same path written twice (other content), and concat in steps
        hs_ = []
        for idx in range(2):
            hs_.append(score_chunk(scorer=Scorer(), thetas=None, screen=scr, distance_matrix=None, rng=np.random.default_rng(0), n_chunks=2,
                                   chunk_index=idx, batch_plate_ids=list(batch)))
        cells = lambda x: sorted(zip([int(v) for v in x.plate_ids], [enc_score(float(v)) for v in x.scores]))   # noqa: E731
        fn = env.path("twice") + ".h5"
        hs_[0].save_h5(fn)
        hs_[1].save_h5(fn)
        back = ChunkedScoresHolder.load_h5(fn)
        res.count("class.instalments.same-path-saved-twice")
        if cells(back) != cells(hs_[1]):
            res.fail("a scores file written twice does not hold the cells of the last holder saved", dict(case, n=2), cells(back), cells(hs_[1]),
                     signature="C06:saveload")
        extra_ = score_chunk(scorer=Scorer(), thetas=None, screen=scr, distance_matrix=None, rng=np.random.default_rng(0), n_chunks=1, chunk_index=0,
                             batch_plate_ids=list(batch))
        one = ChunkedScoresHolder.concat([copy.deepcopy(x) for x in (hs_[0], hs_[1], extra_)])
        two = ChunkedScoresHolder.concat([ChunkedScoresHolder.concat([copy.deepcopy(hs_[0]), copy.deepcopy(hs_[1])]), copy.deepcopy(extra_)])
        res.count("class.instalments.concat-in-steps")
        if cells(one) != cells(two):
            res.fail("combining chunk holders in two steps gives other (plate, score) cells than combining them at once", dict(case, n=2), cells(two), cells(one),
                     signature="C06:concat-multiset")
    return cands


def run_stale(ctx, res, env, case, scr, batch, table, allowed, n, order, lines, expect, meta, ttok, rtok, use_cli):
    """chunk files computed when the batch was smaller (so they still list plates that are in the batch NOW), combined in
    `order`, selection with the current batch: the result must still be unobserved, outside the current batch, allowed, minimal"""
    from batchie.scoring.main import score_chunk, ChunkedScoresHolder, select_next_plate
    from batchie.cli import select_next_plate as snp_cli
    Scorer, Policy = plugins()
    pids, mask, sids, tids, plates, observed = facts(scr)
    known = [b for b in batch if b in plates]
    cut = len(batch) - 1 if case["seed"] % 2 == 0 else 0
    old_batch = list(batch[:cut])
    if old_batch and not any(b in plates for b in old_batch):
        return
    files, holders = [], []
    try:
        for idx in range(n):
            h = score_chunk(scorer=Scorer(), thetas=None, screen=scr, distance_matrix=None, rng=np.random.default_rng(0),
                            n_chunks=n, chunk_index=idx, batch_plate_ids=list(old_batch))
            fn = env.path("stale") + ".h5"
            h.save_h5(fn)
            files.append(fn)
            holders.append(ChunkedScoresHolder.load_h5(fn))
    except Exception as e:   # noqa: BLE001
        (Demote(res, "raised-in-harness-code") if raised_by_harness(e) else res).fail("score_chunk raised on a valid request", dict(case, n=n, stale_batch=old_batch), "%s: %s" % (type(e).__name__, e), "a holder",
                 signature="C06:score-raises")
        return
    res.count("stale.runs")
    if any(b in expected_candidates(scr, old_batch) for b in known):
        res.count("stale.files-list-a-batch-plate")
    for pol in ([None, allowed] if allowed is not None else [None]):
        Policy.allowed = set(pol) if pol is not None else set()
        extra = {"n": n, "order": list(order), "policy": pol, "stale_batch": old_batch}
        comb = ChunkedScoresHolder.concat([copy.deepcopy(holders[i]) for i in order])
        ctext = "ok " + show_holder(comb)
        try:
            sel = select_next_plate(scores=comb, screen=scr, policy=(Policy() if pol is not None else None),
                                    batch_plate_ids=list(batch), rng=np.random.default_rng(0))
            got_id = None if sel is None else int(sel.plate_id)
            stext = "ok " + ("-1" if got_id is None else str(got_id))
            select_oracle(res, case, scr, batch, table, pol, got_id, "select_next_plate on stale score files", extra)
        except Exception as e:   # noqa: BLE001
            stext = S.err_tok(e)
            (Demote(res, "raised-in-harness-code") if raised_by_harness(e) else res).fail("select_next_plate raised on stale score files", dict(case, **extra), "%s: %s" % (type(e).__name__, e), "a plate or None",
                     signature="C06:select-raises")
        res.evaluations += 1
        lines.append("pipeline2 %s %s %d %s %s %s %s" % (ids_tok(old_batch), ids_tok(batch), n, ids_tok(order), ttok, "none" if pol is None else ids_tok(pol), rtok))
        expect.append(ctext + " sel=" + stext)
        meta.append(("pipeline-stale", dict(case, **extra)))
        if use_cli:
            data = env.path("screen") + ".h5"
            scr.save_h5(data)
            outp = env.path("selected") + ".txt"
            argv = ["select_next_plate", "--data", data, "--scores"] + [files[i] for i in order] + ["--output", outp, "--batch-plate-id"] + [str(b) for b in batch]
            if pol is not None:
                argv += ["--policy", "VerifAllowedPolicy"]
            try:
                run_main(snp_cli, argv)
                with open(outp) as f:
                    content = f.read()
                try:
                    got_id = int(content)
                except ValueError:
                    got_id = "unparsable:" + content
                select_oracle(res, case, scr, batch, table, pol, None if got_id == -1 else got_id, "select_next_plate CLI on stale score files",
                              dict(extra, via="cli"))
                cl = "ok " + content
            except Exception as e:   # noqa: BLE001
                cl = S.err_tok(e)
                (Demote(res, "raised-in-harness-code") if raised_by_harness(e) else res).fail("select_next_plate CLI raised on stale score files", dict(case, via="cli", **extra), "%s: %s" % (type(e).__name__, e),
                         "a plate id or -1", signature="C06:select-raises")
            res.evaluations += 1
            res.count("stale.cli")
            lines.append("pipeline2 %s %s %d %s %s %s %s" % (ids_tok(old_batch), ids_tok(batch), n, ids_tok(order), ttok, "none" if pol is None else ids_tok(pol), rtok))
            expect.append(ctext + " sel=" + cl)
            meta.append(("pipeline-stale-cli", dict(case, via="cli", **extra)))


def run_cli(ctx, res, env, case, scr, raw, batch, table, total, allowed, n, order, lines, expect, meta, ttok, rtok):
    from batchie.cli import calculate_scores, select_next_plate as snp_cli
    from batchie.scoring.main import ChunkedScoresHolder
    Scorer, Policy = plugins()
    thetas, dm = env.cli_files()
    if n >= 2:
        res.count("class.budget.cli-n-chunks-and-chunk-index-not-default")    # --n-chunks / --chunk-index both default to values that would hide a dropped argument
    data = env.path("screen") + ".h5"
    scr.save_h5(data)
    files = []
    err = None
    cli_handed = []
    for idx in range(n):
        out = env.path("cli_scores") + ".h5"
        argv = ["calculate_scores", "--scorer", "VerifTableScorer", "--data", data, "--thetas", thetas, "--distance-matrix", dm,
                "--n-chunks", str(n), "--chunk-index", str(idx), "--output", out, "--seed", "3"]
        if batch:
            argv += ["--batch-plate-ids"] + [str(b) for b in batch]
        try:
            Scorer.log = []
            run_main(calculate_scores, argv)
            files.append(out)
            res.count("class.entry-point.calculate_scores")
            if Scorer.log:
                # what the scorer RECEIVED from calculate_scores.main(): the same oracles as for the library call
                handed_cli = Scorer.log[-1]
                check_inputs(res, dict(case, via="cli"), scr, batch, n, idx, handed_cli)
                cli_handed.extend(k for k, _, _ in handed_cli)
        except Exception as e:   # noqa: BLE001
            err = e
            break
    if err is None and (not batch or any(p in batch for p in facts(scr)[4])):
        want_ = sorted(expected_candidates(scr, batch))
        if sorted(cli_handed) != want_:
            res.fail("calculate_scores.main() over all chunk indices did not hand the scorer the unobserved plates outside the batch, each once",
                     dict(case, n=n, via="cli"), sorted(cli_handed), want_, signature="C06:cover")
    res.evaluations += 1
    for pol in ([None, allowed] if allowed is not None else [None]):
        if err is not None:
            text = "score-" + S.err_tok(err)
        else:
            Policy.allowed = set(pol) if pol is not None else set()
            outp = env.path("selected") + ".txt"
            argv = ["select_next_plate", "--data", data, "--scores"] + [files[i] for i in order] + ["--output", outp]
            if batch:
                argv += ["--batch-plate-id"] + [str(b) for b in batch]
            if pol is not None:
                argv += ["--policy", "VerifAllowedPolicy"]
            try:
                comb = ChunkedScoresHolder.concat([ChunkedScoresHolder.load_h5(files[i]) for i in order])
                ctext = "ok " + show_holder(comb)
            except Exception as e:   # noqa: BLE001
                ctext = S.err_tok(e)
            try:
                run_main(snp_cli, argv)
                with open(outp) as f:
                    content = f.read()
                stext = "ok " + content
                if total:
                    try:
                        got_id = int(content)
                    except ValueError:
                        got_id = "unparsable:" + content
                    select_oracle(res, case, scr, batch, table, pol, None if got_id == -1 else got_id, "select_next_plate CLI",
                                  {"n": n, "order": list(order), "policy": pol, "via": "cli"})
                res.count("class.entry-point.select_next_plate")
                if content == "-1":
                    res.count("class.entry-point.select_next_plate.sentinel--1-written")
                elif content == "0":
                    res.count("class.entry-point.select_next_plate.plate-0-written")
                if 0 in batch:
                    res.count("class.entry-point.batch-plate-id-0-on-the-command-line")
            except Exception as e:   # noqa: BLE001
                stext = S.err_tok(e)
                if total:
                    (Demote(res, "raised-in-harness-code") if raised_by_harness(e) else res).fail("select_next_plate CLI raised", dict(case, n=n, order=list(order), policy=pol, via="cli"),
                             "%s: %s" % (type(e).__name__, e), "a plate id or -1", signature="C06:select-raises")
            text = ctext + " sel=" + stext
        lines.append("pipeline %s %d %s %s %s %s" % (ids_tok(batch), n, ids_tok(order), ttok, "none" if pol is None else ids_tok(pol), rtok))
        expect.append(text)
        meta.append(("pipeline-cli", dict(case, n=n, order=list(order), policy=pol, via="cli")))
        res.count("cli.pipelines")


def make_case(rng, raw, seed, tier, exhaustive_orders, cli_p, batch=None):
    scr = S.build(raw)
    pids, mask, sids, tids, plates, observed = facts(scr)
    if batch is None:
        batch = gen_batch(rng, plates)
    cands = expected_candidates(scr, batch)
    pool = rng.sample(SCORE_POOL, rng.randint(2, 5))
    table = {p: rng.choice(pool) for p in plates}
    total = rng.random() < 0.85
    if not total and plates:
        for p in rng.sample(plates, rng.randint(1, max(1, len(plates) // 2))):
            del table[p]
    allowed = None
    if rng.random() < 0.7:
        k = rng.randint(0, len(plates))
        allowed = sorted(rng.sample(plates, k))
    nmax = len(cands) + 3
    if tier == "quick":
        ns = sorted(set([1, 2, nmax] + [rng.randint(1, nmax) for _ in range(2)]))
    else:
        ns = list(range(1, nmax + 1))
    return {"raw": raw, "batch": batch, "table": {str(k): enc_score(v) for k, v in table.items()}, "total": total, "allowed": allowed,
            "ns": ns, "all_orders_upto": exhaustive_orders, "n_orders": 2, "cli": rng.random() < cli_p, "shipped": rng.random() < 0.5, "seed": seed, "stale": True, "edges": seed % 8 == 0}


def crafted_cases():
    """fixed cases generated in EVERY run (falsy boundaries; neighbouring keys of a packed mixed-radix encoding of (sample, t1, t2))"""
    out = []

    def mk(rows, maskp, batch, table, allowed, ns, name):
        # rows: (plate, sample, (n1, d1), (n2, d2))
        raw = dict(ctrl="control", arity=2, tnames=[[r[2][0], r[3][0]] for r in rows], tdoses=[[r[2][1], r[3][1]] for r in rows],
                   snames=[r[1] for r in rows], pnames=[r[0] for r in rows], obs=[0.5] * len(rows), mask=[maskp[r[0]] for r in rows],
                   tmap=None, smap=None)
        return name, {"raw": raw, "batch": batch, "table": {str(k): enc_score(v) for k, v in table.items()}, "total": True, "allowed": allowed,
                      "ns": ns, "all_orders_upto": 3, "n_orders": 1, "cli": True, "shipped": True, "seed": 7000 + len(out), "stale": True, "edges": False}
    C = ("control", 0.0)
    a, b, c, d = ("a", 1.0), ("b", 1.0), ("c", 1.0), ("d", 1.0)        # treatment ids 0..3, control -1; samples s0, s1 -> 0, 1
    # --- radix neighbours: with R = (max id + 1) instead of (max id + 2), (s, k, max) packs like (s, k+1, control) and
    #     (s, max, x) like (s+1, control, x).  Candidates p1, p2; batch plate p3 (and p0 observed).
    rows = [("p0", "s0", a, C), ("p0", "s1", C, b),
            ("p1", "s0", a, d), ("p1", "s0", d, a), ("p1", "s0", c, d),
            ("p2", "s0", b, d), ("p2", "s1", a, b),
            ("p3", "s0", b, C), ("p3", "s1", C, a), ("p3", "s0", d, C), ("p3", "s0", c, C), ("p3", "s1", C, b)]
    maskp = {"p0": True, "p1": False, "p2": False, "p3": False}
    out.append(mk(rows, maskp, [3], {0: 1.0, 1: 0.5, 2: 0.5, 3: -2.0}, None, [1, 2, 3], "radix-neighbours"))
    # the same with the batch plate FIRST in row order and the rows interleaved (kept representative = first of the union)
    rows2 = [rows[7], rows[2], rows[8], rows[3], rows[0], rows[9], rows[4], rows[10], rows[5], rows[1], rows[11], rows[6]]
    out.append(mk(rows2, maskp, [3], {0: 1.0, 1: 0.5, 2: 0.5, 3: -2.0}, [1, 2], [1, 2, 4], "radix-neighbours"))
    # batch of three plates, one candidate
    maskq = {"p0": False, "p1": False, "p2": False, "p3": False}
    out.append(mk(rows, maskq, [0, 2, 3], {0: 0.0, 1: 3.25, 2: -2.0, 3: -2.0}, None, [1, 2, 3], "batch-of-3"))
    # --- falsy: plate id 0 is the strict minimum with score 0.0 (zero-filled cells look the same), batch of size 1, n = 1
    rows3 = [("p0", "s0", a, b), ("p1", "s0", a, c), ("p2", "s0", b, c), ("p3", "s0", C, c)]
    out.append(mk(rows3, {"p0": False, "p1": False, "p2": False, "p3": False}, [3], {0: 0.0, 1: 0.5, 2: 1.0, 3: -2.0}, None, [1, 2, 5], "plate0-minimum"))
    out.append(mk(rows3, {"p0": False, "p1": False, "p2": False, "p3": False}, [], {0: -2.0, 1: 0.0, 2: 1.0, 3: 0.5}, [0, 1], [1, 4, 6], "plate0-minimum"))
    # plate 0 is the batch; plate 1 has score 0.0 and is the minimum
    out.append(mk(rows3, {"p0": False, "p1": False, "p2": False, "p3": True}, [0], {0: -2.0, 1: 0.0, 2: 1.0, 3: -2.0}, None, [1, 2, 3], "plate0-in-batch"))
    # the "-1" that select_next_plate writes when nothing is eligible, fed back as a batch id (not a plate id: outside the quantifier, tie only)
    out.append(mk(rows3, {"p0": False, "p1": False, "p2": False, "p3": False}, [3, -1], {0: 0.5, 1: 0.0, 2: 1.0, 3: -2.0}, None, [1, 2], "sentinel-in-batch"))
    # plate 0 is the batch AND nothing else is allowed: "-1" is written
    out.append(mk(rows3, {"p0": False, "p1": True, "p2": True, "p3": True}, [0], {0: -2.0, 1: 0.0, 2: 1.0, 3: 0.5}, None, [1, 2], "plate0-in-batch"))
    return out


def near_tie_cases():
    """class near-ties (every run): two allowed candidates whose scores are nearly equal but UNEQUAL (1 ulp, 1e-12, 1e-9, 4e-6 relative, 1e-9
    absolute next to 0, negative values), in both orders of plate id, plus exact ties and -0.0 / 0.0; and exact ties between an allowed and a
    NOT allowed plate (the not allowed one stored first).  The oracle is exact: no allowed plate may have a strictly lower score."""
    import math
    C = ("control", 0.0)
    a, b, c = ("a", 1.0), ("b", 1.0), ("c", 1.0)
    rows = [("p0", "s0", a, b), ("p1", "s0", a, c), ("p2", "s0", b, c), ("p3", "s0", C, c), ("p4", "s0", c, a), ("p5", "s0", b, a)]
    maskp = {"p%d" % i: False for i in range(6)}
    raw = dict(ctrl="control", arity=2, tnames=[[r[2][0], r[3][0]] for r in rows], tdoses=[[r[2][1], r[3][1]] for r in rows],
               snames=[r[1] for r in rows], pnames=[r[0] for r in rows], obs=[0.5] * len(rows), mask=[maskp[r[0]] for r in rows], tmap=None, smap=None)
    pairs = [("1ulp", 1.0, math.nextafter(1.0, 2.0)), ("rel-1e-12", 1.0, 1.0 + 1e-12), ("rel-1e-9", 1.0, 1.0 + 1e-9), ("rel-4e-6", 1.0, 1.000004),
             ("abs-1e-9-at-0", 0.0, 1e-9), ("abs-1e-9-below-0", -1e-9, 0.0), ("neg-1ulp", -2.0, math.nextafter(-2.0, 0.0)),
             ("exact-tie", 1.0, 1.0), ("neg-zero", -0.0, 0.0), ("big-rel-1e-9", 1e300, 1e300 * (1 + 1e-9))]
    out = []
    for name, lo, hi in pairs:
        for order in (0, 1):
            # order 0: the LOWER plate id carries the HIGHER score
            table = {0: max(hi, 1.0) + 5.0, 1: (hi if order == 0 else lo), 2: max(hi, 1.0) + 5.0, 3: max(hi, 1.0) + 7.0, 4: (lo if order == 0 else hi),
                     5: max(hi, 1.0) + 5.0}
            out.append((name, {"raw": raw, "batch": [3], "table": {str(k): enc_score(v) for k, v in table.items()}, "total": True, "allowed": [1, 4, 5],
                               "ns": [1, 2, 3], "all_orders_upto": 3, "n_orders": 1, "cli": order == 0, "shipped": False,
                               "seed": 7100 + len(out), "stale": True, "edges": False}))
    # exact tie between a NOT allowed plate (lower id, stored first) and an allowed one; and a not allowed plate strictly better
    for name, table, allowed in (("tie-with-not-allowed", {0: 9.0, 1: 9.0, 2: 1.0, 3: 9.0, 4: 1.0, 5: 9.0}, [4, 5]),
                                 ("tie-with-not-allowed", {0: 1.0, 1: 1.0, 2: 9.0, 3: 9.0, 4: 9.0, 5: 1.0}, [5]),
                                 ("not-allowed-strictly-better", {0: 0.5, 1: 9.0, 2: 0.5, 3: 9.0, 4: 1.0, 5: 9.0}, [1, 4])):
        out.append((name, {"raw": raw, "batch": [3], "table": {str(k): enc_score(v) for k, v in table.items()}, "total": True, "allowed": allowed,
                           "ns": [1, 2, 3], "all_orders_upto": 3, "n_orders": 1, "cli": True, "shipped": False, "seed": 7100 + len(out), "stale": True,
                           "edges": False}))
    return out


def describe(res, case, cands):
    raw = case["raw"]
    res.count("plates.%d" % len(set(raw["pnames"])))
    res.count("candidates.%s" % (len(cands) if len(cands) < 6 else "6+"))
    res.count("batch.%s" % ("empty" if not case["batch"] else "nonempty"))
    res.count("policy.%s" % ("none" if case["allowed"] is None else "filter"))
    res.count("scorer.%s" % ("total" if case.get("total", True) else "partial"))
    pn = raw["pnames"]
    runs = sum(1 for i in range(len(pn)) if i == 0 or pn[i] != pn[i - 1])
    if runs > len(set(pn)):
        res.count("class.rows.plates-interleaved")
    first_seen = list(dict.fromkeys(pn))
    if first_seen != sorted(first_seen):
        res.count("class.rows.plates-not-in-id-order")
    if raw.get("tmap") is not None:
        res.count("class.ids.supplied-mappings-with-gaps")
    if not any(n_ == raw["ctrl"] or d_ <= 0 for r_, rd_ in zip(raw["tnames"], raw["tdoses"]) for n_, d_ in zip(r_, rd_)):
        res.count("class.ids.screen-without-control")
    if any(n_ == raw["ctrl"] and d_ > 0 for r_, rd_ in zip(raw["tnames"], raw["tdoses"]) for n_, d_ in zip(r_, rd_)):
        res.count("class.ids.named-control-positive-dose")
    if any(len(x) >= 25 for x in pn):
        res.count("class.dtype.names>=25chars")
    if len(case["batch"]) == 1:
        res.count("class.falsy.batch-size-1")
    if len(case["batch"]) >= 3:
        res.count("class.size.batch>=3")
    if 0 in case["batch"]:
        res.count("class.falsy.plate-id-0-in-batch")
    if max(case["ns"]) > len(cands):
        res.count("class.size.more-chunks-than-plates")
    if len(set(pn)) >= 11:
        res.count("class.size.>=11-plates")
    tb = {int(k): dec_score(v) for k, v in case["table"].items()}
    allow = [p_ for p_ in cands if case["allowed"] is None or p_ in case["allowed"]]
    if case.get("total", True) and 0 in allow and len(allow) >= 2 and all(tb[0] < tb[p_] for p_ in allow if p_ != 0):
        res.count("class.falsy.plate-id-0-is-the-strict-minimum")
    if case.get("total", True) and len(allow) >= 2 and min(tb[p_] for p_ in allow) == 0.0:
        res.count("class.falsy.minimal-score-0.0")
    with np.errstate(all="ignore"):
        unrep = any(v not in ("ninf",) and float(np.float32(dec_score(v))) != dec_score(v) for v in case["table"].values())
    if unrep:
        res.count("class.dtype.float32-unrepresentable-score")
    vals = [case["table"][k] for k in case["table"]]
    tie = len(set(vals)) < len(vals) or "ninf" in vals
    if len(cands) >= 2 and max(case["ns"]) >= 2 and (case["batch"] or tie):
        res.nontrivial.add(common.short_hash([raw, case["batch"], case["table"], case["allowed"]]))


def run(ctx, res):
    res.rule = RULE
    quiet_logging()
    env = Env()
    lines, expect, meta = [], [], []
    try:
        # ---- np.array_split itself against the model's arraySplit
        lim = 14 if ctx.tier == "quick" else 40
        for ln in range(0, lim):
            for n in range(1, ln + 4):
                parts = np.array_split(list(range(ln)), n)
                flat = [int(x) for p in parts for x in p]
                lines.append("split %d %d" % (ln, n))
                expect.append("ok " + S.lst(str(len(p)) for p in parts) + (" flat" if flat == list(range(ln)) else " NOTFLAT"))
                meta.append(("split", {"len": ln, "n": n}))
        xp_cases = [c_ for _, c_ in crafted_cases()][:3]
        # ---- crafted cases, every run
        for ci, (name, case) in enumerate(crafted_cases()):
            if ci in (0, 3, 5, 7):
                case["verbose"] = True
            cands = run_case(ctx, res, env, case, lines, expect, meta)
            res.count("class.crafted." + name)
            if name == "radix-neighbours":
                res.count("class.size.packed-key-radix-neighbours")
            describe(res, case, cands)
        # ---- near ties, every run
        for name, case in near_tie_cases():
            cands = run_case(ctx, res, env, case, lines, expect, meta)
            res.count("class.near-ties." + name)
            describe(res, case, cands)
        # ---- random cases
        rng = ctx.subrng("c06")
        n_cases = ctx.scale(260, 1000, 800)
        for t in range(n_cases):
            raw = gen_case(rng, max_plates=7, n_max=14 if ctx.tier == "quick" else 22)
            case = make_case(rng, raw, t, ctx.tier if ctx.mode == "check" else "quick", 3 if ctx.tier == "quick" else 5,
                             0.12 if ctx.tier == "quick" else 0.04)
            if t % 7 == 3:
                case["verbose"] = True          # ~15 % of the random cases under -v/--verbose (mains get --verbose)
            cands = run_case(ctx, res, env, case, lines, expect, meta)
            describe(res, case, cands)
            if len(xp_cases) < 12 and case["batch"] and len(cands) >= 2 and case.get("total", True):
                xp_cases.append(dict(case, ns=case["ns"][:3]))
            if t % 40 == 0:
                res.sample({"batch": case["batch"], "allowed": case["allowed"], "table": case["table"], "ns": case["ns"],
                            "plate_names": raw["pnames"], "mask": raw["mask"], "candidates": cands})
            if len(lines) > 4000:
                flush(ctx, res, lines, expect, meta)
        # ---- wide screens: more than 127 / 255 plates, one or two experiments per plate, so that plate ids do not fit a byte
        #      (a narrower id dtype in the holder or the file would wrap them) and chunks hold many plates
        wrng = ctx.subrng("c06-wide")
        for P in ([300] if ctx.tier == "quick" else [150, 300, 600]):
            tn, td, sn, pn = [], [], [], []
            for p_ in range(P):
                for _ in range(1 if wrng.random() < 0.7 else 2):
                    tn.append([wrng.choice(["a", "b", "c"]), wrng.choice(["a", "b", "control"])])
                    td.append([wrng.choice([1.0, 2.0]), wrng.choice([1.0, 0.5])])
                    sn.append(wrng.choice(["s", "t"]))
                    pn.append("p%04d" % p_)
            wide_plate = P - 3
            for _ in range(70):                                 # one plate wider than 64 wells
                tn.append([wrng.choice(["a", "b", "c"]), wrng.choice(["a", "b", "control"])])
                td.append([wrng.choice([1.0, 2.0]), wrng.choice([1.0, 0.5])])
                sn.append(wrng.choice(["s", "t"]))
                pn.append("p%04d" % wide_plate)
            res.count("class.size.plate>64-wells")
            obsd = {p_: wrng.random() < 0.3 for p_ in range(P)}
            obsd[wide_plate] = False
            for b_ in (127, 128, 255, 256, 257):
                if b_ < P:
                    obsd[b_] = False
                    res.count("class.int-width.plate-id-%d-scored-saved-loaded" % b_)
            raw = dict(ctrl="control", arity=2, tnames=tn, tdoses=td, snames=sn, pnames=pn, obs=[0.5] * len(pn),
                       mask=[obsd[int(x[1:])] for x in pn], tmap=None, smap=None)
            unobs = [p_ for p_ in range(P) if not obsd[p_]]
            hi = [p_ for p_ in unobs if p_ >= (256 if P > 280 else 128)]
            batch = wrng.sample([x for x in hi if x not in (127, 128, 255, 256, 257)], 2)
            table = {p_: wrng.choice(SCORE_POOL[3:]) for p_ in range(P)}
            # the minimum sits on plates with large ids, twice (a tie)
            for p_ in wrng.sample([x for x in hi if x not in batch], 2):
                table[p_] = float("-inf")
            allowed = sorted(wrng.sample(range(P), P // 2) + [x for x in hi if table[x] == float("-inf")][:1])
            case = {"raw": raw, "batch": batch, "table": {str(k): enc_score(v) for k, v in table.items()}, "total": True, "allowed": sorted(set(allowed)),
                    "ns": [1, 4] if ctx.tier == "quick" else [1, 4, len(unobs) + 1], "all_orders_upto": 0, "n_orders": 1, "cli": P <= 300,
                    "shipped": False, "seed": P, "stale": True}
            cands = run_case(ctx, res, env, case, lines, expect, meta, light=False)
            res.count("wide.P%d" % P)
            describe(res, case, cands)
            flush(ctx, res, lines, expect, meta)
        # ---- exhaustive small scope (thorough / search): fixed screens with P plates, every (observed?, in batch?) assignment
        if ctx.tier == "thorough" or ctx.mode == "search":
            erng = ctx.subrng("c06-exh")
            for P in range(1, 7 if ctx.mode == "check" else 6):
                # two experiments per plate; conditions chosen so that neighbours share a condition
                tn, td, sn, pn = [], [], [], []
                for p in range(P):
                    for j in range(2):
                        tn.append(["a", "b"])
                        td.append([1.0, float(1 + (p + j) % 3)])
                        sn.append("s")
                        pn.append("p%d" % p)
                for status in itertools.product(range(4), repeat=P):
                    if P >= 6 and ctx.mode == "search" and erng.random() < 0.75:
                        continue
                    maskp = [bool(st & 1) for st in status]
                    batch = [p for p in range(P) if status[p] & 2]
                    raw = dict(ctrl="control", arity=2, tnames=tn, tdoses=td, snames=sn, pnames=pn, obs=[0.5] * (2 * P),
                               mask=[maskp[p] for p in range(P) for _ in range(2)], tmap=None, smap=None)
                    pool = erng.sample(SCORE_POOL, 3)
                    table = {p: erng.choice(pool) for p in range(P)}
                    allowed = sorted(erng.sample(range(P), erng.randint(0, P))) if erng.random() < 0.6 else None
                    nc = P - sum(1 for p in range(P) if maskp[p] or p in batch)
                    case = {"raw": raw, "batch": batch, "table": {str(k): enc_score(v) for k, v in table.items()}, "total": True,
                            "allowed": allowed, "ns": list(range(1, min(9, nc + 3) + 1)), "all_orders_upto": 5 if P <= 4 else 3, "n_orders": 1,
                            "cli": False, "shipped": False, "seed": hash(status) & 0xFFFF}
                    cands = run_case(ctx, res, env, case, lines, expect, meta, light=(P >= 5))
                    res.count("exhaustive.P%d" % P)
                    describe(res, case, cands)
                    if len(lines) > 4000:
                        flush(ctx, res, lines, expect, meta)
        flush(ctx, res, lines, expect, meta)
        cross_process(ctx, res, env, xp_cases)
        dbal_total(ctx, res)
        pipeline_stream(ctx, res)
    finally:
        env.close()


def dbal_total(ctx, res):
    """the third shipped scorer, GaussianDBALScorer, on really trained thetas: one finite-or--inf score per plate handed to it
    (its numerics are C05's subject; here only totality, which `C06_selection_correct` assumes of the scorer)"""
    from harness import c04
    from batchie.distance_calculation import calculate_pairwise_distance_matrix_on_predictions
    from batchie.distance.mse import MSEDistance
    from batchie.scoring.main import score_chunk
    from batchie.scoring.gaussian_dbal import GaussianDBALScorer
    c04.quiet()
    rng = ctx.subrng("c06-dbal")
    for t in range(ctx.scale(4, 40, 12)):
        raw = c04.gen_base(rng, big=True)
        for _ in range(30):
            if t != 0 or len(set(p_ for p_, m_ in zip(raw["pnames"], raw["mask"]) if not m_)) >= 3:
                break
            raw = c04.gen_base(rng, big=True)       # the first screen has more unobserved plates than max_chunk
        scr = S.build(raw)
        model, _ = c04.train_arrays("combo", scr)
        th = c04.thetas_of(model, t, n=4)
        dm = calculate_pairwise_distance_matrix_on_predictions(thetas=th, distance_metric=MSEDistance(), data=scr, chunk_index=0, n_chunks=1)
        pids, mask, sids, tids, plates, observed = facts(scr)
        unobs = [p for p in plates if not observed[p]]
        for batch in ([], unobs[:1]):
            cands = expected_candidates(scr, batch)
            for n in (1, 2, len(cands) + 1):
                got = []
                for idx in range(n):
                    h = score_chunk(scorer=GaussianDBALScorer(max_chunk=2, max_triples=20), thetas=th, screen=scr, distance_matrix=dm,
                                    rng=np.random.default_rng(1), n_chunks=n, chunk_index=idx, batch_plate_ids=list(batch))
                    # object reuse: ONE scorer object for every chunk size / batch / screen / thetas of the run gives the same holder
                    hr = score_chunk(scorer=shared("dbal", lambda: GaussianDBALScorer(max_chunk=2, max_triples=20)), thetas=th, screen=scr,
                                     distance_matrix=dm, rng=np.random.default_rng(1), n_chunks=n, chunk_index=idx, batch_plate_ids=list(batch))
                    res.count("class.object-reuse.dbal-scorer")
                    if len(h.plate_ids) > 2:
                        res.count("class.size.plates>max_chunk")
                    if holder_state(hr) != holder_state(h):
                        res.fail("a reused GaussianDBALScorer object scores differently from a fresh one", {"kind": "dbal", "raw": raw, "batch": batch, "n": n, "idx": idx},
                                 show_holder(hr), show_holder(h), signature="C06:scorer-reuse")
                    if int(h.current_index) != len(h.plate_ids):
                        res.fail("GaussianDBALScorer returned fewer scores than plates", {"kind": "dbal", "raw": raw, "batch": batch, "n": n, "idx": idx},
                                 int(h.current_index), len(h.plate_ids), signature="C06:dbal-total")
                    if any(np.isnan(float(x)) for x in h.scores):
                        res.count("dbal.nan-score")
                    got.extend(int(x) for x in h.plate_ids)
                res.evaluations += 1
                if sorted(got) != sorted(cands):
                    res.fail("GaussianDBALScorer: scored plates != candidates, each once", {"kind": "dbal", "raw": raw, "batch": batch, "n": n},
                             sorted(got), sorted(cands), signature="C06:dbal-total")
        from harness import c05
        sh = shared("dbal", lambda: GaussianDBALScorer(max_chunk=2, max_triples=20))
        # identity-keyed caches / object lifetime: the shared scorer on TEMPORARY plates (`screen.get_plate(p)` dies after the call, CPython
        # reuses its address for the next one); every candidate must get the score a fresh scorer gives to its own subset
        for rep in range(2):
            for p_ in unobs:
                a_ = sh.score(plates={p_: scr.get_plate(p_)}, distance_matrix=dm, samples=th, rng=np.random.default_rng(7), progress_bar=False)
                b_ = GaussianDBALScorer(max_chunk=2, max_triples=20).score(plates={p_: scr.get_plate(p_)}, distance_matrix=dm, samples=th, rng=np.random.default_rng(7), progress_bar=False)
                res.count("class.identity-cache.temporary-plates")
                if {int(k): S.bits(float(v)) for k, v in a_.items()} != {int(k): S.bits(float(v)) for k, v in b_.items()}:
                    res.fail("a candidate was not scored on its own experiments: a reused scorer handed a temporary plate returns another result than a "
                             "fresh scorer on the same plate", {"kind": "dbal", "raw": raw, "batch": [], "n": 1, "plate": p_},
                             {int(k): repr(float(v)) for k, v in a_.items()}, {int(k): repr(float(v)) for k, v in b_.items()}, signature="C06:scorer-reuse")
        # reuse with a DIFFERENT generator: after a call with seed 1 the same object is called with seed 2: output, draw trace and final generator
        # state must be those of a fresh object called with seed 2
        if unobs:
            plates_ = {p_: scr.get_plate(p_) for p_ in unobs}
            sh.score(plates=dict(plates_), distance_matrix=dm, samples=th, rng=c05.RecRng(1), progress_bar=False)
            r1, r2 = c05.RecRng(2), c05.RecRng(2)
            a_ = sh.score(plates=dict(plates_), distance_matrix=dm, samples=th, rng=r1, progress_bar=False)
            b_ = GaussianDBALScorer(max_chunk=2, max_triples=20).score(plates=dict(plates_), distance_matrix=dm, samples=th, rng=r2, progress_bar=False)
            res.count("class.reuse-different-seed.dbal-scorer")
            same = ({int(k): S.bits(float(v)) for k, v in a_.items()} == {int(k): S.bits(float(v)) for k, v in b_.items()} and r1.calls == r2.calls
                    and str(r1.g.bit_generator.state) == str(r2.g.bit_generator.state))
            if not same:
                res.fail("a scorer object used before with another generator does not score like a fresh one (scores / draws / generator state)",
                         {"kind": "dbal", "raw": raw, "batch": [], "n": 1}, {"draws": r1.calls[:2]}, {"draws": r2.calls[:2]}, signature="C06:scorer-reuse")
        res.count("dbal.screens")


def trace_case(case):
    """what the code does for one case, as plain data: plates + subsets handed to the scorer per chunk, holders, combined holder,
    selections (no policy / filtering policy).  Run in this process and in a second interpreter with another PYTHONHASHSEED."""
    from batchie.scoring.main import score_chunk, ChunkedScoresHolder, select_next_plate
    Scorer, Policy = plugins()
    scr = S.build(case["raw"])
    batch = list(case["batch"])
    Scorer.table = {int(k): dec_score(v) for k, v in case["table"].items()}
    out = []
    for n in case["ns"]:
        hs = []
        try:
            for idx in range(n):
                Scorer.log = []
                h = score_chunk(scorer=Scorer(), thetas=None, screen=scr, distance_matrix=None, rng=np.random.default_rng(0),
                                n_chunks=n, chunk_index=idx, batch_plate_ids=list(batch))
                out.append(["inputs", n, idx, [[k, S.sel_tok(sel)] for k, sel, _ in Scorer.log[-1]], show_holder(h)])
                hs.append(h)
            comb = ChunkedScoresHolder.concat(hs)
            out.append(["combined", n, show_holder(comb)])
            for pol in ([None, case["allowed"]] if case["allowed"] is not None else [None]):
                Policy.allowed = set(pol) if pol is not None else set()
                sel = select_next_plate(scores=comb, screen=scr, policy=(Policy() if pol is not None else None), batch_plate_ids=list(batch),
                                        rng=np.random.default_rng(0))
                out.append(["select", n, pol, None if sel is None else int(sel.plate_id)])
        except Exception as e:   # noqa: BLE001
            out.append(["error", n, type(e).__name__])
    Scorer.refs = []
    return out


def sub_main(path):
    import json
    quiet_logging()
    with open(path) as f:
        job = json.load(f)
    with open(job["out"], "w") as f:
        json.dump([trace_case(c) for c in job["cases"]], f)


def cross_process(ctx, res, env, cases):
    """class cross-process determinism: the same cases in a second interpreter process with a different PYTHONHASHSEED"""
    import json
    import subprocess
    here = json.loads(json.dumps([trace_case(c) for c in cases]))
    job = env.path("job") + ".json"
    with open(job, "w") as f:
        json.dump({"cases": cases, "out": job + ".out"}, f)
    e = dict(os.environ, PYTHONHASHSEED="4242", BATCHIE_REPO=common.REPO)
    code = "import sys; sys.path.insert(0, %r); from harness import c06; c06.sub_main(sys.argv[1])" % common.VERIF
    p = subprocess.run([sys.executable, "-c", code, job], env=e, stdout=subprocess.PIPE, stderr=subprocess.STDOUT, text=True, timeout=600)
    if not os.path.exists(job + ".out"):
        raise RuntimeError("second process failed: " + p.stdout[-800:])
    with open(job + ".out") as f:
        there = json.load(f)
    for c, a, b in zip(cases, here, there):
        res.evaluations += 1
        res.count("class.cross-process.other-hashseed")
        if a != b:
            d = next((i for i, (x, y) in enumerate(zip(a, b)) if x != y), min(len(a), len(b)))
            # the clause: every chunk index is computed by its own process; even indices taken from this process and odd ones from the other
            # must still cover the candidates exactly once
            scr_ = S.build(c["raw"])
            want = sorted(expected_candidates(scr_, c["batch"]))
            bad = None
            for n_ in c["ns"]:
                mixed = []
                for src, tr in ((0, a), (1, b)):
                    mixed += [k for e in tr if e[0] == "inputs" and e[1] == n_ and e[2] % 2 == src for k, _ in e[3]]
                if sorted(mixed) != want and not any(e[0] == "error" and e[1] == n_ for e in a + b):
                    bad = (n_, sorted(mixed))
                    break
            if bad is not None:
                res.fail("chunk indices computed in different interpreter processes (other PYTHONHASHSEED) do not cover the candidates exactly once",
                         dict(c, via="subprocess"), {"n_chunks": bad[0], "scored": bad[1]}, want, signature="C06:cross-process")
            else:
                Demote(res, "not-a-clause").fail("scoring / selection trace differs in a second interpreter process", dict(c, via="subprocess"),
                                                 {"this_process": str(a[d:d + 1])[:300], "other_process": str(b[d:d + 1])[:300]}, "identical",
                                                 signature="C06:cross-process")


# ------------------------------------------------------------------ the composed model (Model/ScorePipeline.lean) vs the real pipeline
def pipe_eval(case):
    """the REAL pipeline on one case: distance chunks -> concat -> dense, score_chunk with GaussianDBALScorer per chunk (recording
    generator: the drawn triple indices), save/load/concat, select_next_plate.  Returns (driver line, observed dict)."""
    from harness import c05, c09
    from batchie.core import ThetaHolder
    from batchie.distance_calculation import calculate_pairwise_distance_matrix_on_predictions, ChunkedDistanceMatrix
    from batchie.distance.mse import MSEDistance
    from batchie.scoring.main import score_chunk, ChunkedScoresHolder, select_next_plate
    from batchie.scoring.gaussian_dbal import GaussianDBALScorer
    Scorer, Policy = plugins()
    scr = S.build(case["raw"])
    ths = [c09.theta_from_case("sdc", c) for c in case["thetas"]]
    th = ThetaHolder(n_thetas=len(ths))
    for x in ths:
        th.add_theta(x)
    kd, ks, batch, mc = case["kd"], case["ks"], list(case["batch"]), case["mc"]
    parts = [calculate_pairwise_distance_matrix_on_predictions(thetas=th, distance_metric=MSEDistance(), data=scr, chunk_index=c, n_chunks=kd)
             for c in range(kd)]
    dm = ChunkedDistanceMatrix.concat(parts)
    dense = np.asarray(dm.to_dense(), dtype=float)
    draws, holders = [], []
    tmp = tempfile.mkdtemp(prefix="verif_c06_pipe_")
    try:
        for idx in range(ks):
            rec = c05.RecRng(case["seed"] * 100 + idx)
            h = score_chunk(scorer=GaussianDBALScorer(max_chunk=mc, max_triples=case["mt"]), thetas=th, screen=scr, distance_matrix=dm, rng=rec,
                            n_chunks=ks, chunk_index=idx, batch_plate_ids=list(batch))
            draws.append(rec.calls)
            fn = os.path.join(tmp, "h%d.h5" % idx)
            h.save_h5(fn)
            holders.append(ChunkedScoresHolder.load_h5(fn))
        chunks = [[(int(p), float(x)) for p, x in zip(h.plate_ids, h.scores)] for h in holders]
        comb = ChunkedScoresHolder.concat(holders)
    finally:
        shutil.rmtree(tmp, ignore_errors=True)
    allowed = case["allowed"]
    Policy.allowed = set(allowed) if allowed is not None else set()
    sel = select_next_plate(scores=comb, screen=scr, policy=(Policy() if allowed is not None else None), batch_plate_ids=list(batch),
                            rng=np.random.default_rng(0))
    dtok = "|".join(("/".join(",".join(str(i) for i in call) for call in calls) if calls else "-") for calls in draws)
    line = "pipe.dbal %d %d %s %d %s %s %s %s" % (kd, ks, ids_tok(batch), mc, dtok, "none" if allowed is None else ids_tok(allowed),
                                               "/".join(c09.theta_tok("sdc", x) for x in ths), S.raw_to_tokens(case["raw"]))
    return line, {"dense": dense, "draws": draws, "chunks": chunks, "combined": [int(x) for x in comb.plate_ids],
                  "selected": -1 if sel is None else int(sel.plate_id), "screen": scr}


def _close(a, b, rel=1e-9):
    if a == b:
        return True
    if np.isnan(a) or np.isnan(b) or np.isinf(a) or np.isinf(b):
        return False
    return abs(a - b) <= rel * max(abs(a), abs(b)) + 1e-300


def pipe_compare(res, case, obs, got, where="C06:pipe"):
    """driver answer of `pipe.dbal` vs the observed real pipeline: dense matrix and scores within 1e-9 relative, combined plate ids equal,
    selected plate equal unless the two best allowed scores are closer than 1e-6 relative"""
    cc = {k: v for k, v in case.items() if k != "thetas"}
    if not got.startswith("ok "):
        res.disagree(where, cc, "ok", got[:300])
        return
    parts = dict(x.split("=", 1) for x in got[3:].split("#"))
    md = [] if parts["dense"] == "-" else [[S.from_bits(int(x)) for x in r.split(",")] for r in parts["dense"].split(";")]
    d = obs["dense"]
    if len(md) != d.shape[0] or any(len(r) != d.shape[1] for r in md) or not all(_close(float(d[i][j]), md[i][j]) for i in range(len(md)) for j in range(len(md))):
        res.disagree(where + ":dense", cc, [[repr(float(x)) for x in r] for r in d], [[repr(x) for x in r] for r in md])
        return
    mchunks = []
    for ctok in parts["scores"].split(";"):
        mchunks.append([] if ctok in ("-", "") else [(int(e.split(":")[0]), float("nan") if e.split(":")[1] == "nan" else S.from_bits(int(e.split(":")[1])))
                                                     for e in ctok.split(",")])
    ok = len(mchunks) == len(obs["chunks"]) and all(
        [p for p, _ in a] == [p for p, _ in b] and all(_close(x, y) for (_, x), (_, y) in zip(a, b)) for a, b in zip(obs["chunks"], mchunks))
    if not ok:
        res.disagree(where + ":scores", cc, [[(p, repr(x)) for p, x in c] for c in obs["chunks"]], [[(p, repr(x)) for p, x in c] for c in mchunks])
        return
    mcomb = [] if parts["combined"] == "-" else [int(x) for x in parts["combined"].split(",")]
    if mcomb != obs["combined"]:
        res.disagree(where + ":combined", cc, obs["combined"], mcomb)
        return
    # selection: only when the winner is numerically unambiguous
    scr = obs["screen"]
    cands = expected_candidates(scr, case["batch"])
    allow = [p for p in cands if case["allowed"] is None or p in case["allowed"]]
    sc = {p: x for c in obs["chunks"] for p, x in c}
    best = sorted(sc[p] for p in allow if p in sc)
    ambiguous = len(best) >= 2 and (best[0] == best[1] or (np.isfinite(best[0]) and np.isfinite(best[1])
                                                          and abs(best[1] - best[0]) <= 1e-6 * max(abs(best[0]), abs(best[1]))))
    if ambiguous:
        res.count("pipe.selection-ambiguous")
    elif int(parts["sel"]) != obs["selected"]:
        res.disagree(where + ":selected", cc, obs["selected"], parts["sel"])


def pipe_gen(rng, seed, raw=None):
    """a case of the composed pipeline: a C04-style screen (all single agents observed), really trained SparseDrugCombo samples"""
    from harness import c04, c09
    if raw is None:
        for _ in range(40):
            raw = c04.gen_base(rng, big=True)
            if seed % 3 == 0 or len(set(p_ for p_, m_ in zip(raw["pnames"], raw["mask"]) if not m_)) >= 3:
                break
    scr = S.build(raw)
    model, _ = c04.train_arrays("combo", scr)
    nth = rng.choice([3, 4, 4, 5, 6])
    th = c04.thetas_of(model, seed, n=nth)
    pids, mask, sids, tids, plates, observed = facts(scr)
    unobs = [p for p in plates if not observed[p]]
    batch = [] if (len(unobs) < 2 or rng.random() < 0.4) else rng.sample(unobs, rng.randint(1, len(unobs) - 1))
    cands = [p for p in unobs if p not in batch]
    allowed = None if rng.random() < 0.6 else sorted(rng.sample(plates, rng.randint(0, len(plates))))
    return {"kind": "pipe", "raw": raw, "thetas": [c09.theta_to_case("sdc", th.get_theta(i)) for i in range(nth)], "kd": rng.randint(1, 4),
            "ks": rng.randint(1, len(cands) + 2), "batch": batch, "mc": rng.choice([1, 2, 2, 50]), "mt": rng.choice([3, 6, 5000]), "allowed": allowed,
            "seed": seed}


def pipeline_stream(ctx, res):
    """the composed Lean pipeline (predictions -> MSE distances -> chunks -> dense -> score chunks with the DBAL scorer -> holders ->
    selection) executed at Float against the real pipeline on the same screen, samples and recorded draws"""
    c04_quiet()
    rng = ctx.subrng("c06-pipe")
    cases, lines, obs = [], [], []
    for t in range(ctx.scale(14, 120, 40)):
        case = pipe_gen(rng, t)
        try:
            line, o = pipe_eval(case)
        except Exception as e:   # noqa: BLE001
            (Demote(res, "raised-in-harness-code") if raised_by_harness(e) else res).fail("the scoring pipeline raised on a valid screen / samples", {k: v for k, v in case.items()}, "%s: %s" % (type(e).__name__, e),
                     "distance matrix, scores, selection", signature="C06:pipe-raises")
            continue
        res.evaluations += 1
        res.count("pipe.cases")
        res.count("pipe.thetas.%d" % len(case["thetas"]))
        got_ids = sorted(p for c in o["chunks"] for p, _ in c)
        if got_ids != sorted(expected_candidates(o["screen"], case["batch"])):
            res.fail("GaussianDBALScorer pipeline: scored plates != candidates, each once", case, got_ids,
                     sorted(expected_candidates(o["screen"], case["batch"])), signature="C06:dbal-total")
        res.count("pipe.candidates.%s" % min(4, len(got_ids)))
        res.count("pipe.batch.%s" % min(2, len(case["batch"])))
        if any(len(calls) >= 2 for calls in o.get("draws", [])):
            res.count("pipe.chunk-with-several-kernel-calls")
        if any(x == float("-inf") for c in o["chunks"] for _, x in c):
            res.count("pipe.score-neg-inf")
        cases.append(case)
        lines.append(line)
        obs.append(o)
    if ctx.driver is not None and lines:
        got = ctx.driver.ask(lines)
        for case, o, g in zip(cases, obs, got):
            pipe_compare(res, case, o, g)
        res.traces_validated += len(lines)


def c04_quiet():
    from harness import c04
    c04.quiet()


def flush(ctx, res, lines, expect, meta):
    if ctx.driver is not None and lines:
        got = ctx.driver.ask(lines)
        for l, e, g, (kind, c) in zip(lines, expect, got, meta):
            if e != g:
                res.disagree("C06:" + kind, {"line": l, "case": c}, e[:800], g[:800])
        res.traces_validated += len(lines)
    del lines[:], expect[:], meta[:]


def replay(ctx, case, res):
    quiet_logging()
    if case.get("kind") == "dbal":
        dbal_total(ctx, res)
        return
    if case.get("kind") == "pipe":
        c04_quiet()
        try:
            line, o = pipe_eval(case)
        except Exception as e:   # noqa: BLE001
            res.fail("the scoring pipeline raised on a valid screen / samples", case, "%s: %s" % (type(e).__name__, e), "runs", signature="C06:pipe-raises")
            return
        got_ids = sorted(p for c in o["chunks"] for p, _ in c)
        if got_ids != sorted(expected_candidates(o["screen"], case["batch"])):
            res.fail("GaussianDBALScorer pipeline: scored plates != candidates, each once", case, got_ids,
                     sorted(expected_candidates(o["screen"], case["batch"])), signature="C06:dbal-total")
        return
    if case.get("via") == "subprocess":
        env = Env()
        try:
            c = dict(case)
            c.pop("via")
            cross_process(ctx, res, env, [c])
        finally:
            env.close()
        return
    env = Env()
    try:
        c = dict(case)
        for k in ("n", "idx", "order", "policy", "via", "scorer"):
            c.pop(k, None)
        if "n" in case:
            c["ns"] = [case["n"]]
        if case.get("via") == "cli":
            c["cli"] = True
        if "order" in case:
            c["all_orders_upto"] = max(c.get("all_orders_upto", 0), 5)
        run_case(ctx, res, env, c, [], [], [])
    finally:
        env.close()
