"""C03 -- identifiers stay stable through the whole simulation lifecycle.

A prepared screen P (fresh or superset mappings, optionally first passed through `mask_screen`) is split by the REAL
`create_random_holdout` / `create_plate_balanced_holdout_set_among_masked_plates` (seeded generator behind a recording
proxy, or a stub generator that returns a hand-made selection in which some sample / (treatment, dose) occurs only in
held-out rows).  On the training half and on the held-out half a random history of `mask_screen`, `unmask_screen`,
`reveal_plates` (any plate order, repeated / observed / unknown ids), `save_h5 + load_h5` and the `reveal_plate` CLI runs.

Oracles (implementation only), after EVERY stage of both halves:
  same name => same id as in the prepared screen (and same id => same name), mappings identical to the prepared screen's,
  ExperimentSpace sizes never shrink (== the prepared screen's, ids < size), and a real SparseDrugComboMCMCSample sized by
  the prepared screen's space predicts bit-identical values on the corresponding rows.
Tie: every stage string (ids, three mappings, observation bits, mask, rows, control name, arity, plate counters) equals
the trace of `hist [m+]h<sel>+<ops> <raw>` / `hist [m+]H<sel>+<ops> <raw>` of lean/Batchie/Model/RetroIO.lean.
"""
import logging
import math
import os
import shutil
import sys
import tempfile
import time

import numpy as np

from vlib import common
from harness import screens as S
from harness.c02 import (attrs_snapshot, build_layout, cross_process_observables, dict_diff, first_diff, many_names_raw,
                         observables, permute_mappings, props_snapshot, show_stage, whitespace_rename, LAYOUTS)

common.use_repo_sources()

RULE = ("prepared screens: S.gen_raw, arity 1-3 (mostly 1-2), 2-8 plates, 4..14 rows (quick) / ..40 (thorough), 2-4 samples, "
        "non-zero non-NaN observations (about 10% with an all-zero plate or a NaN so that reveals refuse), all observed or "
        "plate-wise partially masked, 40% passed through mask_screen first, 18% with a mapping for a strict superset of the rows "
        "(half of them as batchie produced it, half as a hand-made table: ids relabelled by a permutation, rows shuffled).  Split by the real create_random_holdout / create_plate_balanced_holdout_set_among_masked_plates "
        "with np.random.default_rng(seed) (fractions 0, 0.2, 0.5, 0.8, 1; selection recovered through a recording proxy) or "
        "with a stub generator returning a hand-made selection that holds out EVERY row containing a chosen sample name or "
        "(treatment, dose).  On the training half and on the held-out half: history of 1..8 (quick) / ..20 (thorough) steps "
        "of mask_screen, unmask_screen, reveal_plates (ids in any order, repeated, already observed, unknown, empty), "
        "save_h5+load_h5 through a temp file, and cli.reveal_plate.main() on saved files; a raising step ends the history. "
        "The DESIGN section-7 #1 witness always runs first, then a fixed corpus in which one sample / (treatment, dose) occurs only in "
        "held-out rows and sorts at the START, in the MIDDLE and at the END of the names, each with histories that save+load (library and "
        "CLI) repeatedly on both sides.  PREPARE command (class.entry-point.prepare_retrospective_simulation): a fixed corpus (a one-plate sample `A_rare` that sorts first and a "
        "(treatment, dose) that only it uses; NPlatePerCellLineSmoother 2 / 3, FixedSizeSmoother, OptimalSizeSmoother, none; several seeds) and 28 "
        "generated configurations per quick run cycling every initial generator x generator x smoother (harness/prep_pipeline.py's generator) "
        "run the real batchie.cli.prepare_retrospective_simulation.main() on files; on the TWO files it writes: same sample name => same id, same "
        "(treatment, dose) => same id across training and test (rows and stored mappings), embedding sizes of training cover the test ids; the "
        "lifecycle (reveal / save+load / reveal_plate CLI / train_model CLI) then continues from the training file with the same oracles and the "
        "model tie.  TRAINING stage (class.entry-point.train_model): a fixed corpus (only the last-sorting / first / a middle sample's plate revealed after "
        "hold-out + mask, saved, seeds 0 and 7) and 45% of the arity-2 training histories end with the real batchie.cli.train_model.main() on the "
        "saved screen with a recording subclass of SparseDrugCombo found by the CLI's introspection: the (sample id, treatment ids) reaching "
        "_add_observations decode through the PREPARED screen's mappings to the row's names/doses, the rows are the observed rows, and the saved "
        "thetas predict on the test / prepared screen exactly what a reference trained in-process with the prepared ids (same seed) predicts; "
        "tie: the rows and ids the model received equal `trainrows` of the Lean model (Model/TrainStage.lean) on the saved stage. "
        "class.verbose-logging: every 7th prepared screen (and one corpus case) runs entirely under vlib.common.verbose_logging(), CLI mains with "
        "--verbose (replay re-enters it).  Hardening classes (class.*): every screen object snapshotted (all attributes) around every step "
        "and at the end; mapping/control attributes and all ExperimentSpace properties compared by introspection at every stage; after every "
        "reload a posterior sample cut to the RELOADED stage's space sizes must predict the training half, the test screen and the prepared "
        "screen; 25% non-C memory layouts, 10% long names, 7% >= 11 names; the same screen object split twice; up to 8 saved training halves "
        "reloaded in another interpreter (other PYTHONHASHSEED).  Non-trivial: some sample or non-control (treatment, dose) occurs "
        "only in held-out rows AND at least one reveal/mask/unmask succeeded afterwards on the training half.")

ORACLES = ("ids", "maps", "space", "pred")     # all four always run; a self-test may restrict the tuple
SIG_IDS = "C03:ids-changed"
SIG_MAP = "C03:mapping-changed"
SIG_SPACE = "C03:space-shrank"
SIG_PRED = "C03:prediction-changed"
SIG_INPUT = "C03:input-mutated"
SIG_XPROC = "C03:other-process-differs"
SIG_TRAIN = "C03:training-ids"
SIG_PREP = "C03:prepared-screens-disagree"

OBS_VALUES = [1.0, 0.5, 0.25, 0.75, 1e-300, 0.3333333333333333, 0.9, 0.1, 2.0, 0.7000000000000001]
NAN_BITS = [0x7FF8000000000000, 0x7FF8000000000001, 0xFFF8000000000000]
FRACTIONS = [0.0, 0.2, 0.5, 0.8, 1.0]

WITNESS_RAW = dict(ctrl="control", arity=2,
                   tnames=[["a", "b"], ["b", "c"], ["b", "d"], ["c", "d"], ["b", "c"], ["c", "d"]],
                   tdoses=[[1.0, 1.0]] * 6, snames=["s0", "s1", "s1", "s2", "s2", "s1"],
                   pnames=["p0", "p0", "p1", "p1", "p2", "p2"], obs=[0.5, 0.25, 0.75, 0.5, 0.9, 0.1],
                   mask=None, tmap=None, smap=None)


# ----------------------------------------------------------------------------- generators (rng is duck-typed in batchie)

TRAIN_TIES = []          # (driver line, what the recording model received, case): compared with the model's `trainrows` by run()
UNEXPECTED = []          # (where, detail): a wrapper of the harness met a call form it could not read -- drained into a tie by run()


def _choice_candidates(args, kwargs):
    """the candidate array of a `Generator.choice` call, whatever positional / keyword form the caller used"""
    if args:
        return args[0]
    return kwargs["a"]


class RecordingRng:
    """delegates every call to a real numpy generator unchanged and records the indices `.choice` returns"""

    def __init__(self, rng):
        self.rng = rng
        self.calls = []

    def choice(self, *args, **kwargs):
        out = self.rng.choice(*args, **kwargs)
        try:
            self.calls.append([int(x) for x in np.atleast_1d(out)])
        except Exception as e:
            UNEXPECTED.append(("RecordingRng.choice", "%s: %s" % (type(e).__name__, e)))
        return out

    def __getattr__(self, name):            # any other generator method: forwarded, noted
        UNEXPECTED.append(("RecordingRng.%s" % name, "the hold-out used a generator method the harness does not record"))
        return getattr(self.rng, name)


class StubRng:
    """`.choice(candidates, n, replace=False)` -- in any positional / keyword form -- returns the wanted indices among the candidates"""

    def __init__(self, wanted):
        self.wanted = set(int(i) for i in wanted)
        self.calls = []
        self.fallback = np.random.default_rng(0)

    def choice(self, *args, **kwargs):
        try:
            a = _choice_candidates(args, kwargs)
            out = np.array([int(i) for i in np.atleast_1d(np.asarray(a)) if int(i) in self.wanted], dtype=int)
        except Exception as e:
            UNEXPECTED.append(("StubRng.choice", "%s: %s" % (type(e).__name__, e)))
            out = self.fallback.choice(*args, **kwargs)
        self.calls.append([int(x) for x in np.atleast_1d(out)])
        return out

    def __getattr__(self, name):
        UNEXPECTED.append(("StubRng.%s" % name, "the hold-out used a generator method the stub does not prescribe"))
        return getattr(self.fallback, name)


# ----------------------------------------------------------------------------- the prepared screen and its split

def case_raw(case):
    raw = dict(case["raw"])
    if case.get("obs_bits") is not None:       # NaN payloads do not survive JSON
        raw["obs"] = [S.from_bits(b) for b in case["obs_bits"]]
    if raw.get("tmap") is not None:
        raw["tmap"] = tuple(list(x) for x in raw["tmap"])
    if raw.get("smap") is not None:
        raw["smap"] = tuple(list(x) for x in raw["smap"])
    return raw


def canon_maps(s):
    """the two mappings as RELATIONS (sorted rows): C03's text is about which id a name has, not about the order of the table
    rows (C02 owns the identity of the tables through save / load)"""
    tm, sm = s.treatment_mapping, s.sample_mapping
    t = sorted(zip([str(x) for x in tm[0]], [S.bits(x) for x in tm[1]], [int(x) for x in tm[2]]))
    m = sorted(zip([str(x) for x in sm[0]], [int(x) for x in sm[1]]))
    return ([r[0] for r in t], [r[1] for r in t], [r[2] for r in t], [r[0] for r in m], [r[1] for r in m])


class Reference:
    """what the prepared screen fixes: the name -> id tables, the space sizes, a theta and its predictions"""

    def __init__(self, orig, theta_seed, dim):
        from batchie.data import ExperimentSpace
        self.maps = canon_maps(orig)
        tn, td, ti, sn, si = self.maps
        self.t_id = {}
        for a, b, c in zip(tn, td, ti):
            self.t_id.setdefault((a, S.from_bits(b)), c)
        self.s_id = {}
        for a, c in zip(sn, si):
            self.s_id.setdefault(a, c)
        self.t_inv = {c: (a, S.from_bits(b)) for a, b, c in zip(tn, td, ti) if c >= 0}
        self.s_inv = {c: a for a, c in zip(sn, si)}
        sp = ExperimentSpace.from_screen(orig)
        self.n_t = int(sp.n_unique_treatments)
        self.n_s = int(sp.n_unique_samples)
        self.theta = None
        self.pred = None
        self.arrays = None
        self.space_props = props_snapshot(sp)          # every property of the experiment space, by introspection
        self.map_attrs = map_attrs(orig)
        if int(orig.treatment_arity) in (1, 2) and self.n_t > 0 and self.n_s > 0 and orig.size > 0:
            from batchie.models.sparse_combo import SparseDrugComboMCMCSample
            g = np.random.default_rng(theta_seed)
            self.arrays = dict(W=g.normal(size=(self.n_s, dim)), W0=g.normal(size=(self.n_s,)), V2=g.normal(size=(self.n_t, dim)),
                               V1=g.normal(size=(self.n_t, dim)), V0=g.normal(size=(self.n_t,)), alpha=float(g.normal()),
                               precision=float(1.0 + g.random()))
            self.theta = SparseDrugComboMCMCSample(**{k: (v.copy() if hasattr(v, "copy") else v) for k, v in self.arrays.items()})
            try:
                self.pred = (np.array(self.theta.predict_viability(orig)), np.array(self.theta.predict_conditional_mean(orig)))
            except Exception:
                self.theta = None


def holdout_only(orig, sel, ref):
    """names of samples / non-control (treatment, dose) that occur only in held-out rows"""
    sn = [str(x) for x in orig.sample_names]
    tn = [[str(x) for x in r] for r in orig.treatment_names]
    td = [[float(x) for x in r] for r in orig.treatment_doses]
    held_s, kept_s, held_t, kept_t = set(), set(), set(), set()
    for i, h in enumerate(sel):
        (held_s if h else kept_s).add(sn[i])
        for a, b in zip(tn[i], td[i]):
            if ref.t_id.get((a, b), -1) >= 0:
                (held_t if h else kept_t).add((a, b))
    return sorted(held_s - kept_s), sorted(held_t - kept_t)


def do_split(P, split):
    """runs the real hold-out function; returns (keep, test, sel the function used)"""
    from batchie.retrospective import create_random_holdout, create_plate_balanced_holdout_set_among_masked_plates
    fn = create_random_holdout if split["fn"] == "random" else create_plate_balanced_holdout_set_among_masked_plates
    if split["mode"] == "rng":
        g = RecordingRng(np.random.default_rng(split["seed"]))
    else:
        g = StubRng([i for i, b in enumerate(split["sel"]) if b])
    keep, test = fn(P, split["fraction"], g)
    sel = [False] * int(P.size)
    for call in g.calls:
        for i in call:
            sel[i] = True
    return keep, test, sel


def stub_fraction(k, n):
    """a fraction with ceil(n * fraction) == k"""
    f = 0.0 if k == 0 else (k - 0.5) / n
    assert math.ceil(n * f) == k
    return f


# ----------------------------------------------------------------------------- oracles on one stage

def check_stage(ref, stage, rows, prev_sizes, case, step, res):
    """the four oracles on one derived screen; `rows` = indices of the prepared screen's rows this screen holds.
    returns (failed, sizes)"""
    from batchie.data import ExperimentSpace
    c = dict(case)
    c["failing_step"] = step
    sn = [str(x) for x in stage.sample_names]
    si = [int(x) for x in stage.sample_ids]
    tn = [[str(x) for x in r] for r in stage.treatment_names]
    td = [[float(x) for x in r] for r in stage.treatment_doses]
    ti = [[int(x) for x in r] for r in np.asarray(stage.treatment_ids).reshape(len(sn), -1)] if sn else []
    # same name => same id, same id => same name
    for i in range(len(sn) if "ids" in ORACLES else 0):
        want = ref.s_id.get(sn[i])
        if si[i] != want or ref.s_inv.get(si[i]) != sn[i]:
            res.fail("a sample name has a different id than in the prepared screen", c,
                     {"step": step, "row": i, "sample": sn[i], "id": si[i], "sample_ids": si},
                     {"id": want, "name_of_that_id_in_prepared_screen": ref.s_inv.get(si[i])}, signature=SIG_IDS)
            return True, prev_sizes
        for j in range(len(tn[i])):
            key = (tn[i][j], td[i][j])
            want = ref.t_id.get(key)
            if ti[i][j] != want or (ti[i][j] >= 0 and ref.t_inv.get(ti[i][j]) != key):
                res.fail("a (treatment, dose) has a different id than in the prepared screen", c,
                         {"step": step, "row": i, "column": j, "treatment": key[0], "dose": key[1], "id": ti[i][j], "treatment_ids": ti},
                         {"id": want, "condition_of_that_id_in_prepared_screen": ref.t_inv.get(ti[i][j])}, signature=SIG_IDS)
                return True, prev_sizes
    # mappings identical
    got = canon_maps(stage)
    if got != ref.maps and "maps" in ORACLES:
        k = [a != b for a, b in zip(got, ref.maps)].index(True)
        what = ["treatment_mapping names", "treatment_mapping doses (bit patterns)", "treatment_mapping ids",
                "sample_mapping names", "sample_mapping ids"][k]
        res.fail("the %s of a derived screen differ from the prepared screen's" % what, c,
                 {"step": step, "field": what, "derived": got[k]}, {"prepared": ref.maps[k]}, signature=SIG_MAP)
        return True, prev_sizes
    # space sizes
    sp = ExperimentSpace.from_screen(stage)
    sizes = (int(sp.n_unique_treatments), int(sp.n_unique_samples))
    max_t = max([x for r in ti for x in r], default=-1)
    max_s = max(si, default=-1)
    if "space" in ORACLES and (sizes[0] < prev_sizes[0] or sizes[1] < prev_sizes[1] or sizes[0] < ref.n_t or sizes[1] < ref.n_s
                               or max_t >= sizes[0] or max_s >= sizes[1]):
        res.fail("the embedding sizes implied by a derived screen shrank / do not cover its ids", c,
                 {"step": step, "n_unique_treatments": sizes[0], "n_unique_samples": sizes[1], "max_treatment_id": max_t, "max_sample_id": max_s},
                 {"previous_stage": list(prev_sizes), "prepared": [ref.n_t, ref.n_s]}, signature=SIG_SPACE)
        return True, sizes
    # predictions of one theta on corresponding rows
    if ref.theta is not None and len(sn) > 0 and "pred" in ORACLES:
        try:
            v = np.array(ref.theta.predict_viability(stage))
            m = np.array(ref.theta.predict_conditional_mean(stage))
            ok = np.array_equal(v, ref.pred[0][rows]) and np.array_equal(m, ref.pred[1][rows])
            seen = {"step": step, "viability": [float(x) for x in v], "conditional_mean": [float(x) for x in m]}
        except Exception as e:
            ok = False
            seen = {"step": step, "raised": "%s: %s" % (type(e).__name__, e)}
        if not ok:
            res.fail("a posterior sample predicts differently for the same experiments at a later stage", c, seen,
                     {"viability": [float(x) for x in ref.pred[0][rows]], "conditional_mean": [float(x) for x in ref.pred[1][rows]]},
                     signature=SIG_PRED)
            return True, sizes
    return False, sizes


def check_resized_theta(ref, stage, targets, case, step, res):
    """a model sized by THIS stage's experiment space (what train_model does with the screen it is given) must still index every
    row of the other screens of the simulation: a posterior sample with the embedding sizes implied by `stage` (the reference
    sample's arrays cut to those sizes) predicts the reference values on the training half, the test half and the prepared screen"""
    from batchie.data import ExperimentSpace
    from batchie.models.sparse_combo import SparseDrugComboMCMCSample
    if ref.theta is None:
        return False
    sp = ExperimentSpace.from_screen(stage)
    n_t, n_s = int(sp.n_unique_treatments), int(sp.n_unique_samples)
    a = ref.arrays
    c = dict(case)
    c["failing_step"] = step
    try:
        th = SparseDrugComboMCMCSample(W=a["W"][:n_s].copy(), W0=a["W0"][:n_s].copy(), V2=a["V2"][:n_t].copy(), V1=a["V1"][:n_t].copy(),
                                       V0=a["V0"][:n_t].copy(), alpha=a["alpha"], precision=a["precision"])
    except Exception as e:
        res.fail("cannot size a posterior sample by a derived screen's experiment space", c, "%s: %s" % (type(e).__name__, e),
                 {"sizes": [n_t, n_s]}, signature=SIG_SPACE)
        return True
    for name, scr, rows in targets:
        if scr is None or int(scr.size) == 0:
            continue
        try:
            v = np.array(th.predict_viability(scr))
            ok = np.array_equal(v, ref.pred[0][rows])
            seen = {"step": step, "on": name, "sizes_of_stage": [n_t, n_s], "viability": [float(x) for x in v]}
        except Exception as e:
            ok = False
            seen = {"step": step, "on": name, "sizes_of_stage": [n_t, n_s], "raised": "%s: %s" % (type(e).__name__, e)}
        if not ok:
            res.fail("a posterior sample sized by a derived (reloaded) screen's experiment space does not index / predict the %s" % name, c,
                     seen, {"sizes_of_prepared_screen": [ref.n_t, ref.n_s], "viability": [float(x) for x in ref.pred[0][rows]]},
                     signature=SIG_SPACE)
            return True
    return False


def check_introspective(ref, stage, case, step, res):
    """attribute completeness: every mapping / control attribute of the stage (found in vars()) and every property of its
    experiment space (found on the class) equals the prepared screen's"""
    from batchie.data import ExperimentSpace
    c = dict(case)
    c["failing_step"] = step
    d = dict_diff(ref.map_attrs, map_attrs(stage))
    if d is not None:
        res.fail("attribute '%s' of a derived screen (found by introspection) differs from the prepared screen's" % d[0], c,
                 {"step": step, "name": d[0], "derived": d[2]}, {"prepared": d[1]}, signature=SIG_MAP)
        return True
    mine = props_snapshot(ExperimentSpace.from_screen(stage))
    d = None
    for k in sorted(set(ref.space_props) | set(mine)):       # every size-like property found on the class: never smaller
        a, b = ref.space_props.get(k), mine.get(k)
        if isinstance(a, int) and not isinstance(a, bool) and (not isinstance(b, int) or b < a):
            d = (k, a, b)
            break
    if d is not None:
        res.fail("experiment-space property '%s' (found by introspection) differs from the prepared screen's" % d[0], c,
                 {"step": step, "name": d[0], "derived": d[2]}, {"prepared": d[1]}, signature=SIG_SPACE)
        return True
    return False


def map_attrs(screen):
    """every mapping / control attribute found in vars() (not the plate mapping), tables as relations (rows sorted)"""
    out = {}
    for k, v in vars(screen).items():
        if "mapping" in k and "plate" not in k and isinstance(v, tuple):
            out[k] = sorted(zip(*[[str(x) if np.asarray(col).dtype.kind in "UO" else (S.bits(x) if np.asarray(col).dtype.kind == "f" else int(x))
                                   for x in np.asarray(col).tolist()] for col in v]))
            out[k] = [list(r) for r in out[k]]
        elif "control" in k:
            out[k] = str(v)
    return out


ID_ATTRS = ("id", "mapping", "name", "dose", "control")


def id_attrs(obj):
    """the attributes C03 is about (ids, mappings, names, doses, control name), found by introspection; observation values and
    masks belong to C12"""
    return {k: v for k, v in attrs_snapshot(obj).items() if any(t in k for t in ID_ATTRS)}


def check_untouched(res, case, obj, snap, what, step):
    snap = {k: v for k, v in snap.items() if any(t in k for t in ID_ATTRS)}
    d = dict_diff(snap, id_attrs(obj))
    if d is not None:
        c = dict(case)
        c["failing_step"] = step
        res.fail("%s modifies the screen it was called on (attribute '%s')" % (what, d[0]), c, {"step": step, "name": d[0], "after": d[2]},
                 {"before": d[1]}, signature=SIG_INPUT)
        return True
    return False


# ----------------------------------------------------------------------------- one prepared screen -> reference + halves

class Prepared:
    def __init__(self, case, split=True):
        from batchie.retrospective import mask_screen
        self.raw = case_raw(case)
        self.case = case
        with maybe_verbose(case):
            self.orig = build_layout(self.raw, case.get("layout", "c"))
            self.ref = Reference(self.orig, case["theta_seed"], case["dim"])
            self.P = mask_screen(self.orig) if case["premask"] else self.orig
        self.split_error = None
        self.keep = self.test = None
        self.sel = None
        if split:
            self.split(case["split"])

    def split(self, split):
        self.split_error = None
        self.keep = self.test = self.sel = None
        try:
            with maybe_verbose(self.case):
                self.keep, self.test, self.sel = do_split(self.P, split)
        except Exception as e:
            self.split_error = e


VERBOSE = [False]          # set while a case runs under vlib.common.verbose_logging(): the CLI mains then get --verbose


def run_main(mod, argv):
    """`mod.main()` with the given command line; the `batchie` logger is put back as it was (configure_logging adds a stream
    handler and resets the level on every call) and what that handler writes is swallowed"""
    import io
    lg = logging.getLogger("batchie")
    handlers, level = list(lg.handlers), lg.level
    old_argv, old_err = sys.argv, sys.stderr
    sys.argv = list(argv) + (["--verbose"] if VERBOSE[0] else [])
    sys.stderr = io.StringIO()
    try:
        mod.main()
    except SystemExit as e:
        raise RuntimeError("command line rejected (exit %s)" % (e.code,))
    finally:
        sys.argv, sys.stderr = old_argv, old_err
        lg.handlers[:] = handlers
        lg.setLevel(level)


def cli_reveal(cur, ids, tmp):
    """save -> reveal_plate.main() -> load"""
    from batchie.cli import reveal_plate
    from batchie.data import Screen
    fin, fout = os.path.join(tmp, "cli_in.h5"), os.path.join(tmp, "cli_out.h5")
    if os.path.exists(fout):
        os.remove(fout)
    cur.save_h5(fin)
    run_main(reveal_plate, ["reveal_plate", "--screen", fin, "--output", fout, "--plate-id"] + [str(int(i)) for i in ids])
    return Screen.load_h5(fout)


# ----------------------------------------------------------------------------- the TRAINING stage through train_model.main()

def recording_model_class():
    """a subclass of the real SparseDrugCombo that records what `_add_observations` receives; made discoverable for the CLI's
    introspection (`--model VerifRecordingSparseDrugCombo`) by an attribute on the real model's module"""
    import batchie.models.sparse_combo as M
    cls = getattr(M, "VerifRecordingSparseDrugCombo", None)
    if cls is None:
        class VerifRecordingSparseDrugCombo(M.SparseDrugCombo):
            received = []

            def _add_observations(self, *args, **kwargs):
                # signature-agnostic: the call is forwarded exactly as it came; the data argument is found by binding
                try:
                    import inspect
                    data = inspect.signature(super()._add_observations).bind(*args, **kwargs).arguments["data"]
                    n = int(np.asarray(data.sample_ids).shape[0])
                    type(self).received.append({
                        "sample_ids": [int(x) for x in np.asarray(data.sample_ids)],
                        "treatment_ids": [[int(x) for x in r] for r in np.asarray(data.treatment_ids).reshape(n, -1)],
                        "sample_names": [str(x) for x in data.sample_names],
                        "treatment_names": [[str(x) for x in r] for r in data.treatment_names],
                        "treatment_doses": [[float(x) for x in r] for r in data.treatment_doses],
                        "observations": [S.bits(x) for x in data.observations]})
                except Exception as e:
                    UNEXPECTED.append(("VerifRecordingSparseDrugCombo._add_observations", "%s: %s" % (type(e).__name__, e)))
                    type(self).received.append(None)
                return super()._add_observations(*args, **kwargs)
        M.VerifRecordingSparseDrugCombo = cls = VerifRecordingSparseDrugCombo
    return cls


def trainable(stage):
    """can the training stage run on this screen: arity 2 (the real model's shape), some but valid observed rows"""
    if stage is None or int(stage.size) == 0 or int(stage.treatment_arity) != 2:
        return False
    m = np.asarray(stage.observation_mask, dtype=bool)
    o = np.asarray(stage.observations, dtype=float)[m]
    return bool(m.any()) and bool(np.all(np.isfinite(o))) and bool(np.all(o >= 0))


def trainable_with(prep, stage):
    return prep.ref.theta is not None and trainable(stage)


def train_stage(prep, stage, case, tmp, res, step):
    """The TRAINING stage of the simulation through the real `batchie.cli.train_model.main()` on the saved (partially observed)
    stage.  Oracles: (1) what the model RECEIVES -- for every observed row the (sample id, treatment ids) handed to
    `_add_observations` are the ids the prepared screen's mappings give that row's sample name and (treatment, dose)s, and the rows
    are the stage's observed rows; (2) the thetas file written: embedding sizes those of the prepared screen's space, and every saved
    posterior sample predicts on the held-out test screen / the prepared screen exactly what a reference trained in-process on the
    same rows WITH THE PREPARED IDS predicts.  Returns True when an oracle failed."""
    from batchie import sampling
    from batchie.cli import train_model
    from batchie.core import ThetaHolder
    from batchie.data import ExperimentSpace, Screen
    from batchie.models.sparse_combo import SparseDrugCombo
    ref = prep.ref
    c = dict(case)
    c["failing_step"] = step
    seed = int(case["train"]["seed"])
    cls = recording_model_class()
    fin, fout = os.path.join(tmp, "train_in.h5"), os.path.join(tmp, "train_out.h5")
    if os.path.exists(fout):
        os.remove(fout)
    # reference FIRST: the same rows, encoded with the PREPARED screen's mappings, trained in-process with the same seed; when the
    # real model itself refuses these rows (e.g. a space without any non-control treatment) there is nothing to compare
    m = np.asarray(stage.observation_mask, dtype=bool)
    orig = prep.orig
    try:
        data = Screen(treatment_names=np.asarray(stage.treatment_names)[m].copy(), treatment_doses=np.asarray(stage.treatment_doses)[m].copy(),
                      sample_names=np.asarray(stage.sample_names)[m].copy(), plate_names=np.asarray(stage.plate_names)[m].copy(),
                      observations=np.asarray(stage.observations)[m].copy(), control_treatment_name=orig.control_treatment_name,
                      treatment_mapping=orig.treatment_mapping, sample_mapping=orig.sample_mapping)
        model = SparseDrugCombo(experiment_space=ExperimentSpace.from_screen(orig), n_embedding_dimensions=2)
        model.add_observations(data)
        rh = sampling.sample(model=model, results=ThetaHolder(n_thetas=2), seed=seed, n_chains=1, chain_index=0, n_burnin=1, thin=1,
                             progress_bar=False)
        rthetas = [rh.get_theta(i) for i in range(rh.n_thetas)]
    except Exception:
        res.count("train.reference-model-refuses-the-rows")
        return False
    stage.save_h5(fin)
    cls.received = []
    try:
        run_main(train_model, ["train_model", "--data", fin, "--model", "VerifRecordingSparseDrugCombo", "--model-param",
                               "n_embedding_dimensions=2", "--output", fout, "--n-samples", "2", "--n-burnin", "1", "--thin", "1",
                               "--n-chains", "1", "--chain-index", "0", "--seed", str(seed)])
    except Exception as e:
        res.fail("train_model.main() raises on a saved, partially observed training screen", c, "%s: %s" % (type(e).__name__, e),
                 "a thetas file", signature=SIG_TRAIN)
        return True
    got = cls.received
    want_rows = sorted(zip([str(x) for x in np.asarray(stage.sample_names)[m]],
                           [tuple(str(x) for x in r) for r in np.asarray(stage.treatment_names)[m]],
                           [tuple(float(x) for x in r) for r in np.asarray(stage.treatment_doses)[m]],
                           [S.bits(x) for x in np.asarray(stage.observations)[m]]))
    rows = []
    readable = all(rec is not None for rec in got)
    for rec in (got if readable else []):
        for i in range(len(rec["sample_ids"])):
            sname, sid = rec["sample_names"][i], rec["sample_ids"][i]
            if ref.s_id.get(sname) != sid:
                res.fail("the model is trained with a sample id that is not the id of that sample name in the prepared screen", c,
                         {"step": step, "sample": sname, "id_reaching_the_model": sid, "all_sample_ids": rec["sample_ids"]},
                         {"id": ref.s_id.get(sname), "name_of_that_id_in_prepared_screen": ref.s_inv.get(sid)}, signature=SIG_TRAIN)
                return True
            for j in range(len(rec["treatment_ids"][i])):
                key = (rec["treatment_names"][i][j], rec["treatment_doses"][i][j])
                tid = rec["treatment_ids"][i][j]
                if ref.t_id.get(key) != tid:
                    res.fail("the model is trained with a treatment id that is not the id of that (treatment, dose) in the prepared screen", c,
                             {"step": step, "treatment": key[0], "dose": key[1], "id_reaching_the_model": tid, "all_treatment_ids": rec["treatment_ids"]},
                             {"id": ref.t_id.get(key), "condition_of_that_id_in_prepared_screen": ref.t_inv.get(tid)}, signature=SIG_TRAIN)
                    return True
            rows.append((sname, tuple(rec["treatment_names"][i]), tuple(rec["treatment_doses"][i]), rec["observations"][i]))
    if readable:
        # tie: the Lean model of the training stage (`TrainStage.trainRows` on the saved stage screen) hands over the same rows with
        # the same ids, in the same order
        recv = "ok " + S.lst(("%s|%s|%s|%d|%d|%s" % (S.name_tok(rec["sample_names"][i]), S.lst(S.name_tok(x) for x in rec["treatment_names"][i]),
                                                      S.lst(S.dose_tok(x) for x in rec["treatment_doses"][i]), rec["observations"][i],
                                                      rec["sample_ids"][i], S.show_ids(rec["treatment_ids"][i]))
                              for rec in got for i in range(len(rec["sample_ids"]))), ";")
        TRAIN_TIES.append(("trainrows " + S.raw_to_tokens(S.raw_of_screen(stage, with_maps=True)), recv,
                           {"side": case.get("side"), "split": case.get("split"), "ops": case.get("ops"), "premask": case.get("premask"), "step": step}))
    if readable and sorted(rows) != want_rows:
        res.fail("the rows reaching the model are not the observed rows of the training screen", c,
                 {"step": step, "n_received": len(rows)}, {"n_observed": len(want_rows)}, signature=SIG_TRAIN)
        return True
    # ---- the file written
    try:
        holder = ThetaHolder(n_thetas=2).load_h5(fout)
        thetas = [holder.get_theta(i) for i in range(holder.n_thetas)]
    except Exception as e:
        res.fail("the thetas file written by train_model.main() does not load", c, "%s: %s" % (type(e).__name__, e), "two posterior samples",
                 signature=SIG_TRAIN)
        return True
    if len(thetas) != len(rthetas):
        res.fail("train_model.main() saved another number of posterior samples than asked for", c, len(thetas), len(rthetas), signature=SIG_TRAIN)
        return True
    for name, scr in (("held-out test screen", prep.test), ("prepared screen", prep.orig)):
        if scr is None or int(scr.size) == 0:
            continue
        for i, (a, b) in enumerate(zip(thetas, rthetas)):
            try:
                va, vb = np.array(a.predict_viability(scr)), np.array(b.predict_viability(scr))
                ok = np.array_equal(va, vb)
                seen = {"step": step, "on": name, "theta": i, "viability": [float(x) for x in va]}
            except Exception as e:
                ok, vb = False, None
                seen = {"step": step, "on": name, "theta": i, "raised": "%s: %s" % (type(e).__name__, e)}
            if not ok:
                res.fail("posterior samples saved by train_model.main() predict on the %s differently from samples trained with the "
                         "prepared screen's ids on the same rows (same seed)" % name, c, seen,
                         {"viability": None if vb is None else [float(x) for x in vb]}, signature=SIG_TRAIN)
                return True
    return False


def apply_op(cur, op, tmp):
    from batchie.data import Screen
    from batchie.retrospective import mask_screen, unmask_screen, reveal_plates
    k = op[0]
    if k == "m":
        return mask_screen(cur)
    if k == "u":
        return unmask_screen(cur)
    if k == "r":
        return reveal_plates(cur, [int(i) for i in op[1]])
    if k == "s":
        fn = os.path.join(tmp, "s.h5")
        cur.save_h5(fn)
        return Screen.load_h5(fn)
    if k == "cli":
        return cli_reveal(cur, op[1], tmp)
    raise ValueError("unknown op %r" % (op,))


def op_tok(op):
    if op[0] in ("m", "u", "s"):
        return op[0]
    ids = "-" if not op[1] else ",".join(str(int(i)) for i in op[1])
    return "r" + ids if op[0] == "r" else "s+r" + ids + "+s"


def gen_op(rng, cur, lean=False):
    """next operation, chosen looking at the current stage (plate ids are renumbered per stage);
    `lean` (thorough tier) halves the share of the file-based steps, which cost 15-50 ms each"""
    pids = [int(x) for x in np.unique(cur.plate_ids)]
    all_obs = bool(np.all(cur.observation_mask))
    w = {"m": 30 if all_obs else 12, "u": 10, "r": 42, "s": 10 if lean else 16, "cli": 5 if lean else 10}
    kinds = list(w)
    k = rng.choices(kinds, [w[x] for x in kinds])[0]
    if k in ("m", "u", "s"):
        return [k]
    z = rng.random()
    if z < 0.02 and k == "r":
        ids = []                                           # refuses (empty selection)
    elif z < 0.04:
        ids = [len(pids) + rng.randint(0, 3)]              # only unknown ids: refuses
    else:
        pool = pids if pids else [0]
        ids = [rng.choice(pool) for _ in range(rng.randint(1, 3))]
        if rng.random() < 0.15:
            ids.insert(rng.randrange(len(ids) + 1), rng.choice([len(pids) + rng.randint(0, 3), -1, 1000]))
        if rng.random() < 0.1:
            ids = ids + ids[:1]
    return [k, ids]


import contextlib


@contextlib.contextmanager
def maybe_verbose(case):
    """cases with "verbose": true run the way every command runs under -v/--verbose (replay re-enters this)"""
    if case.get("verbose"):
        with common.verbose_logging():
            VERBOSE[0] = True
            try:
                yield
            finally:
                VERBOSE[0] = False
    else:
        yield


def run_side(prep, case, tmp, res, gen=None, n_ops=0, check=True, lean=False):
    with maybe_verbose(case):
        return _run_side(prep, case, tmp, res, gen=gen, n_ops=n_ops, check=check, lean=lean)


def _run_side(prep, case, tmp, res, gen=None, n_ops=0, check=True, lean=False):
    """history on one half.  With `gen` the operations are generated (and recorded in case['ops']), otherwise the recorded
    ones are re-executed.  Returns (model line, impl entries, info)."""
    side = case["side"]
    ref = prep.ref
    entries = [("stage", show_stage(prep.orig))]
    info = {"failed": False, "ok_structural": 0, "steps": 0, "zero_row": False, "ended": None}
    head = []
    failed = False
    sizes = (ref.n_t, ref.n_s)
    all_rows = np.arange(int(prep.orig.size))
    if check:
        failed, sizes = check_stage(ref, prep.orig, all_rows, sizes, case, "prepared", res)
    if case["premask"]:
        head.append("m")
        entries.append(("stage", show_stage(prep.P)))
        if check and not failed:
            failed, sizes = check_stage(ref, prep.P, all_rows, sizes, case, "prepared+mask_screen", res)
    sel = prep.sel if prep.sel is not None else [bool(b) for b in case["split"]["sel"]]
    head.append(("h" if side == "train" else "H") + S.sel_tok(sel))
    cur = None
    if prep.split_error is not None:
        entries.append(("stage", S.err_tok(prep.split_error)))
        info["ended"] = "split:" + S.err_tok(prep.split_error)
    else:
        cur = prep.keep if side == "train" else prep.test
        selv = np.array(sel, dtype=bool)
        rows = all_rows[~selv] if side == "train" else all_rows[selv]
        entries.append(("stage", show_stage(cur)))
        info["zero_row"] = int(cur.size) == 0
        targets = [("training half", prep.keep, all_rows[~selv]), ("held-out test screen", prep.test, all_rows[selv]),
                   ("prepared screen", prep.orig, all_rows)]
        if check and not failed:
            failed, sizes = check_stage(ref, cur, rows, sizes, case, "hold-out", res)
        if check and not failed:
            failed = check_introspective(ref, cur, case, "hold-out", res) or check_resized_theta(ref, cur, targets, case, "hold-out", res)
    watched = [(o, attrs_snapshot(o), n) for o, n in ((prep.orig, "prepared screen"), (prep.P, "split screen"), (prep.keep, "training half"),
                                                     (prep.test, "held-out half")) if o is not None] if check else []
    ops = case["ops"] if gen is None else []
    done = []
    t = 0
    while cur is not None:
        if gen is None:
            if t >= len(ops):
                break
            op = ops[t]
        else:
            if t >= n_ops:
                break
            op = gen_op(gen, cur, lean)
        done.append(op)
        t += 1
        before = attrs_snapshot(cur) if check else None
        try:
            nxt = apply_op(cur, op, tmp)
        except Exception as e:
            if check and not failed:
                failed = check_untouched(res, dict(case, ops=list(done)), cur, before, "a refused / failing " + op_tok(op), "op %d: %s" % (t - 1, op_tok(op)))
            entries.append(("cli" if op[0] == "cli" else "stage", S.err_tok(e)))
            info["ended"] = "%s:%s" % (op[0], S.err_tok(e))
            break
        prev, cur = cur, nxt
        info["steps"] += 1
        if op[0] in ("m", "u", "r"):
            info["ok_structural"] += 1
        entries.append(("cli" if op[0] == "cli" else "stage", show_stage(cur)))
        step = "op %d: %s" % (t - 1, op_tok(op))
        if check and not failed:               # the recorded case holds the history up to this step
            failed, sizes = check_stage(ref, cur, rows, sizes, dict(case, ops=list(done)), step, res)
        if check and not failed:
            failed = check_untouched(res, dict(case, ops=list(done)), prev, before, op_tok(op), step) \
                or check_introspective(ref, cur, dict(case, ops=list(done)), step, res)
        if check and not failed and op[0] in ("s", "cli"):
            # a model sized by the RELOADED stage must still index the training half, the test screen and the prepared screen
            failed = check_resized_theta(ref, cur, targets, dict(case, ops=list(done)), step, res)
            info["reloads"] = info.get("reloads", 0) + 1
    if check and not failed and cur is not None and case.get("train") and trainable_with(prep, cur):
        before = attrs_snapshot(cur)
        failed = train_stage(prep, cur, dict(case, ops=list(done)), tmp, res, "training stage after %d op(s)" % len(done))
        info["trained"] = True
        if not failed:
            failed = check_untouched(res, dict(case, ops=list(done)), cur, before, "train_model (saving the training screen)", "training stage")
    if check and not failed:
        for o, snap, name in watched:
            if check_untouched(res, dict(case, ops=list(done)), o, snap, "the history (its input, the %s,)" % name, "end of history"):
                failed = True
                break
    if gen is not None:
        case["ops"] = done
    info["failed"] = failed
    line = "hist " + "+".join(head + [op_tok(o) for o in done]) + " " + S.raw_to_tokens(prep.raw)
    return line, entries, info


def expected_vs_model(entries, model_line):
    """aligns the implementation's entries with the model trace (a CLI step is `s+r<ids>+s` in the model).
    returns None when they agree, else (impl text, model text) of the first difference"""
    toks = model_line.split(" # ")
    j = 0
    for n, (kind, val) in enumerate(entries):
        if kind == "stage":
            got = toks[j] if j < len(toks) else "<trace ended>"
            if got != val:
                return "entry %d: %s" % (n, val), "entry %d: %s" % (n, got)
            j += 1
        else:
            seg = toks[j:j + 3]
            errs = [x for x in seg if x.startswith("err:")]
            if val.startswith("err:"):
                ok = bool(seg) and seg[-1] == val and len(errs) == 1 and j + len(seg) == len(toks)
            else:
                ok = len(seg) == 3 and not errs and seg[2] == val
            if not ok:
                return "entry %d (cli): %s" % (n, val), "entry %d (s+r+s): %s" % (n, " # ".join(seg) if seg else "<trace ended>")
            j += len(seg)
    if j != len(toks):
        return "trace of %d entries ended" % len(entries), "extra: " + " # ".join(toks[j:])
    return None


# ----------------------------------------------------------------------------- case generation

def gen_prepared(rng, n_max):
    while True:
        arity = rng.choice([1, 1, 2, 2, 2, 2, 2, 3])
        raw = S.gen_raw(rng, n_max=n_max, arity=arity, n_plates=rng.randint(2, 8), all_observed=rng.random() < 0.5,
                        n_samples=rng.randint(2, 4), obs_values=OBS_VALUES)
        if len(raw["snames"]) >= 4:
            break
    kind = "fresh"
    y = rng.random()
    if y < 0.07:
        # >= 11 samples / treatments with numeric suffixes: two-digit ids, s10 sorts before s2
        raw = many_names_raw(rng)
        raw["obs"] = [rng.choice(OBS_VALUES) for _ in raw["snames"]]
        kind = "many-names"
    elif y < 0.17:
        # names of 17..130 characters (longer than any fixed-width buffer a refactor might allocate)
        raw, did = whitespace_rename(rng, raw, variants=lambda x: [x + "_" + "0123456789abcdef" * k + t for k in (1, 2, 4, 8)
                                                                     for t in ("", "\u00e9")])
        kind = "long-names" if did else kind
    z = rng.random()
    if z < 0.05:                                   # one plate all zero: revealing it alone refuses
        p = rng.choice(raw["pnames"])
        raw["obs"] = [0.0 if q == p else x for q, x in zip(raw["pnames"], raw["obs"])]
        kind += "+zero-plate"
    elif z < 0.10:                                 # a NaN: revealing its plate refuses
        raw["obs"][rng.randrange(len(raw["obs"]))] = S.from_bits(rng.choice(NAN_BITS))
        kind += "+nan-row"
    if rng.random() < 0.18:
        try:
            tm, sm = S.superset_mappings(rng, raw)
            kind += "+superset-mapping"
            if rng.random() < 0.5:
                # a HAND-MADE table for the same relation: ids relabelled by a permutation, rows shuffled (not sorted by name,
                # ids not in table order) -- every stage must keep reading ids off THIS table, row by row
                tm, sm = permute_mappings(rng, tm, sm)
                kind += "-hand-made"
            raw["tmap"] = [[str(x) for x in tm[0]], [float(x) for x in tm[1]], [int(x) for x in tm[2]]]
            raw["smap"] = [[str(x) for x in sm[0]], [int(x) for x in sm[1]]]
        except Exception:
            raw["tmap"] = raw["smap"] = None
    return raw, kind


def hand_selection(rng, orig, ref, allowed):
    """hold out every row containing one sample name or one non-control (treatment, dose); rows outside `allowed` must stay"""
    n = int(orig.size)
    sn = [str(x) for x in orig.sample_names]
    tn = [[str(x) for x in r] for r in orig.treatment_names]
    td = [[float(x) for x in r] for r in orig.treatment_doses]
    cands = []
    for name in sorted(set(sn)):
        cands.append(("sample", name, [i for i in range(n) if sn[i] == name]))
    conds = sorted(set((a, b) for i in range(n) for a, b in zip(tn[i], td[i]) if ref.t_id.get((a, b), -1) >= 0))
    for c in conds:
        cands.append(("treatment", c, [i for i in range(n) if c in list(zip(tn[i], td[i]))]))
    cands = [c for c in cands if all(allowed[i] for i in c[2])]
    if not cands:
        return None, None
    proper = [c for c in cands if len(c[2]) < n]
    kind, what, rows = rng.choice(proper if proper and rng.random() < 0.9 else cands)
    sel = [False] * n
    for i in rows:
        sel[i] = True
    if rng.random() < 0.35:                        # and a few more rows
        for i in range(n):
            if allowed[i] and rng.random() < 0.2:
                sel[i] = True
    return sel, kind


def gen_split(rng, prep_orig, P, ref):
    n = int(P.size)
    unobs = [not bool(b) for b in P.observation_mask]
    z = rng.random()
    if z < 0.25:
        return {"fn": "random", "mode": "rng", "seed": rng.randrange(2 ** 31), "fraction": rng.choice(FRACTIONS)}, "random-rng"
    if z < 0.45:
        return {"fn": "balanced", "mode": "rng", "seed": rng.randrange(2 ** 31), "fraction": rng.choice(FRACTIONS)}, "balanced-rng"
    if z < 0.65 and any(unobs):
        sel, kind = hand_selection(rng, prep_orig, ref, unobs)
        if sel is not None:
            return {"fn": "balanced", "mode": "stub", "seed": None, "fraction": 0.5, "sel": [int(b) for b in sel]}, "balanced-stub:" + kind
    sel, kind = hand_selection(rng, prep_orig, ref, [True] * n)
    if sel is None:
        sel, kind = [i == 0 for i in range(n)], "first-row"
    return {"fn": "random", "mode": "stub", "seed": None, "fraction": stub_fraction(sum(sel), n), "sel": [int(b) for b in sel]}, "random-stub:" + kind


def obs_bits_list(raw):
    return None if raw["obs"] is None else [S.bits(x) for x in raw["obs"]]


def witness_cases():
    base = {"raw": WITNESS_RAW, "obs_bits": obs_bits_list(WITNESS_RAW), "premask": False, "theta_seed": 3, "dim": 2,
            "split": {"fn": "random", "mode": "stub", "seed": None, "fraction": stub_fraction(2, 6), "sel": [1, 0, 0, 0, 0, 1]},
            "kind": "witness"}
    tr = dict(base, side="train", ops=[["m"], ["r", [1, 0]], ["s"], ["cli", [2]], ["u"], ["m"], ["r", [2, 2, 7]]])
    te = dict(base, side="test", ops=[["m"], ["r", [0]], ["s"], ["cli", [1, 0]], ["u"]])
    bal = dict(base, premask=True, side="train", ops=[["r", [2]], ["cli", [0, 1]], ["m"], ["s"], ["u"]])
    bal["split"] = {"fn": "balanced", "mode": "stub", "seed": None, "fraction": 0.5, "sel": [1, 0, 0, 0, 0, 1]}
    return [tr, te, bal]


def position_cases():
    """fixed corpus: ONE sample / (treatment, dose) occurs only in held-out rows and sorts at the START, in the MIDDLE or at the
    END of the prepared screen's names (a name that sorts after every name still present leaves the ROW ids of a fresh
    re-encoding unchanged while the mapping table and the embedding sizes shrink); both sides run histories that save and reload
    (library and CLI) the screen repeatedly"""
    samples = ["s1", "s3", "s5", "s7"]
    treats = ["t1", "t3", "t5", "t7"]
    tn, sn, pn, obs = [], [], [], []
    for i, sname in enumerate(samples):
        for j in range(3):
            tn.append([treats[(i + j) % 4], treats[(i + j + 1) % 4]])
            sn.append(sname)
            pn.append("p%d" % ((i + j) % 3))
            obs.append(0.05 + 0.07 * (3 * i + j))
    raw = dict(ctrl="control", arity=2, tnames=tn, tdoses=[[1.0, 1.0]] * len(sn), snames=sn, pnames=pn, obs=obs, mask=None, tmap=None, smap=None)
    out = []
    for what, names in (("sample", samples), ("treatment", treats)):
        for pos, idx in (("start", 0), ("middle", 2), ("end", 3)):
            name = names[idx]
            sel = [int(name == sn[r] if what == "sample" else name in tn[r]) for r in range(len(sn))]
            base = {"raw": raw, "obs_bits": obs_bits_list(raw), "premask": False, "theta_seed": 11 + idx, "dim": 2,
                    "kind": "position-%s-%s" % (what, pos),
                    "split": {"fn": "random", "mode": "stub", "seed": None, "fraction": stub_fraction(sum(sel), len(sel)), "sel": sel}}
            out.append(dict(base, side="train", ops=[["s"], ["m"], ["s"], ["r", [1, 0]], ["s"], ["cli", [2]], ["s"], ["u"], ["s"]]))
            out.append(dict(base, side="test", ops=[["s"], ["m"], ["r", [0]], ["cli", [1]], ["s"]]))
    return out


def train_corpus_cases():
    """fixed corpus for the TRAINING stage (real train_model.main()): one sample per plate; after hold-out + mask only ONE plate is
    revealed -- the last-sorting sample's (the normal early state of a retrospective simulation: the observed rows lack every sample
    and two (treatment, dose)s that sort BEFORE the ones present), the first-sorting one (plate id 0, sample id 0) or a middle one --
    the screen is saved and reloaded, then the model is trained through the command line on it; seeds 0 and 7"""
    rows = [("s1", "t1", "t3"), ("s1", "t3", "t5"), ("s1", "t1", "t5"), ("s3", "t1", "t3"), ("s3", "t3", "t7"), ("s3", "control", "t1"),
            ("s5", "t1", "t5"), ("s5", "t5", "t7"), ("s5", "t3", "t1"), ("s7", "t5", "t7"), ("s7", "t7", "t5"), ("s7", "control", "t7"),
            ("s7", "t7", "t7")]
    raw = dict(ctrl="control", arity=2, tnames=[[a, b] for _, a, b in rows], tdoses=[[0.0 if a == "control" else 1.0, 1.0] for _, a, b in rows],
               snames=[x for x, _, _ in rows], pnames=["plate_" + x for x, _, _ in rows],
               obs=[0.05 + 0.07 * i for i in range(len(rows))], mask=None, tmap=None, smap=None)
    sel = [int(i in (1, 10)) for i in range(len(rows))]                 # one row of s1 and one of s7 are held out
    out = []
    for pid, seed, verbose in ((3, 0, False), (3, 7, True), (0, 0, False), (1, 7, False)):
        out.append({"raw": raw, "obs_bits": obs_bits_list(raw), "premask": False, "theta_seed": 5, "dim": 2, "kind": "train-corpus-plate-%d" % pid,
                    "split": {"fn": "random", "mode": "stub", "seed": None, "fraction": stub_fraction(2, len(rows)), "sel": sel},
                    "side": "train", "ops": [["m"], ["r", [pid]], ["s"]], "train": {"seed": seed}, "verbose": verbose})
    return out


# ----------------------------------------------------------------------------- the simulation as the real prepare command writes it

def prepare_corpus(rng):
    """fixed corpus for the prepare command: one plate per row group, one sample per plate; the sample `A_rare` has ONE plate and sorts
    before the kept samples, so a smoother that drops it (NPlatePerCellLineSmoother min 2) re-encodes whatever screen it is applied to;
    FixedSize / OptimalSize drop / truncate plates.  Several seeds (the revealed first plate is drawn)."""
    layout = [("A_rare", "pa", 3), ("B_line", "pb1", 3), ("B_line", "pb2", 4), ("C_line", "pc1", 3), ("C_line", "pc2", 3), ("D_line", "pd1", 2),
              ("D_line", "pd2", 3), ("D_line", "pd3", 2)]
    tn, td, sn, pn = [], [], [], []
    k = 0
    for smp, plate, n in layout:
        for i in range(n):
            a, b = ("t%d" % (1 + (k + i) % 3), "u%d" % (1 + (k // 2 + i) % 2))
            tn.append([a, b] if i % 2 == 0 else [b, a])
            td.append([1.0, 2.0] if i % 2 == 0 else [2.0, 1.0])
            sn.append(smp)
            pn.append(plate)
        k += 1
    # u9 occurs only with the rare sample: a (treatment, dose) that disappears with it -- it sorts after u1/u2, t9 before them
    tn[0], td[0] = ["t0", "u9"], [1.0, 2.0]
    tn[1], td[1] = ["u9", "t0"], [2.0, 1.0]
    raw = dict(ctrl="control", arity=2, tnames=tn, tdoses=td, snames=sn, pnames=pn, obs=[0.05 + 0.03 * i for i in range(len(sn))],
               mask=None, tmap=None, smap=None)
    out = []
    for sm, params in (("sm-nplate", {"k": 2}), ("sm-nplate", {"k": 3}), ("sm-fixed", {"k": 3}), ("sm-opt", {}), (None, {})):
        for seed in ((0, 1, 2, 3) if sm == "sm-nplate" else (0, 5)):
            pc = {"op": "pipeline", "raw": raw, "npseed": seed,
                  "params": {"init": None, "gen": None, "sm": None if sm is None else {"op": sm, "params": params}, "fraction": rng.choice([0.34, 0.5, 0.25])}}
            out.append({"kind": "prepare", "pcase": pc, "obs_bits": obs_bits_list(raw), "ops": [["r", [0, 1]], ["s"], ["cli", [2]]],
                        "train": {"seed": seed}, "theta_seed": 3, "dim": 2, "corpus": True})
    return out


class FromFiles:
    """the pair of screens one run of the prepare command wrote, in the shape the lifecycle oracles expect"""

    def __init__(self, train, test, case):
        self.orig = train
        self.test = test
        self.keep = train
        self.ref = Reference(train, case["theta_seed"], case["dim"])


def relation(scr):
    tm, sm = scr.treatment_mapping, scr.sample_mapping
    return ({(str(a), S.bits(b)): int(c) for a, b, c in zip(*tm)}, {str(a): int(c) for a, c in zip(*sm)})


def check_pair(train, test, case, res):
    """clause 1 on the two files of ONE prepared simulation: the same sample name / (treatment, dose) has the same id in the training
    and in the test screen (rows and stored mappings), and the embedding sizes implied by the training screen cover the test ids"""
    from batchie.data import ExperimentSpace
    tt, ts = relation(train)
    for name, scr in (("training", train), ("test", test)):
        if scr is None:
            continue
        ut, us = relation(scr)
        sn = [str(x) for x in scr.sample_names]
        si = [int(x) for x in scr.sample_ids]
        for i in range(len(sn)):
            if sn[i] in ts and ts[sn[i]] != si[i]:
                res.fail("a sample has different ids in the training and the test screen written by ONE prepare_retrospective_simulation run", case,
                         {"screen": name, "row": i, "sample": sn[i], "id": si[i]}, {"id_in_training_screen_mapping": ts[sn[i]]}, signature=SIG_PREP)
                return True
        tn = [[str(x) for x in r] for r in scr.treatment_names]
        td = [[S.bits(x) for x in r] for r in scr.treatment_doses]
        ti = [[int(x) for x in r] for r in np.asarray(scr.treatment_ids).tolist()] if len(sn) else []
        for i in range(len(sn)):
            for j in range(len(tn[i])):
                key = (tn[i][j], td[i][j])
                if key in tt and tt[key] != ti[i][j]:
                    res.fail("a (treatment, dose) has different ids in the training and the test screen written by ONE "
                             "prepare_retrospective_simulation run", case,
                             {"screen": name, "row": i, "treatment": key[0], "dose": S.from_bits(key[1]), "id": ti[i][j]},
                             {"id_in_training_screen_mapping": tt[key]}, signature=SIG_PREP)
                    return True
        for k_, v in us.items():
            if k_ in ts and ts[k_] != v:
                res.fail("the stored sample mappings of the training and the test screen of one prepared simulation disagree on a common name", case,
                         {"sample": k_, "id_in_%s" % name: v}, {"id_in_training": ts[k_]}, signature=SIG_PREP)
                return True
        for k_, v in ut.items():
            if k_ in tt and tt[k_] != v:
                res.fail("the stored treatment mappings of the training and the test screen of one prepared simulation disagree on a common "
                         "(treatment, dose)", case, {"treatment": k_[0], "dose": S.from_bits(k_[1]), "id_in_%s" % name: v},
                         {"id_in_training": tt[k_]}, signature=SIG_PREP)
                return True
    if test is not None and int(test.size) > 0:
        sp = ExperimentSpace.from_screen(train)
        need_t = max([int(x) for x in np.asarray(test.treatment_ids).reshape(-1)], default=-1)
        need_s = max([int(x) for x in test.sample_ids], default=-1)
        if need_t >= int(sp.n_unique_treatments) or need_s >= int(sp.n_unique_samples):
            res.fail("the embedding sizes implied by the training screen do not cover the ids of the test screen of the same prepared simulation", case,
                     {"n_unique_treatments": int(sp.n_unique_treatments), "n_unique_samples": int(sp.n_unique_samples)},
                     {"max_treatment_id_in_test": need_t, "max_sample_id_in_test": need_s}, signature=SIG_SPACE)
            return True
    return False


def run_prepare_case(case, tmp, res, gen=None):
    """the real `prepare_retrospective_simulation.main()` (argv + files), clause 1 on the two files it writes, then the lifecycle
    (reveal / save+load / reveal_plate CLI / training through train_model.main()) continued from the training file.
    Returns (model line, entries) for the tie or None."""
    from batchie.cli import prepare_retrospective_simulation as prep_cli
    from batchie.data import Screen
    from harness import prep_pipeline as PP
    with maybe_verbose(case):
        pc = dict(case["pcase"])
        raw = dict(pc["raw"])
        if case.get("obs_bits") is not None:
            raw["obs"] = [S.from_bits(b) for b in case["obs_bits"]]
        d = os.path.join(tmp, "prep")
        shutil.rmtree(d, ignore_errors=True)
        os.makedirs(d)
        try:
            S.build(raw).save_h5(os.path.join(d, "in.h5"))
        except Exception:
            res.count("prepare.input-not-constructible")
            return None
        try:
            run_main(prep_cli, PP.argv_of(pc, d))
        except Exception as e:
            res.count("prepare.refused." + type(e).__name__)         # the property does not demand that every configuration can be prepared
            return None
        try:
            train = Screen.load_h5(os.path.join(d, "train.h5"))
        except Exception:
            res.count("prepare.training-file-not-loadable")          # zero-row training screen: known finding C02:zero-row-screen
            return None
        try:
            test = Screen.load_h5(os.path.join(d, "test.h5"))
        except Exception:
            test = None
            res.count("prepare.test-file-not-loadable")              # fraction 0: zero-row test screen (known finding C02:zero-row-screen)
        res.count("class.entry-point.prepare_retrospective_simulation")
        sm = pc["params"]["sm"]
        res.count("prepare.smoother.%s" % (sm["op"] if sm else "none"))
        if int(train.size) < int(S.build(raw).size) - (int(test.size) if test is not None else 0):
            res.count("prepare.rows-dropped")
        if len(set(str(x) for x in train.sample_names) | (set(str(x) for x in test.sample_names) if test is not None else set())) < len(set(raw["snames"])):
            res.count("prepare.sample-dropped")
        if check_pair(train, test, case, res):
            return None
        # ---- the lifecycle continued from the files
        prep = FromFiles(train, test, case)
        ref = prep.ref
        rows = np.arange(int(train.size))
        entries = [("stage", show_stage(train))]
        failed, sizes = check_stage(ref, train, rows, (ref.n_t, ref.n_s), case, "training file", res)
        cur = train
        done = []
        ops = case["ops"] if gen is None else None
        t = 0
        while not failed:
            if gen is None:
                if t >= len(ops):
                    break
                op = ops[t]
            else:
                if t >= case["n_ops"]:
                    break
                op = gen_op(gen, cur, False)
            t += 1
            done.append(op)
            try:
                cur = apply_op(cur, op, tmp)
            except Exception as e:
                entries.append(("cli" if op[0] == "cli" else "stage", S.err_tok(e)))
                break
            entries.append(("cli" if op[0] == "cli" else "stage", show_stage(cur)))
            failed, sizes = check_stage(ref, cur, rows, sizes, dict(case, ops=list(done)), "op %d: %s" % (t - 1, op_tok(op)), res)
            if not failed and check_pair(cur, test, dict(case, ops=list(done)), res):
                failed = True
        if gen is not None:
            case["ops"] = done
        if not failed and not entries[-1][1].startswith("err:") and case.get("train") and trainable_with(prep, cur):
            train_stage(prep, cur, dict(case, ops=list(done)), tmp, res, "training stage after prepare + %d op(s)" % len(done))
            res.count("class.entry-point.train_model")
        line = "hist " + ("+".join(op_tok(o) for o in done) if done else "-") + " " + S.raw_to_tokens(S.raw_of_screen(train, with_maps=True))
        return line, entries


def name_positions(orig, hs, ht):
    """where the hold-out-only names sit in the sort order of the prepared screen's mapping names: start / middle / end"""
    out = set()
    sn = sorted(set(str(x) for x in orig.sample_mapping[0]))
    for x in hs:
        i = sn.index(x)
        out.add("sample-" + ("start" if i == 0 else "end" if i == len(sn) - 1 else "middle"))
    tm = orig.treatment_mapping
    keys = sorted(set((str(a), float(b)) for a, b, c in zip(*tm) if int(c) >= 0))
    for x in ht:
        i = keys.index((x[0], float(x[1])))
        out.add("treatment-" + ("start" if i == 0 else "end" if i == len(keys) - 1 else "middle"))
    return out


# ----------------------------------------------------------------------------- entry points

def account(res, case, info):
    res.count("side." + case["side"])
    for op in case["ops"]:
        res.count("op." + op[0])
    res.count("history.len.%s" % ("0" if not case["ops"] else "1-3" if len(case["ops"]) <= 3 else "4-8" if len(case["ops"]) <= 8 else "9+"))
    if info["ended"]:
        res.count("history.ended." + info["ended"])
    if info["zero_row"]:
        res.count("half.zero-row." + case["side"])


def run(ctx, res):
    res.rule = RULE
    rng = ctx.subrng("c03")
    n_cases = ctx.scale(150, 3000, 1500)
    n_max = 14 if ctx.tier == "quick" and ctx.mode != "search" else 40
    max_ops = 8 if ctx.tier == "quick" and ctx.mode != "search" else 20
    lean = max_ops > 8
    tmp = tempfile.mkdtemp(prefix="verif_c03_")
    queue = []                                      # (line, entries, case)
    try:
        # fixed corpus: DESIGN section 7 #1
        xproc = []
        for case in witness_cases() + position_cases() + train_corpus_cases():
            try:
                prep = Prepared(case)
            except Exception as e:
                res.fail("constructing / masking a valid prepared screen raises", case, "%s: %s" % (type(e).__name__, e), "a screen")
                continue
            line, entries, info = run_side(prep, case, tmp, res)
            res.evaluations += 1
            res.count("corpus.witness" if case["kind"] == "witness" else "corpus.train" if case.get("train") else "corpus.position")
            if info.get("trained"):
                res.count("class.entry-point.train_model")
            if any(o[0] == "cli" for o in case["ops"]):
                res.count("class.entry-point.reveal_plate")
            if case.get("verbose"):
                res.count("class.verbose-logging")
            queue.append((line, entries, case))
            hs, ht = holdout_only(prep.orig, prep.sel, prep.ref)
            if case["kind"] != "witness":
                for pos in name_positions(prep.orig, hs, ht):
                    res.count("class.non-default-ids.hold-out-only-%s.%s" % (pos, case["side"]))
                res.count("class.non-default-ids")
                if info.get("reloads"):
                    res.count("class.non-default-ids.reloaded-stage-sizes-a-model", info["reloads"])
            if (hs or ht) and case["side"] == "train" and info["ok_structural"]:
                res.nontrivial.add(common.short_hash([case["raw"], case["split"], case["ops"]]))
            res.sample({"kind": "witness", "side": case["side"], "hold-out-only": {"samples": hs, "treatments": [list(x) for x in ht]},
                        "line": line[:260], "final": entries[-1][1][:200]}, limit=2)
        t_start = time.time()
        budget = 75 if max_ops == 8 else 420            # seconds; a loaded machine must not push the tier over its limit
        for t in range(n_cases):
            if time.time() - t_start > budget:
                res.notes.append("time budget of %d s reached after %d of %d prepared screens" % (budget, t, n_cases))
                break
            raw, prep_kind = gen_prepared(rng, n_max)
            base = {"raw": raw, "obs_bits": obs_bits_list(raw), "premask": rng.random() < 0.4,
                    "theta_seed": rng.randrange(2 ** 31), "dim": rng.choice([2, 3]), "kind": prep_kind,
                    "layout": rng.choice(LAYOUTS) if rng.random() < 0.25 else "c", "verbose": t % 7 == 3}
            # the split is chosen looking at the built screen (unobserved plates, conditions)
            try:
                prep = Prepared(base, split=False)
            except Exception as e:
                res.fail("constructing / masking a valid prepared screen raises", base, "%s: %s" % (type(e).__name__, e), "a screen")
                continue
            split, kind_split = gen_split(rng, prep.orig, prep.P, prep.ref)
            base["split"] = split
            prep.split(split)
            if prep.sel is not None:
                if split["mode"] == "stub" and [int(b) for b in prep.sel] != split["sel"]:
                    res.notes.append("stub selection not honoured: %s vs %s" % (prep.sel, split["sel"]))
                split["sel"] = [int(b) for b in prep.sel]
                hs, ht = holdout_only(prep.orig, prep.sel, prep.ref)
            else:
                hs, ht = [], []
            # ---- hardening-checklist classes ---------------------------------------------------------------------
            res.count("class.input-mutation")                      # every screen object snapshotted (all attributes) around every step
            res.count("class.attribute-completeness")              # mapping/control attributes + space properties by introspection
            if base["layout"] != "c" or "long-names" in prep_kind:
                res.count("class.memory-layout-dtype")
            if "hand-made" in prep_kind or "superset" in prep_kind or hs or ht:
                res.count("class.non-default-ids")
            for pos in name_positions(prep.orig, hs, ht):
                res.count("class.non-default-ids.hold-out-only-" + pos)
            if "many-names" in prep_kind:
                res.count("class.size-boundary.ge-11-names")
            sn_ = raw["snames"]
            if any(sn_[i] != sn_[i - 1] and sn_[i] in sn_[:i - 1] for i in range(2, len(sn_))):
                res.count("class.row-orderings")                   # rows of a sample not contiguous (A, B, A)
            if (split["mode"] == "rng" and split["fraction"] in (0.0, 1.0)) or any(p.endswith("start") for p in name_positions(prep.orig, hs, ht)):
                res.count("class.falsy-boundaries")                # fraction 0 / 1, id 0 (first name in sort order) only held out
            if prep.sel is not None and prep.split_error is None:
                # object reuse: the SAME screen object split once more with the same selection gives the same halves
                try:
                    k2, t2, _ = do_split(prep.P, dict(split, mode="stub", sel=[int(b) for b in prep.sel],
                                                      fraction=split["fraction"] if split["mode"] == "stub" else
                                                      (stub_fraction(sum(prep.sel), len(prep.sel)) if split["fn"] == "random" else split["fraction"])))
                    res.count("class.object-reuse")
                    ids_of = lambda x: ([int(i) for i in x.sample_ids], [[int(i) for i in r] for r in np.asarray(x.treatment_ids).tolist()] if int(x.size) else [], canon_maps(x))
                    if split["fn"] == "random" and (ids_of(k2), ids_of(t2)) != (ids_of(prep.keep), ids_of(prep.test)):
                        res.fail("splitting the same screen object a second time (same selection) gives other halves", dict(base, side="train", ops=[]),
                                 {"second": [show_stage(k2)[:300], show_stage(t2)[:300]]},
                                 {"first": [show_stage(prep.keep)[:300], show_stage(prep.test)[:300]]}, signature=SIG_IDS)
                except Exception as e:
                    if split["fn"] == "random":
                        res.fail("splitting the same screen object a second time raises", dict(base, side="train", ops=[]),
                                 "%s: %s" % (type(e).__name__, e), "the same halves", signature=SIG_IDS)
            if prep.keep is not None and int(prep.keep.size) > 0 and len(xproc) < 8 and (hs or ht):
                fnx = os.path.join(tmp, "xproc_%d.h5" % len(xproc))
                try:
                    prep.keep.save_h5(fnx)
                    xproc.append((fnx, observables(prep.keep), dict(base, side="train", ops=[["s"]])))
                except Exception:
                    pass
            res.count("prepared." + prep_kind)
            res.count("prepared.premask" if base["premask"] else "prepared.as-is")
            res.count("prepared.arity.%d" % raw["arity"])
            res.count("split." + kind_split)
            if split["mode"] == "rng":
                res.count("split.fraction.%s" % split["fraction"])
            if hs:
                res.count("hold-out-only.sample")
            if ht:
                res.count("hold-out-only.treatment")
            if hs or ht:
                res.count("hold-out-only.any")
            for side in ("train", "test"):
                case = dict(base, side=side, ops=[])
                if side == "train" and raw["arity"] == 2 and rng.random() < 0.45:
                    # the training stage through train_model.main() on the screen the history ends with (seed 0 included)
                    case["train"] = {"seed": rng.choice([0, 0, 1, 7, rng.randrange(2 ** 31)])}
                if not lean:
                    k = rng.randint(1, max_ops)
                elif side == "train":                  # thorough: half the training histories up to 20 steps, the rest up to 8
                    k = rng.randint(1, max_ops if rng.random() < 0.5 else 8)
                else:
                    k = rng.randint(1, 8)
                line, entries, info = run_side(prep, case, tmp, res, gen=rng, n_ops=k, lean=lean)
                res.evaluations += 1
                res.count("stages", info["steps"] + 1)
                account(res, case, info)
                if info.get("trained"):
                    res.count("class.entry-point.train_model")
                if any(o[0] == "cli" for o in case["ops"]):
                    res.count("class.entry-point.reveal_plate")
                if case.get("verbose"):
                    res.count("class.verbose-logging")
                queue.append((line, entries, case))
                if side == "train" and (hs or ht) and info["ok_structural"]:
                    res.nontrivial.add(common.short_hash([raw, split, case["ops"]]))
                    res.count("nontrivial.train-history-after-hold-out-only")
                if (hs or ht) and side == "train" and info["ok_structural"] and rng.random() < 0.05:
                    res.sample({"kind": prep_kind, "split": kind_split, "side": side, "premask": base["premask"],
                                "hold-out-only": {"samples": hs, "treatments": [list(x) for x in ht]},
                                "ops": "+".join(op_tok(o) for o in case["ops"]), "line": line[:260]})
        # ---- the simulation as the real prepare command writes it (every smoother x generator x fraction, incl. those that DROP samples)
        from harness import prep_pipeline as PP
        pcases = prepare_corpus(rng)
        combos_ = PP.combos(ctx.scale(28, 400, 200), rng.randrange(84))
        for i_, combo in enumerate(combos_):
            pc = PP.gen_case(rng, combo)
            pcases.append({"kind": "prepare", "pcase": pc, "obs_bits": obs_bits_list(pc["raw"]), "ops": [], "n_ops": rng.randint(1, 4),
                           "train": {"seed": rng.choice([0, 1, 7])} if rng.random() < 0.3 else None, "theta_seed": rng.randrange(2 ** 31),
                           "dim": 2, "verbose": i_ % 7 == 3})
        for case in pcases:
            if time.time() - t_start > budget + 15:
                res.notes.append("time budget reached inside the prepare stream")
                break
            res.evaluations += 1
            if case.get("verbose"):
                res.count("class.verbose-logging")
            try:
                out = run_prepare_case(case, tmp, res, gen=None if case.get("corpus") else rng)
            except Exception as e:
                res.count("prepare.harness-or-impl-exception." + type(e).__name__)
                res.disagree("C03:prepare-stream", {"pcase": str(case["pcase"]["params"])[:300]}, "%s: %s" % (type(e).__name__, e), "the stream runs")
                continue
            if out is not None:
                queue.append((out[0], out[1], {"side": "prepared-files", "split": {"fn": "cli"}, "ops": case["ops"], "premask": False}))
        if xproc:
            # cross-process determinism: a saved training half loads to the same ids / mappings in another interpreter
            try:
                back = cross_process_observables([x[0] for x in xproc], 1 + rng.randrange(4000000000))
                for (fnx, wantx, casex), gotx in zip(xproc, back):
                    res.count("class.cross-process")
                    d = first_diff(wantx, gotx)
                    if d is not None:
                        res.fail("a saved training screen loads differently in another interpreter process ('%s')" % d[0], casex,
                                 {"field": d[0], "other_process": d[2]}, {"field": d[0], "this_process": d[1]}, signature=SIG_XPROC)
            except Exception as e:
                res.notes.append("cross-process reload not run: %s" % e)
    finally:
        shutil.rmtree(tmp, ignore_errors=True)
    for n_, (where_, detail_) in enumerate(UNEXPECTED):
        res.count("wrapper.unexpected-call")
        if n_ < 3:
            res.disagree("C03:harness-wrapper", {"wrapper": where_}, detail_[:300], "a call the wrapper can read")
    del UNEXPECTED[:]
    if ctx.driver is not None and TRAIN_TIES:
        got = ctx.driver.ask([x[0] for x in TRAIN_TIES])
        for (line, recv, info_), g in zip(TRAIN_TIES, got):
            res.count("tie.trainrows")
            if g != recv:
                res.disagree("C03:trainrows", dict(info_, line=line[:3000]), recv[:1500], g[:1500])
        res.traces_validated += len(TRAIN_TIES)
    del TRAIN_TIES[:]
    if ctx.driver is not None:
        got = ctx.driver.ask([q[0] for q in queue])
        for (line, entries, case), g in zip(queue, got):
            d = expected_vs_model(entries, g)
            if d is not None:
                res.disagree("C03:hist:%s:%s" % (case["side"], case["split"]["fn"]),
                             {"line": line[:3000], "side": case["side"], "split": case["split"], "ops": case["ops"], "premask": case["premask"]},
                             d[0][:1500], d[1][:1500])
        res.traces_validated += len(queue)


def replay(ctx, case, res):
    tmp = tempfile.mkdtemp(prefix="verif_c03_")
    try:
        case = {k: v for k, v in case.items() if k != "failing_step"}
        if case.get("kind") == "prepare":
            run_prepare_case(case, tmp, res)
            return
        try:
            prep = Prepared(case)
        except Exception as e:
            res.fail("constructing / masking a valid prepared screen raises", case, "%s: %s" % (type(e).__name__, e), "a screen")
            return
        run_side(prep, case, tmp, res)
    finally:
        shutil.rmtree(tmp, ignore_errors=True)
