"""C11 -- retrospective preparation conserves experiments; the hold-out split partitions.

Tie: every shipped generator / smoother (through the public `generate_plates` / `smooth_plates` wrappers), the
initial-plate generator, the combination filter and both hold-out functions are run on the real code with a recording
generator (and a recording `heapq` proxy); the Lean model (`Model/Prep.lean`) is run on the same screen, parameters and
recorded choice log; outputs are compared row by row.  Oracles (implementation only): multiset conservation,
sub-multiset for smoothers, observed part unchanged, hold-out partition / counts / masks.
"""
from harness import prep_common as P
from harness import prep_pipeline as PP

RULE = ("per operation (3 generators, 6 smoothers, initial plate, combination filter, 2 hold-outs): random screens with duplicate "
        "conditions, single-agent rows (control by name and by dose), vehicle-only rows (EVERY treatment is the control), arity 1-3, "
        "observed and unobserved plates of assorted sizes (one-sample-per-plate designs, plates cutting across samples, one lumped plate, "
        "fully observed), mostly distinct observation values, random parameters incl. boundary/invalid ones (fractions 0, 1, <0, >1; "
        "sizes 0, negative), superset mappings for hold-outs; PLUS directed families (evidence distribution `directed.*`, clause hit "
        "counts `clause.*`): hold-outs on plates of 12-30 rows with 11 fixed fractions + random ones (every such plate has ceil(fraction x size) >= 2: a draw "
        "with replacement yields too few rows; the per-plate count oracle is exact), vehicle-only + duplicated conditions through every "
        "operation at arity 2/3, >= 11 generated plates (gen-seg / gen-pair / gen-perm), pairwise at arity 3 and 1, odd plate counts "
        "3,5,6,7,11 with 1-4 top-bottom iterations, min-merge sums exactly at limit / limit+1, optimal-size ties, several samples below "
        "the per-sample minimum; numpy seed recorded per case. The oracles read the INPUT from the raw case description (not from a "
        "batchie Screen). Non-trivial: operation returned, >=4 rows, >=2 unobserved plates."
        " HARDENING_CHECKLIST classes (evidence `class.*`): every case checks the input screen byte-for-byte after the call; 3 cases per "
        "operation (+ directed ones) run a history on ONE operation object (op(relative of the input with an extra plate/sample); op(input) "
        "judged; op(input) again) and compare with a fresh object and re-read the judged result; inputs as Fortran / strided / negative-stride / "
        "read-only / <U48 arrays and names >= 27 characters; supplied mappings with shuffled rows and permuted ids, screens without any "
        "control, pairwise single-agent samples that are not a sorted prefix of the combination samples; array attributes of results "
        "enumerated by introspection (+ ids one-to-one with names); 5 cases per operation repeated in another interpreter with another "
        "PYTHONHASHSEED; generator seed 0, one-row screens, parameters 0/1, sample id 0 dropped; rows shuffled (observed rows before / between "
        "unobserved ones, plates and samples interleaved); >= 11 and >= 101 generated plates."
        " PIPELINE stream (op `pipeline`, evidence `pipeline.*`): the real cli/prepare_retrospective_simulation.main() on small saved screens, "
        "36 option combinations per quick run (all generator x smoother pairs, 8 targeted initial-generator combinations; all 3x4x7 in the thorough "
        "tier), one recording generator injected through get_prng_from_seed_argument, stage markers around the initial generator / generator / "
        "smoother / hold-out, outputs read with h5py by dataset name (tie knowledge: on any raw-access error `layout.unexpected` + tie and fall back to Screen.load_h5) and compared with Model/PrepPipeline.lean; end-to-end oracles on the files (conservation vs a "
        "reference combination filter, test fully observed + per-plate counts, shared mappings, initial plate covers, single-sample unobserved plates)."
        " CHECKLIST items 10-14: every operation also runs on 5 same-size TEMPORARY screens built so that the next screen gets the freed "
        "address (id() collision observed and counted), then on the input; history cases call op(x, other seed) before op(x, seed) and compare "
        "output, draw trace, heap trace and generator state with a fresh object; pipeline output paths pre-filled with another screen; 128/129 and "
        ">= 257 generated plates, hold-out from a plate of 255-257 rows, a 257-260 row / >= 128 treatment-id screen through load -> main -> save; "
        "--holdout-fraction omitted / 0.05 / 0.25. Oracles fire only for clauses of the property text; everything else the harness pins down (row order, "
        "plate labels of the input relabelled in place, reused-vs-fresh differences, id bookkeeping, PYTHONHASHSEED dependence, mappings, which plates a "
        "size smoother retains) is a tie with the model (no replay)."
        " CHECKLIST items 18-19: the pipeline stream IS the real entry point of every stage of this property (prepare_retrospective_simulation.main()); its "
        "oracles also look at what each stage RECEIVED from the glue (loaded screen, filtered screen = reference combination filter incl. multi-dose single "
        "agents, the screen / generator / fraction / plugin parameters reaching the initial generator, generator, smoother and hold-out) and the files; "
        "~15 % of the cases of both streams (and the boundary families) run under vlib.common.verbose_logging() (+ --verbose for main()) with \"verbose\": true in the "
        "case, same oracles, and are compared with the quiet run (difference alone = tie); input files with NaN / +-inf / -0.0 observation values.")


def run(ctx, res):
    P.run_property(ctx, res, "C11", P.oracles_c11, RULE, extra_stream=PP.run_stream)


def replay(ctx, case, res):
    if case.get("op") == "pipeline":
        return PP.replay(ctx, case, res, "C11")
    P.replay_property(ctx, case, res, P.oracles_c11, "C11")
