"""C19, second stream: the REAL orchestration script over the REAL batchie command line tools.

`nextflow/scripts/batchie.py` (imported as a module; `main()` for the uninterrupted run, `run_next_retrospective_step` in a loop
for the interrupted ones) launches `harness/nf_emulator.NfEmulator` instead of `nextflow`: every process of the three
entry workflows runs the real `batchie.cli.*.main()` on real (tiny) screens and publishes real files.  Interruptions are
raised INSTEAD of the k-th atomic action (a `mkdir` level / `rmtree` of the script, a process start, one publication).

Oracles (absolute, on the data -- they hold for the uninterrupted run too):
  * every launched step's --screen / --training_screen is `advanced_screen.h5` of the step numbered one less (same path, and
    the bytes read at launch are the bytes that step published); step (0,0) starts from the user's screen;
  * the selected plate is unobserved in the step's input screen and observed in its advanced screen, nothing else changes,
    and the revealed values are the true ones;
  * `n_unobserved_plates` of screen_metadata.json is the real count and drops by exactly 1 per step;
  * the run stops by itself after exactly (unobserved plates of the first training screen) steps, every plate revealed
    exactly once, none left;
  * sample / treatment ids, names, doses, plate ids and the id mappings are identical in every screen file produced;
  * later plates of an iteration use thetas / distance chunks of plate_0 of THEIR iteration and exclude exactly the
    selections of its earlier plates; the test screen is a file of iter_0/plate_0;
  * every file of a completed step directory was published by the launch that completed it (recomputed, not inherited from
    an aborted attempt);
  * with identical seeds an interrupted run makes the same selections and ends with the same final screen as the
    uninterrupted one; no completed step directory is removed; the script never names a completed step.
"""
import hashlib
import json
import os
import re
import shutil
import sys
import tempfile
import time
import types

import numpy as np

from vlib import common
from harness import nf_emulator
from harness import c19_proc

HARNESS_DIR = os.path.dirname(os.path.abspath(__file__))


def named_dir(msg, outdir):
    """the directory an error message of the script NAMES (a path below the output directory occurring in the message,
    whatever the wording); the recovery step removes exactly that"""
    best = None
    for m in re.finditer(re.escape(outdir.rstrip(os.sep)) + r"(?:/[^\s'\"`]*)?", msg):
        cand = m.group(0).rstrip(".,;:)]}>/")
        if cand != outdir.rstrip(os.sep) and os.path.isdir(cand) and (best is None or len(cand) > len(best)):
            best = cand
    return best
STEP_RE = re.compile(r"iter_(\d+)/plate_(\d+)")


class Interrupt(BaseException):
    pass


class Runaway(Exception):
    """more pipeline launches than any terminating simulation of this size can make (or the wall-clock guard)"""


def make_screen(path, n_plates, seed):
    """2 samples x (all pairs of 4 drugs at 2 doses + single-drug rows): 32 rows dealt onto `n_plates` plates"""
    from batchie.data import Screen
    rng = np.random.default_rng(seed)
    drugs = ["a", "b", "c", "d"]
    rows = []
    for s in ["s1", "s2"]:
        for i in range(4):
            for j in range(i + 1, 4):
                for d in (1.0, 2.0):
                    rows.append((s, drugs[i], drugs[j], d, d))
        for i in range(4):
            rows.append((s, drugs[i], "control", 1.0, 0.0))
    order = rng.permutation(len(rows))
    rows = [rows[i] for i in order]
    n = len(rows)
    sc = Screen(observations=rng.uniform(0.05, 0.95, n), sample_names=np.array([r[0] for r in rows], dtype=str),
                plate_names=np.array([str(k % n_plates) for k in range(n)], dtype=str),
                treatment_names=np.array([[r[1], r[2]] for r in rows], dtype=str),
                treatment_doses=np.array([[r[3], r[4]] for r in rows]), control_treatment_name="control")
    sc.save_h5(path)


def sha(path):
    with open(path, "rb") as f:
        return hashlib.sha256(f.read()).hexdigest()


def step_of(path):
    m = STEP_RE.search(path.replace(os.sep, "/"))
    return (int(m.group(1)), int(m.group(2))) if m else None


def _fd_path(name, dir_fd):
    if dir_fd is None:
        return os.path.abspath(name)
    return os.path.join(os.readlink("/proc/self/fd/%d" % dir_fd), name)


class FsPatch:
    """the script's filesystem mutations are observed at the level of os.mkdir / os.unlink / os.rmdir (whatever helper the
    script calls them through); each one that is going to succeed is an atomic action.  Not counted while the pipeline
    emulator runs (it announces its own actions)."""

    def __init__(self, sim):
        self.sim = sim
        self.real = (os.mkdir, os.unlink, os.rmdir)

    def __enter__(self):
        sim = self.sim
        r_mkdir, r_unlink, r_rmdir = self.real

        def on():
            return sim.active and not sim.in_pipeline

        def target(a, kw):
            try:
                return _fd_path(a[0] if a else kw["path"], kw.get("dir_fd"))
            except Exception as e:  # noqa
                sim.unexpected.append("os-level call in a form the harness cannot read: %r %r (%s)" % (a, kw, e))
                return None

        def mkdir(*a, **kw):
            if on():
                full = target(a, kw)
                if full is not None and not os.path.lexists(full):
                    sim.tick("script:mkdir:" + "/".join(full.split(os.sep)[-2:]))
            return r_mkdir(*a, **kw)

        def unlink(*a, **kw):
            if on():
                full = target(a, kw)
                if full is not None and os.path.lexists(full):
                    sim.tick("script:unlink")
                    sim.note_removed(full)
            return r_unlink(*a, **kw)

        def rmdir(*a, **kw):
            if on():
                full = target(a, kw)
                if full is not None and os.path.isdir(full) and not os.listdir(full):
                    sim.tick("script:rmdir")
                    sim.note_removed(full)
            return r_rmdir(*a, **kw)

        os.mkdir, os.unlink, os.rmdir = mkdir, unlink, rmdir
        self.new = (mkdir, unlink, rmdir)
        self.added = []
        for st in (os.supports_dir_fd, os.supports_follow_symlinks, os.supports_fd):
            for real, new in zip(self.real, self.new):
                if real in st:
                    st.add(new)
                    self.added.append((st, new))
        return self

    def __exit__(self, *exc):
        os.mkdir, os.unlink, os.rmdir = self.real
        for st, new in self.added:
            st.discard(new)
        return False


def load_script(verbose=False):
    import importlib.util
    p = os.path.join(common.REPO, "nextflow", "scripts", "batchie.py")
    spec = importlib.util.spec_from_file_location("batchie_orchestration_script_c19_system", p)
    mod = importlib.util.module_from_spec(spec)
    spec.loader.exec_module(mod)
    for h in list(mod.logger.handlers):
        mod.logger.removeHandler(h)
    if verbose:
        import logging

        class Sink(logging.Handler):
            def emit(self, record):
                self.format(record)
        mod.logger.setLevel(logging.DEBUG)
        mod.logger.handlers = [Sink(level=logging.DEBUG)]
        mod.logger.propagate = False
    else:
        mod.logger.disabled = True
    return mod


class Sim:
    """one simulation: cfg = {B, plates, scorer, data_seed, sched}; crashes = interruption points (atomic actions since the
    previous interruption); use_main: drive `main()` instead of the step function (uninterrupted run only)"""

    def __init__(self, cfg, crashes, workdir, use_main=False):
        self.cfg, self.crashes, self.use_main = cfg, list(crashes), use_main
        self.root = tempfile.mkdtemp(prefix="c19sys_", dir=workdir)
        self.outdir = os.path.join(self.root, "out")
        self.screen = os.path.join(self.root, "exp.screen.h5")
        make_screen(self.screen, cfg["plates"], cfg["data_seed"])
        self.labels = []          # every atomic action performed, in order
        self.count = 0
        self.limit = None
        self.active = False
        self.in_pipeline = False
        self.unexpected = []      # failures of the harness's own wrappers / raw file access: broken tie, never a finding
        self.deadline = time.time() + 120
        self.named = []           # directories the script named (and the harness removed)
        self.removed = []         # existing files / directories the script itself removed
        self.removed_completed = []   # ... that belonged to a completed step (also: named by the script and removed on its advice)
        self.status = None
        self.invocations = 0
        score_args = ["--scorer", cfg["scorer"]] + (["--seed", "12"] if cfg["scorer"] == "GaussianDBALScorer" else [])
        self.emu = nf_emulator.NfEmulator({"score_args": score_args, "schedule_seed": cfg["sched"], "late_eval": bool(cfg.get("late_eval")),
                                           "prepare_args": ["--plate-generator", "PlatePermutationPlateGenerator",
                                                            "--holdout-fraction", "0.2", "--seed", str(cfg["data_seed"])]},
                                          tick=self.tick, repo=common.REPO)

    def tick(self, label):
        if not self.active:
            return
        if self.limit is not None and self.count >= self.limit:
            raise Interrupt()
        self.count += 1
        self.labels.append(label)

    def note_removed(self, full):
        rel = os.path.relpath(full, self.outdir)
        self.removed.append(rel)
        st = step_of(rel)
        mine = [q for q in self.emu.launches if step_of(q["outdir"]) == st]
        if st is not None and mine and mine[-1]["completed"]:
            self.removed_completed.append(rel)

    def pipeline(self, cmd, cwd=None):
        # every loop that drives the real script is bounded: launches per simulation and wall clock
        if len(self.emu.launches) >= 4 * (self.cfg["plates"] + self.cfg["B"]) + 10 + 4 * len(self.crashes) or time.time() > self.deadline:
            raise Runaway()
        self.in_pipeline = True
        try:
            return self.emu.check_call(cmd, cwd=cwd)
        finally:
            self.in_pipeline = False

    def go(self):
        if not self.cfg.get("verbose"):
            with FsPatch(self):
                return self._go()
        # verbose slice: the script's logger formats every record, the `batchie` logger is at DEBUG, every CLI main gets --verbose
        nf_emulator.VERBOSE[0] = True
        try:
            with common.verbose_logging(), FsPatch(self):
                return self._go()
        finally:
            nf_emulator.VERBOSE[0] = False
            import logging
            lg = logging.getLogger("batchie_orchestration_script_c19_system")
            lg.disabled = True
            lg.handlers = []

    def _go(self):
        # nothing inside the script module is replaced: the process launcher is caught at subprocess.Popen (any call form)
        with c19_proc.popen_patch(self.pipeline, lambda: self.active and not self.in_pipeline,
                                  (nf_emulator.PipelineError,), self.unexpected.append):
            return self._go2()

    def _go2(self):
        mod = load_script(verbose=bool(self.cfg.get("verbose")))
        B = self.cfg["B"]
        pending = list(self.crashes)
        self.limit = pending.pop(0) if pending else None
        if self.use_main:
            old = sys.argv
            sys.argv = ["batchie.py", "--mode", "retrospective", "--outdir", self.outdir, "--screen", self.screen,
                        "--batch-size", str(B)]
            self.active = True
            try:
                mod.main()
                self.status = "ok"
            except Runaway:
                self.status = "no-termination"
            except Exception as e:  # noqa
                if c19_proc.in_harness(e, HARNESS_DIR):
                    self.unexpected.append("%s in harness code: %s" % (type(e).__name__, str(e)[:200]))
                self.status = "failed:%s:%s" % (type(e).__name__, str(e)[:200])
            finally:
                self.active = False
                sys.argv = old
            return self
        status = "no-termination"
        for _ in range(6 * self.cfg["plates"] + 10 + 4 * len(self.crashes)):
            self.invocations += 1
            self.count = 0
            self.active = True
            try:
                again = mod.run_next_retrospective_step(output_dir=self.outdir, input_screen=self.screen, extra_args=[], batch_size=B)
                outcome = "again" if again else "halt"
            except Interrupt:
                outcome = "crash"
            except Runaway:
                outcome = "no-termination"
            except RuntimeError as e:
                nd = named_dir(str(e), self.outdir)
                outcome = ("named", nd) if nd else "failed:RuntimeError:" + str(e)[:200]
            except Exception as e:  # noqa
                if c19_proc.in_harness(e, HARNESS_DIR):
                    self.unexpected.append("%s in harness code: %s" % (type(e).__name__, str(e)[:200]))
                outcome = "failed:%s:%s" % (type(e).__name__, str(e)[:200])
            finally:
                self.active = False
            if outcome == "crash":
                self.limit = pending.pop(0) if pending else None
                continue
            if self.limit is not None:
                self.limit -= self.count
            if outcome == "again":
                continue
            if outcome == "halt":
                status = "ok"
                break
            if isinstance(outcome, tuple):
                self.named.append(os.path.relpath(outcome[1], self.outdir))
                for q in self.emu.launches:
                    if q["completed"] and os.path.abspath(q["outdir"]).startswith(os.path.abspath(outcome[1])) and os.path.isdir(q["outdir"]) \
                            and [x for x in self.emu.launches if x["outdir"] == q["outdir"]][-1] is q:
                        self.removed_completed.append(os.path.relpath(outcome[1], self.outdir))
                shutil.rmtree(outcome[1])
                continue
            status = outcome
            break
        self.status = status
        return self

    def cleanup(self):
        shutil.rmtree(self.root, ignore_errors=True)


SCREEN_FIELDS = ("sample_ids", "treatment_ids", "sample_names", "treatment_names", "treatment_doses", "plate_ids")


def screen_facts(path):
    from batchie.data import Screen
    s = Screen.load_h5(path)
    f = {k: np.array(getattr(s, k)) for k in SCREEN_FIELDS}
    f["mask"] = np.array(s.observation_mask, dtype=bool)
    f["obs"] = np.array(s.observations, dtype=float)
    f["mappings"] = [np.array(a).tolist() for m in (s.treatment_mapping, s.sample_mapping, s.plate_mapping) for a in m]
    f["unobserved"] = sorted(int(p.plate_id) for p in s.plates if not p.is_observed)
    f["observed"] = sorted(int(p.plate_id) for p in s.plates if p.is_observed)
    return f


def same_design(a, b):
    for k in SCREEN_FIELDS:
        if a[k].shape != b[k].shape or not np.array_equal(a[k], b[k]):
            return k
    if a["mappings"] != b["mappings"]:
        return "id mappings"
    return None


def truth_table(path):
    from batchie.data import Screen
    s = Screen.load_h5(path)
    t = {}
    for i in range(s.size):
        t[(str(s.sample_names[i]), tuple(str(x) for x in s.treatment_names[i]), tuple(float(x) for x in s.treatment_doses[i]))] = float(s.observations[i])
    return t


def judge(sim):
    """-> (findings [(key, what, observed, required)], summary dict)"""
    out = []
    B = sim.cfg["B"]
    name = "exp.screen"
    done = [r for r in sim.emu.launches if r["completed"]]
    steps = [step_of(r["outdir"]) for r in done]
    summary = {"steps": [list(s) for s in steps], "selected": [r["selected"] for r in done], "launches": len(sim.emu.launches)}
    if sim.unexpected:
        summary["unexpected"] = sim.unexpected[:3]
        return [], summary
    if sim.status != "ok":
        out.append(("finish", "the simulation does not run to its end", sim.status, "ok"))
        return out, summary
    want_steps = [(m // B, m % B) for m in range(len(done))]
    if steps != want_steps:
        out.append(("sequence", "the completed steps are not numbered 0,1,2,... each once", [list(s) for s in steps], [list(s) for s in want_steps]))
        return out, summary
    for r in sim.emu.launches:
        st = step_of(r["outdir"])
        n_before = sum(1 for q in done if q["n"] < r["n"])
        if st != (n_before // B, n_before % B):
            out.append(("twice", "a launch is not for the step numbered 'steps completed before it'", list(st), [n_before // B, n_before % B]))
    # only the removal of (something inside) a COMPLETED step violates the property text; the script clearing a marker-less
    # directory itself instead of naming it does not
    for d in sim.removed_completed:
        out.append(("deleted", "a file or directory of a completed step is removed (by the script or on its advice)", d,
                    "completed steps are never removed"))
    truth = truth_table(sim.screen)
    facts, meta = {}, {}
    prev_adv = None
    first_training = None
    for idx, r in enumerate(done):
        st = steps[idx]
        job = r["outdir"]
        sub = os.path.join(job, name)
        want_mode = "retrospective" if st[1] == 0 else "next_plate"
        if r["mode"] != want_mode or (st == (0, 0)) != (str(r["params"].get("initialize")).lower() == "true" and r["mode"] == "retrospective"):
            summary["unexpected_workflow"] = [list(st), r["mode"]]        # not stated by the property: a counter, not a finding
        # freshness: everything in the step directory was published by the launch that completed it
        present = sorted(os.listdir(sub))
        published = {fn: src for fn, src in r["published"]}
        if present != sorted(published):
            out.append(("stale", "the directory of a completed step holds files its final launch did not publish", present, sorted(published)))
        for fn, src in published.items():
            if os.path.realpath(os.path.join(sub, fn)) != os.path.realpath(src) or ("%02d_" % r["n"]) not in os.path.basename(os.path.dirname(os.path.dirname(src))):
                out.append(("stale", "a published file of a completed step was not computed by the launch that completed it", fn, src))
        # input screen = predecessor's advanced screen
        inp = r["inputs"]
        if st == (0, 0):
            if os.path.realpath(inp.get("screen", "")) != os.path.realpath(sim.screen):
                out.append(("predecessor", "the first step does not start from the user's screen", inp.get("screen"), sim.screen))
            in_screen = os.path.join(sub, "training.screen.h5")
            first_training = in_screen
        else:
            in_screen = inp.get("training_screen") if r["mode"] == "retrospective" else inp.get("screen")
            if in_screen is None or os.path.abspath(in_screen) != os.path.abspath(prev_adv) or r.get("input_sha") not in (None, sha(prev_adv)):
                out.append(("predecessor", "step %s is started from a screen that is not advanced_screen.h5 of its immediate predecessor" % list(st),
                            None if in_screen is None else os.path.relpath(in_screen, sim.outdir), os.path.relpath(prev_adv, sim.outdir)))
                in_screen = in_screen if in_screen and os.path.isfile(in_screen) else prev_adv
        if r["mode"] == "retrospective" and st != (0, 0):
            ts = inp.get("test_screen")
            if ts is None or step_of(ts) != (0, 0) or not os.path.isfile(ts):
                out.append(("inputs", "the test screen is not a file of iter_0/plate_0", ts, "iter_0/plate_0/<name>/..."))
            elif os.path.basename(ts) != "test.screen.h5":
                summary["test_screen_glob"] = os.path.basename(ts)
        if r["mode"] == "next_plate":
            p0 = os.path.join(sim.outdir, "iter_%d" % st[0], "plate_0", name)
            want_th = sorted(os.path.join(p0, f) for f in os.listdir(p0) if f.startswith("thetas"))
            want_di = sorted(os.path.join(p0, f) for f in os.listdir(p0) if f.startswith("distance_matrix_chunk"))
            if sorted(inp["thetas"]) != want_th or sorted(inp["distance_matrix"]) != want_di:
                out.append(("inputs", "a later plate is not selected with the thetas / distance chunks of plate_0 of its iteration",
                            [os.path.relpath(x, sim.outdir) for x in inp["thetas"] + inp["distance_matrix"]],
                            [os.path.relpath(x, sim.outdir) for x in want_th + want_di]))
            want_ex = sorted(done[j]["selected"] for j in range(idx) if steps[j][0] == st[0])
            if sorted(inp["excludes"]) != want_ex:
                out.append(("inputs", "a later plate does not exclude exactly the selections of the earlier plates of its iteration", inp["excludes"], want_ex))
        # the data
        adv = os.path.join(sub, "advanced_screen.h5")
        fin, fadv = screen_facts(in_screen), screen_facts(adv)
        facts[st] = fadv
        if idx == 0:
            facts["training"] = fin
            ftest = screen_facts(os.path.join(sub, "test.screen.h5"))
            for k in ("sample_ids", "treatment_ids"):
                pass
            summary["unobserved_at_start"] = len(fin["unobserved"])
            summary["test_rows"] = int(ftest["mask"].size)
        d = same_design(facts["training"], fadv)
        if d is not None:
            out.append(("ids", "sample / treatment / plate ids or mappings differ between screen files of one simulation (%s)" % d, list(st), "identical in every screen"))
        try:
            sel = int(r["selected"])
        except (TypeError, ValueError):
            sel = None
        if sel not in fin["unobserved"]:
            out.append(("selection", "the selected plate is not an unobserved plate of the step's input screen", r["selected"], fin["unobserved"]))
        if fadv["observed"] != sorted(fin["observed"] + ([sel] if sel is not None else [])):
            out.append(("selection", "after the step the observed plates are not 'before + the selected plate'", fadv["observed"], sorted(fin["observed"] + [sel])))
        if not np.array_equal(fadv["obs"][fin["mask"]], fin["obs"][fin["mask"]]):
            out.append(("selection", "a step changed already observed values", list(st), "unchanged"))
        from batchie.data import Screen  # noqa
        s_adv = Screen.load_h5(adv)
        for i in np.nonzero(fadv["mask"])[0]:
            key = (str(s_adv.sample_names[i]), tuple(str(x) for x in s_adv.treatment_names[i]), tuple(float(x) for x in s_adv.treatment_doses[i]))
            if key not in truth or truth[key] != float(s_adv.observations[i]):
                out.append(("selection", "a revealed value is not the value of that experiment in the user's screen", [list(st), int(i)], "true value"))
                break
        try:
            # raw access to a file written by batchie: its layout is part of the tie, not of the property (item 20)
            with open(os.path.join(sub, "screen_metadata.json")) as f:
                meta[st] = json.load(f)
            meta[st]["n_unobserved_plates"] + 0
        except Exception as e:  # noqa
            sim.unexpected.append("layout: screen_metadata.json cannot be read as {n_unobserved_plates: int}: %s" % e)
            prev_adv = adv
            continue
        if meta[st]["n_unobserved_plates"] != len(fadv["unobserved"]):
            out.append(("metadata", "n_unobserved_plates of screen_metadata.json is not the number of unobserved plates of the advanced screen",
                        meta[st]["n_unobserved_plates"], len(fadv["unobserved"])))
        if meta[st]["n_unobserved_plates"] != len(fin["unobserved"]) - 1:
            out.append(("metadata", "n_unobserved_plates does not drop by exactly one in step %s" % list(st), meta[st]["n_unobserved_plates"], len(fin["unobserved"]) - 1))
        prev_adv = adv
    u0 = summary.get("unobserved_at_start", 0)
    sels = [r["selected"] for r in done]
    if len(done) != u0 or len(set(sels)) != len(sels) or sorted(int(x) for x in sels) != facts["training"]["unobserved"] or facts[steps[-1]]["unobserved"]:
        out.append(("termination", "the simulation does not stop after exactly one step per initially unobserved plate with every plate revealed once",
                    {"steps": len(done), "selected": sels, "left": facts[steps[-1]]["unobserved"] if steps else None}, {"steps": u0, "plates": facts["training"]["unobserved"]}))
    summary["final"] = facts[steps[-1]] if steps else None
    if sim.unexpected:
        summary["unexpected"] = sim.unexpected[:3]
        out = []
    return out, summary


def compare(run, ref, sref, srun):
    out = []
    if srun.get("unexpected") or sref.get("unexpected"):
        return out
    if srun.get("selected") != sref.get("selected"):
        out.append(("resume", "the interrupted simulation records other selections than the uninterrupted one (same seeds)", srun.get("selected"), sref.get("selected")))
    a, b = srun.get("final"), sref.get("final")
    if a is not None and b is not None:
        if same_design(a, b) is not None or not np.array_equal(a["mask"], b["mask"]) or not np.array_equal(a["obs"], b["obs"]):
            out.append(("resume", "the final screen of the interrupted simulation differs from the uninterrupted one", "differs", "identical arrays"))
    return out


def pick_points(labels, B, rng, k):
    """a handful of interruption points chosen by what they separate"""
    n = len(labels)
    want = []

    def first(pred):
        for i, l in enumerate(labels):
            if pred(l) and i not in want:
                want.append(i)
                return

    later = lambda l: not l.startswith("iter_0/plate_0:") and not l.startswith("script:")      # noqa: E731
    first(lambda l: B >= 3 and STEP_RE.match(l) and int(STEP_RE.match(l).group(2)) >= 2 and l.endswith("publish:advanced_screen.h5"))   # plate index 2
    first(lambda l: B >= 2 and STEP_RE.match(l) and int(STEP_RE.match(l).group(2)) >= 1 and l.endswith("publish:advanced_screen.h5"))   # selected_plate published, nothing after it
    # after the marker, while EVALUATE_MODEL (not upstream of it) is still running / unpublished: the step is complete
    first(lambda l: ("EVALUATE_MODEL" in l or l.endswith("publish:model_evaluation.h5")) and any(
        m == l.split(":")[0] + ":publish:screen_metadata.json" for m in labels[:labels.index(l)]))
    first(lambda l: l.startswith("script:mkdir:iter_1/"))                                        # between the two mkdirs of iteration 1
    first(lambda l: later(l) and l.endswith("publish:screen_metadata.json"))                     # everything but the marker
    first(lambda l: later(l) and ":publish:thetas_1" in l)                                       # between two published chains
    first(lambda l: later(l) and ":start:REVEAL_PLATE" in l)
    while len(want) < k and len(want) < n:
        i = rng.randrange(n)
        if i not in want:
            want.append(i)
    return want[:k]


TOOL_OF = {"PREPARE": "prepare_retrospective_simulation", "TRAIN_MODEL": "train_model", "EVALUATE_MODEL": "evaluate_model",
           "ANALYZE": "analyze_model_evaluation", "CALCULATE_DISTANCE": "calculate_distance_matrix", "CALCULATE_SCORE": "calculate_scores",
           "SELECT_NEXT_PLATE": "select_next_plate", "REVEAL_PLATE": "reveal_plate", "EXTRACT_SCREEN_METADATA": "extract_screen_metadata"}


def explore(cfg, n_single, n_double, rng, workdir):
    """-> list of result dicts for one simulation (uninterrupted via main(), then interrupted runs)"""
    results = []
    ref = Sim(cfg, [], workdir, use_main=True).go()
    fref, sref = judge(ref)
    labels = list(ref.labels)
    tools = {}
    for r in ref.emu.launches:
        for t in r["ran"]:
            tool = next(v for k, v in TOOL_OF.items() if t.startswith(k))
            tools[tool] = tools.get(tool, 0) + 1
    results.append({"case": {"system": cfg, "crashes": []}, "findings": fref, "summary": {k: v for k, v in sref.items() if k != "final"},
                    "actions": len(labels), "classes": ["system.uninterrupted-main", "entry-point.script-main"], "tools": tools})
    if ref.status == "ok":
        pts = pick_points(labels, cfg["B"], rng, n_single)
        cases = [[p] for p in pts]
        for _ in range(n_double):
            a = rng.choice(pts)
            cases.append([a, rng.randrange(0, max(1, len(labels) - a))])
        for ci, crashes in enumerate(cases):
            # verbose slice: the last interrupted run of every simulation (script logger formatting every record, `batchie`
            # logger at DEBUG, every CLI main called with --verbose); judged like the others and against the NON-verbose reference
            verbose = ci == len(cases) - 1
            rcfg = dict(cfg, verbose=True) if verbose else cfg
            run = Sim(rcfg, crashes, workdir).go()
            f, s = judge(run)
            f = f + compare(run, ref, sref, s)
            cl = ["system.interruptions-%d" % len(crashes)] + (["verbose-logging"] if verbose else [])
            if any(r["completed"] and not r["all_done"] for r in run.emu.launches):
                cl.append("system.interrupted-after-marker-before-model-evaluation")
            if run.named:
                cl.append("system.named-directory-removed")
            hit = labels[crashes[0]] if crashes[0] < len(labels) else "?"
            results.append({"case": dict({"system": rcfg, "crashes": crashes}, **({"verbose": True} if verbose else {})), "findings": f,
                            "summary": {k: v for k, v in s.items() if k != "final"},
                            "hit": hit, "classes": cl, "launches": len(run.emu.launches)})
            run.cleanup()
    ref.cleanup()
    return results


def sims(ctx):
    quick = ctx.tier == "quick" and ctx.mode != "search"
    rng = ctx.subrng("system")
    if quick:
        s = ctx.seed
        return [({"B": 2, "plates": 5, "scorer": "RandomScorer", "data_seed": s, "sched": s}, 2, 1),
                ({"B": 3, "plates": 6, "scorer": "GaussianDBALScorer", "data_seed": s + 1, "sched": s + 1, "late_eval": True}, 3, 0)]
    out = []
    k = 0
    for B in (1, 2, 3):
        for plates in (4, 5, 6, 7):
            scorer = ("RandomScorer", "SizeScorer", "GaussianDBALScorer")[k % 3]
            out.append(({"B": B, "plates": plates, "scorer": scorer, "data_seed": rng.randrange(10 ** 6), "sched": rng.randrange(10 ** 6),
                         "late_eval": k % 2 == 0}, 5, 2))
            k += 1
    for B, plates, scorer in ((3, 7, "GaussianDBALScorer"), (2, 6, "GaussianDBALScorer"), (1, 5, "GaussianDBALScorer"), (3, 5, "SizeScorer"),
                              (2, 7, "RandomScorer"), (3, 6, "RandomScorer"), (1, 7, "SizeScorer"), (2, 4, "GaussianDBALScorer")):
        out.append(({"B": B, "plates": plates, "scorer": scorer, "data_seed": rng.randrange(10 ** 6), "sched": rng.randrange(10 ** 6)}, 5, 2))
    return out


def _job(args):
    import random
    common.use_repo_sources()
    cfg, n1, n2, seed, workdir = args
    return explore(cfg, n1, n2, random.Random(seed), workdir)


def run(ctx, res, workdir):
    jobs = [(cfg, n1, n2, ctx.subrng("system", i).randrange(10 ** 9), workdir) for i, (cfg, n1, n2) in enumerate(sims(ctx))]
    if len(jobs) > 3:
        import multiprocessing
        with multiprocessing.get_context("fork").Pool(min(10, os.cpu_count() or 2)) as pool:
            allres = pool.map(_job, jobs, chunksize=1)
    else:
        allres = [_job(j) for j in jobs]
    for (cfg, _n1, _n2, _s, _w), results in zip(jobs, allres):
        res.count("class.system.simulations")
        res.count("class.system.batch-size-%d" % cfg["B"])
        res.count("class.system.scorer-%s" % cfg["scorer"])
        for r in results:
            res.evaluations += 1
            res.nontrivial.add(("system", json.dumps(r["case"], sort_keys=True)))
            for c in r["classes"]:
                res.count("class." + c)
            if r["summary"].get("unexpected"):
                u = r["summary"]["unexpected"]
                res.count("layout.unexpected" if u[0].startswith("layout") else "wrapper.unexpected-call")
                res.disagree("harness wrapper (real stream): %s" % u[0][:160], r["case"], u, "-")
                r["findings"] = []
            for tool, n_calls in (r.get("tools") or {}).items():
                for _ in range(n_calls):
                    res.count("class.entry-point." + tool)
            if r["summary"].get("test_screen_glob"):
                res.count("system: --test_screen is %s (get_test_screen_from_job_output globs training.screen.h5)" % r["summary"]["test_screen_glob"])
            if r["case"]["crashes"]:
                res.sample({"system": cfg, "interruptions_at_action": r["case"]["crashes"], "first_hits": r.get("hit"),
                            "steps": r["summary"].get("steps"), "selected": r["summary"].get("selected"), "launches": r.get("launches")}, limit=6)
            for f in r["findings"]:
                res.fail("%s [real CLIs, B=%d plates=%d %s]" % (f[1], cfg["B"], cfg["plates"], cfg["scorer"]), r["case"], f[2], f[3],
                         signature="C19:system-" + f[0])


def replay(ctx, case, res, workdir):
    cfg = case["system"]
    ref = Sim({k: v for k, v in cfg.items() if k != "verbose"}, [], workdir, use_main=True).go()
    fref, sref = judge(ref)
    findings = fref
    if case["crashes"] and ref.status == "ok":
        run_ = Sim(cfg, case["crashes"], workdir).go()
        f, s = judge(run_)
        findings = f + compare(run_, ref, sref, s)
        run_.cleanup()
    ref.cleanup()
    for f in findings:
        res.fail("%s [real CLIs, B=%d plates=%d %s]" % (f[1], cfg["B"], cfg["plates"], cfg["scorer"]), case, f[2], f[3], signature="C19:system-" + f[0])
