"""`pipeline` stream of C11 / C13: the real `batchie.cli.prepare_retrospective_simulation.main()` end to end.

For every case a small screen is saved to a temp `.h5`, `sys.argv` is patched and `main()` runs with
  * `get_prng_from_seed_argument` (the name the CLI module calls) replaced by a factory returning ONE recording generator,
  * `batchie.retrospective.heapq` replaced by the recording proxy,
  * entry/exit markers around `generate_and_unmask_initial_plate` / `generate_plates` / `smooth_plates` (outermost call only) and
    the hold-out function, which cut the single sequential log into the stages that consumed it,
  * `introspection.get_class` (as seen by the CLI module) answered from `batchie.retrospective` directly: the genuine lookup
    imports every batchie module (torch, pyro: ~5 s per process) and class lookup is not part of C11 / C13.
The saved training / test files are read back with h5py by dataset name (`Screen.load_h5` refuses a zero-row test screen); that
raw access is TIE knowledge (HARDENING item 20): any error in it is counted as `layout.unexpected`, reported as a broken tie and the
file is re-read through `Screen.load_h5` for the oracles (zero-row file of unknown layout: tie only).  The views are
compared -- rows, ids, mappings, masks -- with `Model/PrepPipeline.lean` run on the same screen, options and recorded log.
End-to-end oracles are evaluated on the files alone against the raw input description.
"""
import inspect
import logging
import math
import os
import shutil
import sys
import tempfile
from collections import Counter

import numpy as np

from vlib import common
from harness import screens as S
from harness import prep_common as P

INITS = [None, {"reveal": True}, {"reveal": False}]
GENS = [None, ("gen-perm", "PlatePermutationPlateGenerator"), ("gen-seg", "SampleSegregatingPermutationPlateGenerator"),
        ("gen-pair", "PairwisePlateGenerator")]
SMOOTHERS = [None, ("sm-mergemin", "MergeMinPlateSmoother"), ("sm-topbottom", "MergeTopBottomPlateSmoother"),
             ("sm-fixed", "FixedSizeSmoother"), ("sm-opt", "OptimalSizeSmoother"), ("sm-nplate", "NPlatePerCellLineSmoother"),
             ("sm-ensemble", "BatchieEnsemblePlateSmoother")]
CLI_PARAM = {"max": "max_plate_size", "subset": "subset_size", "anchor": "anchor_size", "min_size": "min_size", "n_iter": "n_iterations",
             "min_n": "min_n_cell_line_plates"}
SM_PARAM = {"sm-mergemin": "min_size", "sm-topbottom": "n_iterations", "sm-fixed": "plate_size", "sm-nplate": "min_n_cell_line_plates"}


class PipeRng(P.RecRng):
    """the one generator object of a CLI run.  A draw among Plate objects is additionally noted by plate id (which plate the run
    revealed is NOT taken from here but from what `reveal_plates` received, so the form of the draw does not matter)"""

    def _record_choice(self, out, *args, **kwargs):
        a = args[0] if args else kwargs.get("a")
        if isinstance(a, list) and a and hasattr(a[0], "selection_vector"):
            self.log.append(("first-plate", [int(x.plate_id) for x in a], int(out.plate_id)))
            return
        super()._record_choice(out, *args, **kwargs)


class FileView:
    """a saved screen read with h5py only"""

    def __init__(self, fn):
        import h5py
        dec = lambda ds: np.array([x.decode("utf-8") for x in ds[:].reshape(-1)], dtype=str).reshape(ds.shape)
        with h5py.File(fn, "r") as f:
            self.treatment_names = dec(f["treatment_names"])
            self.treatment_doses = f["treatment_doses"][:]
            self.treatment_ids = f["treatment_ids"][:]
            self.sample_names = dec(f["sample_names"])
            self.sample_ids = f["sample_ids"][:]
            self.plate_names = dec(f["plate_names"])
            self.plate_ids = f["plate_ids"][:]
            self.observations = f["observations"][:]
            self.observation_mask = f["observation_mask"][:].astype(bool)
            self.treatment_mapping = (dec(f["treatment_mapping_names"]), f["treatment_mapping_doses"][:], f["treatment_mapping_ids"][:])
            self.sample_mapping = (dec(f["sample_mapping_names"]), f["sample_mapping_ids"][:])
            self.control_treatment_name = f.attrs["control_treatment_name"]
        self.size = int(self.sample_names.shape[0])
        pm = sorted(set((int(i), str(x)) for i, x in zip(self.plate_ids, self.plate_names)))
        self.plate_mapping = ([x for _, x in pm], [i for i, _ in pm])


class LoadedView:
    """the same view obtained through the public `Screen.load_h5` (fallback when the raw layout is not the one `FileView` knows)"""

    def __init__(self, fn):
        from batchie.data import Screen
        t = Screen.load_h5(fn)
        self.treatment_names, self.treatment_doses, self.treatment_ids = t.treatment_names, t.treatment_doses, t.treatment_ids
        self.sample_names, self.sample_ids = t.sample_names, t.sample_ids
        self.plate_names, self.plate_ids = t.plate_names, t.plate_ids
        self.observations, self.observation_mask = t.observations, np.asarray(t.observation_mask, dtype=bool)
        self.treatment_mapping, self.sample_mapping = t.treatment_mapping, t.sample_mapping
        self.control_treatment_name = t.control_treatment_name
        self.size = int(t.size)
        pm = sorted(set((int(i), str(x)) for i, x in zip(self.plate_ids, self.plate_names)))
        self.plate_mapping = ([x for _, x in pm], [i for i, _ in pm])


def read_saved(fn, issues):
    """HARDENING item 20: the dataset names `FileView` reads are TIE knowledge about the storage layout.  Any error of the raw access is
    recorded in `issues` (reported as `layout.unexpected` + a broken tie, never as a violation, never escaping) and the file is read
    through the public `Screen.load_h5` instead; when that fails too (it refuses a zero-row screen) the view is None and the
    file-based oracles are skipped for the case."""
    try:
        return FileView(fn)
    except Exception as e:
        issues.append("raw read of %s: %s: %s" % (os.path.basename(fn), type(e).__name__, str(e)[:120]))
    try:
        return LoadedView(fn)
    except Exception as e:
        issues.append("Screen.load_h5 of %s: %s: %s" % (os.path.basename(fn), type(e).__name__, str(e)[:120]))
        return None


# ------------------------------------------------------------------ cases

def gen_case(rng, combo):
    ini, gen, sm = combo
    style = rng.choice(["full", "full", "fullseg", "fullseg", "fullseg", "mixed" if rng.random() < 0.3 else "full"])
    arity = rng.choice([2, 2, 2, 2, 2, 3, 1 if rng.random() < 0.3 else 2])
    if style == "fullseg":
        samples = P._samples(rng, rng.randint(2, 4))
        layout = [(s, p, True) for s, p, _ in P.seg_layout(rng, {smp: P._sizes(rng, rng.randint(1, 4)) for smp in samples}, observed=False)]
        raw = P.raw_from_layout(rng, layout, arity=arity, mask_none=rng.random() < 0.5)
    else:
        raw = P.gen_screen(rng, style, arity=arity, n_scale=2)
    if rng.random() < 0.85:
        # every sample gets full combinations (the filter keeps its single-agent rows, the pairwise generator finds plates)
        msk = raw["mask"]
        raw["mask"] = [False] * len(raw["snames"])
        P.ensure_combo_rows(rng, raw, p=1.0)
        raw["mask"] = msk
    if rng.random() < 0.1:
        raw["obs"] = [0.0 if rng.random() < 0.7 else x for x in raw["obs"]]      # reveal_plates refuses an all-zero plate
    if raw["arity"] >= 2 and rng.random() < 0.6:
        P.add_multidose_single_agents(rng, raw)
    if rng.random() < 0.15:
        # values a summary / sanity helper on the load path might rewrite (reveal_plates refuses a revealed NaN: behaviour)
        for i in rng.sample(range(len(raw["obs"])), min(len(raw["obs"]), rng.randint(1, 3))):
            raw["obs"][i] = rng.choice([float("inf"), float("-inf"), float("nan"), -0.0, 5e-324])
    p = {"init": INITS[ini], "gen": None, "sm": None}
    if GENS[gen] is not None:
        op = GENS[gen][0]
        gp = {}
        if op == "gen-seg":
            gp["max"] = rng.choice([1, 2, 3, 4, 6])
        elif op == "gen-pair":
            gp["subset"] = rng.choice([1, 1, 2])
            gp["anchor"] = rng.choice([0, 0, gp["subset"], 2 * gp["subset"]])
        else:
            gp["force"] = None
        p["gen"] = {"op": op, "params": gp}
    if SMOOTHERS[sm] is not None:
        op = SMOOTHERS[sm][0]
        sp = {}
        if op == "sm-ensemble":
            sp = {"min_size": rng.choice([2, 3, 4, 6]), "n_iter": rng.choice([0, 1, 2]), "min_n": rng.choice([0, 1, 2])}
        elif op == "sm-mergemin":
            sp["k"] = rng.choice([2, 3, 4, 6, 8])
        elif op == "sm-topbottom":
            sp["k"] = rng.choice([1, 1, 2, 3])
        elif op == "sm-fixed":
            sp["k"] = rng.choice([1, 2, 2, 3, 4])
        elif op == "sm-nplate":
            sp["k"] = rng.choice([1, 2, 2, 3])
        p["sm"] = {"op": op, "params": sp}
    p["fraction"] = rng.choice([0.0, 0.05, 0.25, 1 / 3.0, 0.5, 0.5, 0.7, 1.0, None, None, rng.random()])
    return {"op": "pipeline", "params": p, "raw": raw, "npseed": rng.randrange(2 ** 31)}


def wide_case(rng):
    """257..260 rows, > 127 distinct (name, dose) treatment ids, segregating generator with limit 2 (>= 129 plates), no smoother"""
    n = rng.randint(257, 260)
    samples = P._samples(rng, 3)
    tn = [["t%d" % (i % 140), "u%d" % (i % 7)] for i in range(n)]
    td = [[1.0 + (i % 3), 1.0] for i in range(n)]
    raw = dict(ctrl="", arity=2, tnames=tn, tdoses=td, snames=[samples[i % 3] for i in range(n)], pnames=["p%d" % (i % 5) for i in range(n)],
               obs=P.obs_values(rng, n), mask=None, tmap=None, smap=None)
    p = {"init": None, "gen": {"op": "gen-seg", "params": {"max": 2}}, "sm": None, "fraction": 0.5}
    return {"op": "pipeline", "params": p, "raw": raw, "npseed": rng.randrange(2 ** 31), "stale_outputs": True}


def combos(n, offset):
    """n option combinations: generator x smoother pairs cycle with period 28, the initial generator changes every 4 cases;
    84 consecutive cases are all 3 x 4 x 7 combinations"""
    out = []
    # 8 targeted combinations first: initial generator + no smoother, with the segregating / pairwise generator (single-sample clause
    # through the cover's multi-sample `unobserved_pl` plate) and with the permutation generator / none (cover clause)
    for i in range(min(8, n)):
        out.append((1 + (i + offset) % 2, (2, 3, 2, 3, 0, 1, 2, 3)[i], 0))
    for i in range(n - len(out)):
        j = i + offset
        out.append(((j // 28 + j // 4) % 3, j % 4, j % 7))
    return out


# ------------------------------------------------------------------ running main()

class PipeOutcome:
    def __init__(self):
        self.err = None
        self.parent_err = None
        self.train = None
        self.test = None
        self.log = []
        self.pops = []
        self.marks = {}
        self.inp = None
        self.layout_issues = []
        self.wrapper_issues = []
        self.received = {}   # what each stage of the core RECEIVED from the CLI glue (HARDENING item 18)


def argv_of(case, d):
    p = case["params"]
    a = ["prepare_retrospective_simulation", "--data", os.path.join(d, "in.h5"), "--training-output", os.path.join(d, "train.h5"),
         "--test-output", os.path.join(d, "test.h5"), "--seed", str(case["npseed"] % 1000)]
    if p["init"] is not None:
        a += ["--initial-plate-generator", "SparseCoverPlateGenerator", "--initial-plate-generator-param",
              "reveal_single_treatment_experiments=%s" % ("true" if p["init"]["reveal"] else "no")]
    if p["gen"] is not None:
        a += ["--plate-generator", dict(GENS[1:])[p["gen"]["op"]]]
        for k, v in sorted(p["gen"]["params"].items()):
            if k in CLI_PARAM:
                a += ["--plate-generator-param", "%s=%d" % (CLI_PARAM[k], v)]
    if p["sm"] is not None:
        op = p["sm"]["op"]
        a += ["--plate-smoother", dict(SMOOTHERS[1:])[op]]
        for k, v in sorted(p["sm"]["params"].items()):
            a += ["--plate-smoother-param", "%s=%d" % (SM_PARAM[op] if k == "k" else CLI_PARAM[k], v)]
    if p["fraction"] is not None:
        a += ["--holdout-fraction", repr(float(p["fraction"]))]
    return a


def execute(case):
    import batchie.retrospective as R
    import batchie.core as core
    from batchie.cli import prepare_retrospective_simulation as cli
    o = PipeOutcome()
    d = tempfile.mkdtemp()
    rec = PipeRng(case["npseed"])
    proxy = P.HeapProxy()
    depth = {"n": 0}
    made = {"n": 0}

    def snap_screen(scr):
        return {"exps": exps(scr), "mask": [bool(b) for b in scr.observation_mask], "plates": [str(x) for x in scr.plate_names]}

    def marked(name, fn):
        def w(*a, **k):
            outer = depth["n"] == 0
            depth["n"] += 1
            if outer:
                o.marks[name] = [len(rec.log), len(proxy.pops), None, None]
                try:
                    args = list(a) + list(k.values())
                    scr = [x for x in args if hasattr(x, "observation_mask") and hasattr(x, "plate_names")]
                    is_self = bool(a) and not hasattr(a[0], "observation_mask") and hasattr(a[0], "__dict__")
                    frac = None
                    try:     # arguments are identified by binding to the ORIGINAL's signature (positional or by name)
                        frac = inspect.signature(fn).bind(*a, **k).arguments.get("fraction")
                    except Exception as e:
                        o.wrapper_issues.append("%s: cannot bind the call: %r" % (name, e))
                    rec_in = {"screen": snap_screen(scr[0]) if scr else None, "rng_is_the_one_generator": any(x is rec for x in args),
                              "fraction": frac, "params": dict(vars(a[0])) if is_self else {}}
                    o.received[name] = rec_in
                except Exception as e:       # the recording must never change the run
                    o.received[name] = {"error": repr(e)}
                    o.wrapper_issues.append("%s: %r" % (name, e))
            try:
                return fn(*a, **k)
            finally:
                depth["n"] -= 1
                if outer:
                    o.marks[name][2:] = [len(rec.log), len(proxy.pops)]
        return w

    def factory(*a, **k):
        made["n"] += 1
        return rec

    orig_get_class = cli.introspection.get_class

    def get_class(*a, **k):
        # answered from batchie.retrospective (the genuine lookup imports torch / pyro); arguments found by binding to the original
        try:
            b = inspect.signature(orig_get_class).bind(*a, **k).arguments
            cls = getattr(R, b["class_name"], None)
            if cls is not None and not issubclass(cls, b["base_class"]):
                raise ValueError("not a subclass")
            if cls is not None:
                return cls
        except ValueError:
            raise
        except Exception as e:
            o.wrapper_issues.append("get_class: %r" % (e,))
        return orig_get_class(*a, **k)

    saved = [(R, "heapq", R.heapq), (cli, "get_prng_from_seed_argument", cli.get_prng_from_seed_argument),
             (cli.introspection, "get_class", cli.introspection.get_class),
             (cli, "create_plate_balanced_holdout_set_among_masked_plates", cli.create_plate_balanced_holdout_set_among_masked_plates),
             (core.InitialRetrospectivePlateGenerator, "generate_and_unmask_initial_plate", core.InitialRetrospectivePlateGenerator.generate_and_unmask_initial_plate),
             (core.RetrospectivePlateGenerator, "generate_plates", core.RetrospectivePlateGenerator.generate_plates),
             (core.RetrospectivePlateSmoother, "smooth_plates", core.RetrospectivePlateSmoother.smooth_plates),
             (sys, "argv", sys.argv)]
    prev_disable = logging.root.manager.disable
    blog = logging.getLogger("batchie")
    prev_level, prev_handlers = blog.level, list(blog.handlers)
    try:
        try:
            S.build(case["raw"]).save_h5(os.path.join(d, "in.h5"))
            o.inp = P.RawView(case["raw"])
        except Exception as e:
            o.parent_err = e
            return o
        R.heapq = proxy
        cli.get_prng_from_seed_argument = factory
        cli.introspection.get_class = get_class
        cli.create_plate_balanced_holdout_set_among_masked_plates = marked("holdout", saved[3][2])
        real_filter = cli.filter_dataset_to_treatments_that_appear_in_at_least_one_combo

        def filter_proxy(*a, **k):
            out = real_filter(*a, **k)
            try:
                screen = inspect.signature(real_filter).bind(*a, **k).arguments["screen"]
                o.received["loaded"] = snap_screen(screen)      # what Screen.load_h5 handed to the first stage
                o.received["filtered"] = snap_screen(out)       # what every later stage starts from
            except Exception as e:
                o.wrapper_issues.append("filter: %r" % (e,))
            return out

        real_reveal = cli.reveal_plates

        def reveal_proxy(*a, **k):
            try:
                ids = inspect.signature(real_reveal).bind(*a, **k).arguments["plate_ids"]
                o.received["reveal"] = {"plate_ids": [int(x) for x in ids]}
            except Exception as e:
                o.wrapper_issues.append("reveal_plates: %r" % (e,))
            return real_reveal(*a, **k)
        saved.append((cli, "reveal_plates", real_reveal))
        cli.reveal_plates = reveal_proxy
        saved.append((cli, "filter_dataset_to_treatments_that_appear_in_at_least_one_combo", real_filter))
        cli.filter_dataset_to_treatments_that_appear_in_at_least_one_combo = filter_proxy
        core.InitialRetrospectivePlateGenerator.generate_and_unmask_initial_plate = marked("init", saved[4][2])
        core.RetrospectivePlateGenerator.generate_plates = marked("gen", saved[5][2])
        core.RetrospectivePlateSmoother.smooth_plates = marked("sm", saved[6][2])
        sys.argv = argv_of(case, d)
        if case.get("stale_outputs"):
            # HARDENING item 12: both output paths already hold another screen (a second save to the same path must replace it)
            stale = P.same_size_variant(__import__("random").Random(case["npseed"]), case["raw"])
            S.build(stale).save_h5(os.path.join(d, "train.h5"))
            shutil.copyfile(os.path.join(d, "train.h5"), os.path.join(d, "test.h5"))
        import contextlib
        import io
        if case.get("verbose"):
            # HARDENING item 19: `--verbose` (configure_logging sets DEBUG and adds a stream handler: stderr is captured) inside the
            # harness-wide verbose configuration
            sys.argv = sys.argv + ["--verbose"]
            ctxs = [common.verbose_logging(), contextlib.redirect_stderr(io.StringIO())]
        else:
            logging.disable(logging.CRITICAL)
            ctxs = []
        with contextlib.ExitStack() as st:
            for c in ctxs:
                st.enter_context(c)
            try:
                cli.main()
            except SystemExit as e:      # argparse
                o.err = RuntimeError("SystemExit %s" % e.code)
            except Exception as e:       # part of the behaviour: class only
                o.err = e
        if o.err is None:
            o.train = read_saved(os.path.join(d, "train.h5"), o.layout_issues)
            o.test = read_saved(os.path.join(d, "test.h5"), o.layout_issues)
            if made["n"] != 1:
                o.err = RuntimeError("generator built %d times" % made["n"])
    finally:
        for obj, name, val in saved:
            setattr(obj, name, val)
        logging.disable(prev_disable)
        for h in list(blog.handlers):       # configure_logging adds one stream handler per main() call and sets the level to INFO
            if h not in prev_handlers:
                blog.removeHandler(h)
        blog.setLevel(prev_level)
        shutil.rmtree(d, ignore_errors=True)
    o.log = rec.log
    o.pops = proxy.pops
    o.rec = rec
    o.wrapper_issues += list(proxy.unexpected)
    return o


# ------------------------------------------------------------------ protocol

class _Stub:
    def __init__(self, log, pops):
        self.rng = type("L", (), {"log": log})()
        self.pops = pops


TINY = dict(ctrl="", arity=1, tnames=[["a"]], tdoses=[[1.0]], snames=["s"], pnames=["p"], obs=[0.5], mask=[True], tmap=None, smap=None)


def op_tokens(op, params, log, pops):
    line = P.driver_line({"op": op, "params": params, "raw": TINY}, _Stub(log, pops))
    return line.split(" ")[1:-10]


def driver_line(case, o):
    p = case["params"]
    log = o.log
    seg = lambda name: (log[o.marks[name][0]:o.marks[name][2]], o.pops[o.marks[name][1]:o.marks[name][3]]) if name in o.marks and o.marks[name][2] is not None else ([], [])
    toks = ["pipeline"]
    if p["init"] is None:
        toks += ["none", "-", "-"]
    else:
        ilog, _ = seg("init")
        toks += ["cover", "1" if p["init"]["reveal"] else "0", P.nat_list([e[2][0] for e in ilog if e[0] == "choice"])]
    pad = lambda t: t + ["-"] * (5 - len(t))
    if p["gen"] is None:
        toks += ["none"] + pad([])
    else:
        glog, _ = seg("gen")
        toks += [p["gen"]["op"][4:]] + pad(op_tokens(p["gen"]["op"], p["gen"]["params"], glog, []))
    # the plate the run revealed: what `reveal_plates` received (whatever form the draw had); older form: the recorded draw
    first = [e for e in log if e[0] == "first-plate"]
    rv = o.received.get("reveal", {}).get("plate_ids")
    toks.append(str(rv[0]) if rv else (str(first[0][2]) if first else "0"))
    if p["sm"] is None:
        toks += ["none"] + pad([])
    else:
        slog, spops = seg("sm")
        toks += [{"sm-mergemin": "mergemin", "sm-topbottom": "topbottom", "sm-fixed": "fixed", "sm-opt": "opt", "sm-nplate": "nplate",
                  "sm-ensemble": "ensemble"}[p["sm"]["op"]]] + pad(op_tokens(p["sm"]["op"], p["sm"]["params"], slog, spops))
    f = 0.1 if p["fraction"] is None else p["fraction"]
    hlog = log[o.marks["holdout"][0]:] if "holdout" in o.marks else []
    toks += [str(S.bits(f)), P.nat_ll([e[2] for e in hlog if e[0] == "choice"])]
    return " ".join(toks) + " " + S.raw_to_tokens(case["raw"])


def impl_canon(case, o):
    if o.parent_err is not None:
        return "parent-" + S.err_tok(o.parent_err)
    if o.err is not None:
        return S.err_tok(o.err)
    a, b = o.train, o.test
    if a is None or b is None:
        return "saved-files-unreadable-by-the-harness"
    extra = sorted(set(e[0] for e in o.log if e[0].startswith("other:")))
    if extra:       # a draw the model does not know about: the tie is broken, whatever the files look like
        return "unmodelled-generator-calls " + ",".join(extra)
    return S.show_screen(a) + "|" + S.show_rows(a) + "#" + S.show_screen(b)[3:] + "|" + S.show_rows(b)


# ------------------------------------------------------------------ end-to-end oracles (on the saved files only)

def reference_filter(raw):
    """rows the combination filter keeps (reference implementation on names)"""
    if raw["arity"] < 2:
        return None
    return P.combo_reference(raw)


def exps(v, idx=None):
    out = []
    for i in (range(v.size) if idx is None else idx):
        out.append((str(v.sample_names[i]), tuple(str(x) for x in v.treatment_names[i]), tuple(S.bits(x) for x in v.treatment_doses[i]),
                    S.bits(v.observations[i])))
    return out


def oracles(res, case, o, prop):
    if o.err is not None or o.parent_err is not None:
        return
    p, raw, s = case["params"], case["raw"], o.inp
    tr, te = o.train, o.test
    if tr is None or te is None:      # layout unknown and not loadable (zero-row file): tie only, see run_stream
        return
    fail = lambda what, obs, req: res.fail(what, case, obs, req, signature="%s:pipeline:%s" % (prop, what))
    keep = reference_filter(raw)
    filtered = exps(s, [i for i in range(s.size) if keep[i]])
    both = exps(tr) + exps(te)
    rcv = o.received
    # ---- what the core RECEIVED from the glue (item 18)
    if prop == "C13" and "filtered" in rcv and Counter(rcv["filtered"]["exps"]) != Counter(filtered):
        # the combination-filter clause on what `main()` hands to every later stage (multi-dose single agents included)
        fail("the screen main() goes on with is not the input filtered to treatments that occur in a full combination",
             {"kept": len(rcv["filtered"]["exps"])}, {"should_keep": len(filtered)})
    if prop == "C11" and "loaded" in rcv and Counter(rcv["loaded"]["exps"]) != Counter(exps(s)):
        fail("the screen main() loaded does not hold the experiments of the input file", {"n": len(rcv["loaded"]["exps"])}, {"n": int(s.size)})
    for stage in ("init", "gen", "sm", "holdout"):
        r_ = rcv.get(stage)
        if r_ is None or "error" in r_:
            continue
        if not r_["rng_is_the_one_generator"]:      # not a clause of the text: tie
            P.tie(res, prop, case, "stage %s did not receive the generator built from --seed" % stage, None)
        if prop == "C11" and r_["screen"] is not None and "filtered" in rcv and not P.sub_multiset(r_["screen"]["exps"], rcv["filtered"]["exps"]):
            fail("stage %s received experiments that are not in the filtered screen" % stage, {"n": len(r_["screen"]["exps"])}, None)
    if prop == "C11" and rcv.get("holdout") and "error" not in rcv["holdout"] and rcv["holdout"]["screen"] is not None:
        # the hold-out must be handed the whole smoothed screen (observed part included): the files are its partition
        if Counter(both) != Counter(rcv["holdout"]["screen"]["exps"]):
            fail("training + test files are not a partition of the screen handed to the hold-out", {"n": len(both)}, {"n": len(rcv["holdout"]["screen"]["exps"])})
        f_rcv = rcv["holdout"].get("fraction")
        f_want = 0.1 if p["fraction"] is None else p["fraction"]
        if f_rcv is not None and float(f_rcv) != float(f_want):
            P.tie(res, prop, case, "--holdout-fraction did not reach the hold-out", [f_rcv, f_want])
    for stage, key in (("gen", "gen"), ("sm", "sm")):
        r_ = rcv.get(stage)
        if r_ and "error" not in r_ and p[key] is not None:
            want = {(SM_PARAM[p[key]["op"]] if k_ == "k" else CLI_PARAM.get(k_, k_)): v for k_, v in p[key]["params"].items() if k_ != "force"}
            got = {k_: r_["params"].get(k_) for k_ in want}
            if got != want:
                P.tie(res, prop, case, "--plate-%s-param did not reach the plugin instance" % ("generator" if key == "gen" else "smoother"), [got, want])
    if prop == "C11":
        # Prepare_conserves.  WHICH rows the combination filter keeps is C13's clause, not C11's: C11 judges conservation relative to
        # what the implementation's own filter returns (generators keep everything, smoothers a sub-collection, the hold-out partitions)
        from batchie.data import filter_dataset_to_treatments_that_appear_in_at_least_one_combo as real_filter
        own = exps(real_filter(S.build(raw)))
        if not P.sub_multiset(both, exps(s)):
            fail("training + test experiments are not a sub-collection of the input", {"n": len(both)}, {"input": int(s.size)})
        elif not P.sub_multiset(both, own):
            fail("training + test experiments are not a sub-collection of the filtered screen", {"n": len(both)}, {"filtered": len(own)})
        elif p["sm"] is None and Counter(both) != Counter(own):
            fail("without a smoother training + test must be exactly the filtered screen", {"n": len(both)}, {"filtered": len(own)})
        # Prepare_test_fully_observed_train_mask
        if not bool(np.all(te.observation_mask)):
            fail("test screen is not fully observed", [bool(b) for b in te.observation_mask], "all observed")
        f = 0.1 if p["fraction"] is None else p["fraction"]
        un = Counter(str(x) for x, m in zip(tr.plate_names, tr.observation_mask) if not m)
        held = Counter(str(x) for x in te.plate_names)
        obs_plates = set(str(x) for x, m in zip(tr.plate_names, tr.observation_mask) if m)
        for nm in set(un) | set(held):
            size = un.get(nm, 0) + held.get(nm, 0)
            if nm in obs_plates and nm not in un:
                if held.get(nm, 0):
                    fail("test screen holds experiments of an observed plate", nm, 0)
            elif held.get(nm, 0) != math.ceil(size * f):
                fail("test screen holds the wrong number of experiments of a plate", {"plate": nm, "size": size, "held": held.get(nm, 0), "fraction": f},
                     math.ceil(size * f))
        # Prepare_shared_mappings is proved about the model; the TEXT of C11 does not mention mappings (C03 does), so on the
        # implementation a difference is a broken tie, not a C11 violation
        for k, lab in ((0, "treatment"), (1, "sample")):
            ma = (tr.treatment_mapping, tr.sample_mapping)[k]
            mb = (te.treatment_mapping, te.sample_mapping)[k]
            if [list(map(str, x)) for x in ma] != [list(map(str, x)) for x in mb]:
                P.tie(res, prop, case, "training and test screens carry different %s mappings" % lab, None)
        for v, lab in ((tr, "training"), (te, "test")):
            tm = {(str(a), float(b)): int(c) for a, b, c in zip(*v.treatment_mapping)}
            sm = {str(a): int(c) for a, c in zip(*v.sample_mapping)}
            for i in range(v.size):
                if int(v.sample_ids[i]) != sm.get(str(v.sample_names[i]), None):
                    P.tie(res, prop, case, "%s sample ids do not follow the saved mapping" % lab, int(v.sample_ids[i]))
                    break
                if [int(x) for x in v.treatment_ids[i]] != [tm.get((str(a), float(b))) for a, b in zip(v.treatment_names[i], v.treatment_doses[i])]:
                    P.tie(res, prop, case, "%s treatment ids do not follow the saved mapping" % lab, [int(x) for x in v.treatment_ids[i]])
                    break
    else:
        # Prepare_initial_plate_covers: with an initial generator and no smoother the observed part of the training screen
        # covers every sample and every treatment (control included) of the filtered input
        if p["init"] is not None and p["sm"] is None:
            m = tr.observation_mask
            want_s = set(e[0] for e in filtered)
            got_s = set(str(x) for x in tr.sample_names[m])
            if want_s - got_s:
                fail("a surviving sample has no observed experiment in the training screen", sorted(want_s - got_s), "covered")
            cell = lambda nm, d: "<control>" if (nm == raw["ctrl"] or d <= 0) else (nm, d)
            want_t = set(cell(nm, S.from_bits(d)) for e in filtered for nm, d in zip(e[1], e[2]))
            got_t = set(cell(str(nm), float(d)) for i in range(tr.size) if m[i] for nm, d in zip(tr.treatment_names[i], tr.treatment_doses[i]))
            if want_t - got_t:
                fail("a surviving treatment has no observed experiment in the training screen", sorted(map(str, want_t - got_t)), "covered")
        # Prepare_unobserved_plates_single_sample
        if p["gen"] is not None and p["gen"]["op"] in ("gen-seg", "gen-pair"):
            for v, which in ((tr, [i for i in range(tr.size) if not tr.observation_mask[i]]), (te, range(te.size))):
                pl = {}
                for i in which:
                    pl.setdefault(str(v.plate_names[i]), set()).add(str(v.sample_names[i]))
                for nm, smp in pl.items():
                    if len(smp) > 1:
                        fail("an unobserved plate of the prepared screens holds more than one sample", {"plate": nm, "samples": sorted(smp)}, "single sample")
                        break
            if p["gen"]["op"] == "gen-seg" and p["sm"] is None:
                sizes = Counter(str(x) for x, mm in zip(tr.plate_names, tr.observation_mask) if not mm) + Counter(str(x) for x in te.plate_names)
                if p["init"] is None:      # the revealed first plate is a generated plate too
                    sizes = sizes + Counter(str(x) for x, mm in zip(tr.plate_names, tr.observation_mask) if mm)
                big = {k: v for k, v in sizes.items() if v > p["gen"]["params"]["max"]}
                if big:
                    fail("a generated plate of the prepared screens exceeds max_plate_size", big, p["gen"]["params"]["max"])


# ------------------------------------------------------------------ run / replay

def rec_of(o):
    return getattr(o, "rec", None)


def run_stream(ctx, res, prop, lines, expect, cases):
    rng = ctx.subrng(prop, "pipeline")
    n = ctx.scale(36, 260, 92)
    todo = []
    for k, combo in enumerate(combos(n, (ctx.seed * 29) % 84)):
        case = gen_case(rng, combo)
        if k % 3 == 1:
            case["stale_outputs"] = True
        todo.append(case)
    todo.append(wide_case(rng))
    for k, case in enumerate(todo):
        if k % 6 == 2 or k == len(todo) - 1:
            case["verbose"] = True
    for case in todo:
        o = execute(case)
        res.evaluations += 1
        res.count("op.pipeline")
        p = case["params"]
        res.count("pipeline.options init=%s gen=%s sm=%s" % ("cover" if p["init"] else "none", p["gen"]["op"] if p["gen"] else "none",
                                                             p["sm"]["op"] if p["sm"] else "none"))
        if o.parent_err is not None:
            res.count("parent-error")
            continue
        res.count("pipeline.outcome." + ("error:" + type(o.err).__name__ if o.err is not None else "returned"))
        if o.wrapper_issues or getattr(rec_of(o), "unexpected", None):
            res.count("wrapper.unexpected-call")
            P.tie(res, prop, case, "a recording wrapper of the harness met a call form it does not understand",
                  (o.wrapper_issues + list(getattr(rec_of(o), "unexpected", [])))[:3])
        if o.layout_issues:
            res.count("layout.unexpected")
            P.tie(res, prop, case, "the harness's raw h5py access did not find the storage layout it knows", o.layout_issues[:2])
        oracles(res, case, o, prop)
        res.count("class.entry-point.prepare_retrospective_simulation: real main(), oracles on what the stages received and on the files")
        if case.get("verbose"):
            res.count("class.verbose-logging: pipeline case under verbose_logging() + --verbose, compared with the quiet run")
            quiet = dict(case)
            quiet.pop("verbose")
            oq = execute(quiet)
            if impl_canon(quiet, oq) != impl_canon(case, o) or repr(oq.log) != repr(o.log) or oq.pops != o.pops:
                P.tie(res, prop, case, "the run under --verbose differs from the quiet run (files, draw trace or heap trace)", None)
        if o.err is None and any(x != x or x in (float("inf"), float("-inf")) for x in case["raw"]["obs"]):
            res.count("class.load-path: input file with NaN / +-inf observation values")
        if o.err is None:
            if case.get("stale_outputs"):
                res.count("class.instalments: output paths already hold another screen of the same shape")
            if o.inp.size >= 257:
                res.count("class.int-width: >= 257 rows / >= 128 plates / >= 128 treatment ids through load_h5 -> main -> save_h5")
            if p["fraction"] is None or p["fraction"] in (0.05, 0.25):
                res.count("class.default-budget: --holdout-fraction omitted (default 0.1) or just below / above it")
            if o.test is not None and o.train is not None and o.test.size > 0 and o.train.size > 0:
                res.nontrivial.add(("pipeline", common.short_hash(case)))
            if p["init"] is not None and p["sm"] is None:
                res.count("clause.pipeline: initial plate must cover (initial generator, no smoother)")
            if p["gen"] is not None and p["gen"]["op"] != "gen-perm":
                res.count("clause.pipeline: single-sample unobserved plates (segregating / pairwise generator)")
            if o.test is not None and o.test.size >= 2:
                res.count("clause.pipeline: test screen with >= 2 experiments")
        lines.append(driver_line(case, o))
        expect.append(impl_canon(case, o))
        cases.append(case)


def replay(ctx, case, res, prop):
    o = execute(case)
    oracles(res, case, o, prop)
