"""C05 -- a plate's DBAL score depends on that plate alone and equals the direct estimator.

Oracles (on the implementation alone): an independent loop-by-loop Python evaluation of the documented
estimator (log-sum over triples of summed distance ** factor times the per-experiment Gaussian triple term),
metamorphic runs (rescore alone, regroup with another max_chunk, reorder experiments, relabel posterior
samples, padding width, all entry points agree) and finiteness iff some triple has positive distance.

Tie: the Lean driver evaluates `scoreDirect`, `scoreVectorised`, the two wrappers, `scorerScore`,
`arraySplit`, `padRagged` and `allTriples` of Batchie.Model.Dbal at Float on the same inputs (floats travel as
64-bit patterns, the triple lists are recorded from the real run through a recording generator and the real
`get_combination_at_sorted_index`).  `scoreDirect` is a plain sum of products, so its Float evaluation is only
compared when the largest log-weight lies in (-600, 600); the code-shaped definitions (max-shifted logsumexp)
are compared on every case.
"""
import math
import random
import struct

import numpy as np

from vlib import common

common.use_repo_sources()

RULE = ("random plate sets: 1-12 plates of unequal sizes 1..40 (single plate, size-1 plates included; mode 'large': 96/384-well "
        "plates next to size-1 plates; mode 'many': 17..60 small plates so that the default max_chunk=50 splits; mode 'dynrange': "
        "plates whose log-scores differ by > 750 inside ONE kernel call, incl. the 708..745 band where exp() of a globally "
        "shifted term is subnormal; mode 'manythetas': n_thetas 16..25), n_thetas 3..8 "
        "(thorough 3..14) with C(n,3) <= max_combos so every triple is enumerated, means at four scales (0.01..30), variances "
        "log-uniform over 1e-3..1e3 (per cell, or per (plate, theta) for the homoscedastic entry point), symmetric "
        "non-negative distance matrices with no / some / most / all-but-one-pair / all entries zero, distance_factor "
        "1 (mostly), 0.5, 2, 3; every max_chunk in {1,2,3,P-1,P,P+1,50}; scorer objects are REUSED: each is first run on a decoy "
        "plate set of the same dense shape but other raggedness/values/distances (exposes buffers, masks or matrices kept across "
        "chunks or calls), and in EVERY case two further scorer objects are first used with MORE resp. FEWER posterior samples and another "
        "distance matrix (budget covering both C(n,3) or only the smaller), then must reproduce the direct estimator and a fresh scorer's result; a third of the cases passes read-only, non-contiguous input arrays; every input is compared with a pristine copy "
        "afterwards and the kernel is called twice on the same dense arrays; plus, in every run, n_thetas 34, 36, 40 (C(n,3) = 5984..9880 > the default budget 5000) on tiny plates: every entry point "
        "(kernel, homoscedastic, heteroscedastic, scorer with max_chunk 50 and 1/2) with budgets C, C+1, 20000 (direct estimator, seed independence, all triples gathered) "
        "and sub-sampling budgets 50, 777, 6000 (number of triples gathered = min(C, budget)); plus the hardening classes 10-13 (every argument a temporary of the shape of the previous round; one scorer object with another generator; "
        "plates scored in instalments vs one call; plate widths and plate counts 127/128/129/255/256/257; budgets 4999/5001 around the default); oracles "
        "fire only on valid inputs for stated clauses -- invalid shapes, < 3 samples, the empty dict, dict key order, in-place modification as such, "
        "the internal pad helper and the number of sub-sampled triples are ties/counters; plus (item 22, class offset-means) means = offset + N(0,1)*spread with offsets 1e3, 1e5, 1e7, -1e6 or another offset per experiment, tiny plates, all entry "
        "points, against the direct estimator computed from the DIFFERENCES with the tolerance 512 ulp * (condition of the log-weight sum + |score|); "
        "plus (item 18) the scorer through the real calculate_scores.main() with --scorer-param max_chunk/max_triples (budgets C(n,3), C+1, 5000, "
        "20000; n_thetas 34/36 so that the budget lies above the default), thetas / distance matrix split over two files, oracle on the scores file, tie on what "
        "scorer and kernel receive; (item 19) a tenth of the plate sets, the classes, one n_thetas>33 case, a fifth of the real-object cases and the n>=34 / every third "
        "CLI case under verbose logging (same oracles + bit-identical scores); plus the scorer driven through real "
        "Screen/Plate/ThetaHolder/ChunkedDistanceMatrix objects. Non-trivial: >= 2 plates of different sizes and some triple with positive distance.")

RTOL = 1e-9
ATOL = 1e-9


# ----------------------------------------------------------------------------------------------
def f2b(x):
    return struct.unpack("<Q", struct.pack("<d", float(x)))[0]


def b2f(b):
    return struct.unpack("<d", struct.pack("<Q", int(b)))[0]


def enc_row(r):
    r = list(r)
    return "_" if not r else ",".join(str(f2b(x)) for x in r)


def enc_mat(m):
    m = list(m)
    return "-" if not m else ";".join(enc_row(r) for r in m)


def enc_3d(a):
    return "|".join(enc_mat(m) for m in a)


def enc_triples(ts):
    return "-" if not ts else ";".join("%d,%d,%d" % tuple(t) for t in ts)


def dec_row(s):
    if s in ("_", "-"):
        return []
    return [b2f(x) for x in s.split(",")]


def close(a, b):
    a, b = float(a), float(b)
    if math.isnan(a) or math.isnan(b):
        return False
    if math.isinf(a) or math.isinf(b):
        return a == b
    return abs(a - b) <= ATOL + RTOL * max(abs(a), abs(b))


def all_close(xs, ys):
    xs, ys = list(xs), list(ys)
    return len(xs) == len(ys) and all(close(x, y) for x, y in zip(xs, ys))


# ----------------------------------------------------------------------------------------------
class RecRng(np.random.Generator):
    """a REAL numpy Generator (so `isinstance` checks and every Generator method work) that records what `choice` returned (the indices
    of the drawn triples).  Signature-agnostic (HARDENING item 21): all arguments are forwarded unchanged."""

    def __new__(cls, seed):
        return super().__new__(cls, np.random.PCG64(seed))

    def __init__(self, seed):
        super().__init__(np.random.PCG64(seed))
        self.calls = []
        self.g = self

    def choice(self, *a, **k):
        out = super().choice(*a, **k)
        try:
            self.calls.append([int(x) for x in np.asarray(out).ravel()])
        except Exception:  # noqa
            pass
        return out


def rsig(e):
    """signature of an exception caught around an implementation call: `tie:wrapper` when it is the harness's own doing (item 21)"""
    from harness.dbal_cli import harness_fault
    return "tie:wrapper" if harness_fault(e) else "raises"


def _first(args, kwargs):
    from harness.dbal_cli import first_arg
    return first_arg(args, kwargs)


def triples_of(gd, calls, n):
    return [[tuple(int(x) for x in gd.get_combination_at_sorted_index(ind, n, 3)) for ind in c] for c in calls]


class StubPlate:
    def __init__(self, means, variances):
        self.means = means
        self.variances = variances
        self.size = means.shape[1]
        self.selection_vector = np.zeros(1, dtype=bool)


class StubTheta:
    def __init__(self, i):
        self.i = i

    # stand-ins for the repo's interfaces: the argument may arrive positionally or under any keyword name (item 21)
    def predict_conditional_mean(self, *args, **kwargs):
        return _first(args, kwargs).means[self.i]

    def predict_conditional_variance(self, *args, **kwargs):
        return _first(args, kwargs).variances[self.i]


class StubThetas:
    def __init__(self, n):
        self.n_thetas = n

    def get_theta(self, *args, **kwargs):
        return StubTheta(int(_first(args, kwargs)))


class StubDM:
    def __init__(self, d):
        self.d = d

    def to_dense(self, *args, **kwargs):
        return self.d


# ----------------------------------------------------------------------------------------------
def ref_logweights(D, factor, m, v, triples):
    """log of the weight of every triple with positive distance, loop by loop (no numpy, no padding)"""
    L = len(m[0])
    out = []
    for (i, j, l) in triples:
        d = D[i][j] + D[j][l] + D[i][l]
        if d == 0:
            continue
        lw = factor * math.log(d)
        for e in range(L):
            m1, m2, m3 = m[i][e], m[j][e], m[l][e]
            v1, v2, v3 = v[i][e], v[j][e], v[l][e]
            a = v1 * v2 + v2 * v3 + v1 * v3
            q = v3 * (m1 - m2) ** 2 + v2 * (m1 - m3) ** 2 + v1 * (m2 - m3) ** 2
            lw += -0.5 * math.log(a) - (v1 * v2 * v3) / (2.0 * a * a) * q
        out.append(lw)
    return out


def ref_score(logs):
    if not logs:
        return -math.inf
    M = max(logs)
    return M + math.log(sum(math.exp(x - M) for x in logs))


def ref_direct_product(D, factor, m, v, triples):
    """the same estimator as a plain sum of products (only meaningful inside the double range)"""
    L = len(m[0])
    s = 0.0
    for (i, j, l) in triples:
        d = D[i][j] + D[j][l] + D[i][l]
        w = d ** factor if d > 0 else 0.0
        for e in range(L):
            m1, m2, m3 = m[i][e], m[j][e], m[l][e]
            v1, v2, v3 = v[i][e], v[j][e], v[l][e]
            a = v1 * v2 + v2 * v3 + v1 * v3
            q = v3 * (m1 - m2) ** 2 + v2 * (m1 - m3) ** 2 + v1 * (m2 - m3) ** 2
            w *= math.exp(-(v1 * v2 * v3) / (2.0 * a * a) * q) / math.sqrt(a)
        s += w
    return math.log(s) if s > 0 else -math.inf


# ----------------------------------------------------------------------------------------------
def gen(subseed, big):
    r = random.Random(subseed)
    g = np.random.default_rng(r.randrange(2 ** 63))
    n = r.choice([3, 4, 5, 6, 7, 8, 9, 10, 11, 12, 13, 14] if big else [3, 3, 4, 4, 5, 6, 7, 8])
    n_plates = r.choice([1, 1, 2, 2, 3, 4, 5, 7, 9, 12])
    if big and n > 10:
        n_plates = min(n_plates, 5)
    mode = r.choice(["tiny", "mixed", "mixed", "wide"])
    special = r.random()
    if special < 0.04:
        mode = "large"          # production plate sizes; only a few posterior samples so that the loop reference stays cheap
        n = r.choice([3, 4, 5])
        n_plates = r.choice([2, 3, 4])
    elif special < 0.08:
        mode = "many"           # more plates than the default max_chunk
        n = r.choice([3, 4, 5])
        n_plates = r.choice([17, 33, 51, 60])
    elif special < 0.20:
        mode = "dynrange"
        n_plates = r.choice([2, 3, 4, 6])
    elif special < 0.22:
        mode = "manythetas"
        n = r.choice([16, 20, 25])
        n_plates = r.choice([1, 2, 3])
    sizes = []
    for _ in range(n_plates):
        if mode == "large":
            sizes.append(r.choice([1, 96, 384, 384, r.randint(50, 400)]))
        elif mode == "many":
            sizes.append(r.choice([1, 1, 2, 3, 5, 8]))
        elif mode == "dynrange":
            sizes.append(r.choice([1, 1, 2, 40, 97, 98, 99, 100, 120]))
        elif mode == "manythetas":
            sizes.append(r.choice([1, 2, 3, 5]))
        elif mode == "tiny":
            sizes.append(r.choice([1, 1, 2, 3]))
        elif mode == "mixed":
            sizes.append(r.choice([1, 2, 3, 5, 8, 13, 21, 40, r.randint(1, 40)]))
        else:
            sizes.append(r.randint(20, 40))
    factor = r.choice([1.0, 1.0, 1.0, 1.0, 0.5, 2.0, 3.0])
    zero_mode = r.choice(["none", "none", "some", "most", "onepair", "all"])
    homo = r.random() < 0.3
    scale = r.choice([0.01, 1.0, 1.0, 3.0, 30.0])
    U = np.triu(10.0 ** g.uniform(-3, 1, size=(n, n)) if r.random() < 0.5 else g.uniform(0, 2, size=(n, n)), 1)
    if zero_mode == "some":
        U = U * (g.uniform(size=(n, n)) > 0.3)
    elif zero_mode == "most":
        U = U * (g.uniform(size=(n, n)) > 0.85)
    elif zero_mode == "all":
        U = U * 0.0
    elif zero_mode == "onepair":
        a, b = sorted(r.sample(range(n), 2))
        keep = np.zeros((n, n))
        keep[a, b] = 1.0
        U = U * keep
    D = U + U.T
    means, variances = [], []
    if mode == "dynrange":
        if 1 not in sizes:
            sizes[r.randrange(len(sizes))] = 1
        if max(sizes) < 97:
            sizes[(sizes.index(1) + 1) % len(sizes)] = r.choice([97, 98, 99, 100])
        if zero_mode == "all":
            zero_mode = "none"
            U = np.triu(g.uniform(0.5, 2, size=(n, n)), 1)
            D = U + U.T
    for L in sizes:
        if mode == "dynrange":
            # a plate of L experiments with variance v and (nearly) equal means has log-score ~ -L/2 log(3 v^2):
            # v = 1e3 -> -7.46 L, v = 1e-3 -> +6.36 L; a spread of the means at v = 1e-3 gives -1e5 per experiment
            kind = r.choice(["flat_hi", "flat_hi", "flat_lo", "spread"]) if L > 1 else "unit"
            v0 = {"flat_hi": 1e3, "flat_lo": 1e-3, "spread": 1e-3, "unit": 1.0}[kind]
            sc = {"flat_hi": 1e-3, "flat_lo": 1e-6, "spread": 30.0, "unit": 0.01}[kind]
            means.append(g.normal(size=(n, L)) * sc)
            variances.append(v0 * np.ones((n, L)) if homo else v0 * 10.0 ** g.uniform(-0.01, 0.01, size=(n, L)))
            continue
        means.append(g.normal(size=(n, L)) * scale + r.choice([0.0, 0.0, 5.0]))
        if homo:
            variances.append((10.0 ** g.uniform(-3, 3, size=(n, 1))) * np.ones((n, L)))
        else:
            variances.append(10.0 ** g.uniform(-3, 3, size=(n, L)))
    C = n * (n - 1) * (n - 2) // 6
    max_combos = r.choice([C, C + 1, 5000])
    return dict(n=n, sizes=sizes, factor=factor, zero_mode=zero_mode, homo=homo, D=D, means=means, variances=variances,
                max_combos=max_combos, C=C, r=r, mode=mode)


def pad_dense(arrs, P, pad):
    n = arrs[0].shape[0]
    out = np.full((len(arrs), n, P), pad, dtype=float)
    for i, a in enumerate(arrs):
        out[i, :, : a.shape[1]] = a
    return out


def eval_case(case, want_tie=True):
    """runs the real code on the case; returns (failures, tie, info).
    failures: list of (what, observed, required, signature); tie: list of (where, line, impl_values)"""
    from batchie.scoring import gaussian_dbal as gd

    c = gen(case["subseed"], case["big"])
    n, D, means, variances, factor = c["n"], c["D"], c["means"], c["variances"], c["factor"]
    r = c["r"]
    P = len(means)
    fails, tie = [], []
    info = dict(n=n, sizes=c["sizes"], factor=factor, zero_mode=c["zero_mode"], homo=c["homo"], tie_safe=False, positive=False,
                mode=c["mode"], dyn_gap=0.0, views=False)
    # pristine copies (the reference, the tie lines and the "inputs untouched" oracle use these)
    D0, means0, variances0 = D.copy(), [m.copy() for m in means], [v.copy() for v in variances]
    if r.random() < 0.33:
        # the same values as read-only, non-contiguous arrays: Fortran order, every second column of a wider
        # block, a reversed view.  Nothing in the property allows the answer to depend on the memory layout.
        info["views"] = True

        def view_of(a, how):
            if how == 0:
                b = np.asfortranarray(a.copy())
            elif how == 1:
                big = np.full((a.shape[0], 2 * a.shape[1]), 123.456)
                big[:, ::2] = a
                b = big[:, ::2]
            else:
                b = a[::-1, ::-1].copy()[::-1, ::-1]
            b.setflags(write=False)
            return b
        means = [view_of(m, r.randrange(3)) for m in means]
        variances = [view_of(v, r.randrange(3)) for v in variances]
        D = view_of(D, r.randrange(3))

    def same(a, b):
        return a.shape == b.shape and np.array_equal(a, b, equal_nan=True)

    def check_untouched(where):
        if not (same(D, D0) and all(same(a, b) for a, b in zip(means, means0)) and all(same(a, b) for a, b in zip(variances, variances0))):
            # not stated by the property as such (its consequence -- another score on the next call -- is, and is an oracle below)
            bad("an entry point modifies its input arrays in place", {"after": where}, "inputs bit-identical after the call", "tie:mutates-input")
            return False
        return True
    all_triples = [(a, b, cc) for a in range(n) for b in range(a) for cc in range(b)]
    info["positive"] = any(D[a][b] + D[b][cc] + D[a][cc] > 0 for (a, b, cc) in all_triples)
    Dl = D0.tolist()

    def call(fn, *a, **k):
        rng = RecRng(r.randrange(2 ** 32))
        try:
            out = fn(*a, rng=rng, **k)
        except Exception as e:  # noqa
            if rsig(e) != "raises":
                own_faults.append(type(e).__name__ + ": " + str(e)[:200])
            return "err:" + type(e).__name__ + ": " + str(e)[:200], []
        try:
            return out, triples_of(gd, rng.calls, n)
        except Exception:  # noqa
            return out, []

    own_faults = []

    def bad(what, observed, required, sig=None):
        if own_faults:          # a wrapper / stub of the harness failed in this case: nothing here is an oracle failure (item 21)
            fails.append((what, {"harness": own_faults[0], "observed": observed}, required, "tie:wrapper"))
            return
        fails.append((what, observed, required, sig or what))

    # ---- reference -------------------------------------------------------------------------
    logs = [ref_logweights(Dl, factor, m.tolist(), v.tolist(), all_triples) for m, v in zip(means0, variances0)]
    ref = [ref_score(l) for l in logs]
    fin = [x for x in ref if math.isfinite(x)]
    info["dyn_gap"] = (max(fin) - min(fin)) if len(fin) >= 2 else 0.0
    safe = all((not l) or (-600.0 < max(l) < 600.0) for l in logs)
    info["tie_safe"] = safe
    if safe and sum(c["sizes"]) * c["C"] < 4000:
        ref2 = [ref_direct_product(Dl, factor, m.tolist(), v.tolist(), all_triples) for m, v in zip(means0, variances0)]
        if not all_close(ref, ref2):
            raise RuntimeError("harness references disagree: %r %r" % (ref, ref2))

    # ---- entry point 1: heteroscedastic --------------------------------------------------------
    het, ts_het = call(gd.dbal_fast_gaussian_scoring_heteroscedastic, per_plate_predictions=means, variances=variances,
                       distance_matrix=D, max_combos=c["max_combos"], distance_factor=factor)
    if isinstance(het, str):
        bad("heteroscedastic entry point raises on valid input", het, "scores", "raises")
        return fails, tie, info
    het = [float(x) for x in het]
    info["het"] = list(het)
    drawn_ok = len(ts_het) == 1 and sorted(ts_het[0]) == sorted(all_triples)
    if not drawn_ok:
        # how the kernel obtains its triples is C15's subject; here only the consequence (the score) is an oracle
        info["draw_unrecognised"] = True
    if not all_close(het, ref):
        bad("heteroscedastic scores differ from the direct loop-by-loop estimator", het, ref, "reference")
    # finiteness
    for k in range(P):
        pos = bool(logs[k])
        if pos != math.isfinite(het[k]) or (not pos and het[k] != -math.inf):
            bad("score finite iff some triple has positive distance", {"plate": k, "score": het[k]},
                {"some_positive_distance": pos}, "finite")
            break
    if want_tie and drawn_ok:
        tie.append(("het", "dbal.het %d %s %s %s %s" % (f2b(factor), enc_mat(Dl), enc_triples(ts_het[0]), enc_3d(means0), enc_3d(variances0)), het))
    if want_tie and safe and drawn_ok:
        tie.append(("direct", "dbal.direct %d %s %s %s %s" % (f2b(factor), enc_mat(Dl), enc_triples(ts_het[0]), enc_3d(means0), enc_3d(variances0)), het))
    check_untouched("heteroscedastic")

    # ---- entry point 2: vectorised on arrays padded wider than needed -------------------------
    extra = r.choice([0, 1, 5, 17])
    W = max(c["sizes"]) + extra
    pm, pv = pad_dense(means0, W, 0.0), pad_dense(variances0, W, np.nan)
    pm0, pv0 = pm.copy(), pv.copy()
    if info["views"]:
        pm.setflags(write=False)
        pv.setflags(write=False)
    vec, ts_vec = call(gd.dbal_fast_gauss_scoring_vectorized, predictions=pm, variances=pv, distance_matrix=D,
                       max_combos=c["max_combos"], distance_factor=factor)
    if isinstance(vec, str):
        bad("vectorised entry point raises on valid input", vec, "scores", "raises")
    else:
        vec = [float(x) for x in vec]
        if not all_close(vec, ref):
            bad("vectorised scores on wider padding differ from the direct estimator", {"pad_width": W, "scores": vec}, ref, "padding")
        if not (same(pm, pm0) and same(pv, pv0)):
            bad("the vectorised entry point modifies its dense input arrays in place (NaN padding / means overwritten)",
                {"pad_width": W}, "inputs bit-identical after the call", "tie:mutates-input")
        # the same dense arrays scored a second time
        vec2, _ = call(gd.dbal_fast_gauss_scoring_vectorized, predictions=pm, variances=pv, distance_matrix=D,
                       max_combos=c["max_combos"], distance_factor=factor)
        if isinstance(vec2, str) or not all_close([float(x) for x in vec2], ref):
            bad("scoring the same dense arrays a second time gives other scores", {"pad_width": W, "second": vec2 if isinstance(vec2, str) else [float(x) for x in vec2]}, ref, "second-call")
        if want_tie and len(ts_vec) == 1:
            tie.append(("vec", "dbal.vec %d %s %s %s %s" % (f2b(factor), enc_mat(Dl), enc_triples(ts_vec[0]), enc_3d(pm0), enc_3d(pv0)), vec))

    # ---- entry point 3: homoscedastic ----------------------------------------------------------
    if c["homo"]:
        hv = np.array([v[:, 0] for v in variances0])
        if info["views"]:
            hv.setflags(write=False)
        hom, ts_hom = call(gd.dbal_fast_gaussian_scoring_homoscedastic, per_plate_predictions=means, variances=hv,
                           distance_matrix=D, max_combos=c["max_combos"], distance_factor=factor)
        if isinstance(hom, str):
            bad("homoscedastic entry point raises on valid input", hom, "scores", "raises")
        else:
            hom = [float(x) for x in hom]
            if not all_close(hom, ref):
                bad("homoscedastic scores differ from the direct estimator", hom, ref, "entrypoints")
            if want_tie and len(ts_hom) == 1:
                tie.append(("hom", "dbal.hom %d %s %s %s %s" % (f2b(factor), enc_mat(Dl), enc_triples(ts_hom[0]), enc_3d(means0), enc_mat(hv.tolist())), hom))
        check_untouched("homoscedastic")

    # ---- entry point 4: the scorer (factor is always 1.0 there) --------------------------------
    ids = r.sample(range(100), P)
    plates = {i: StubPlate(m, v) for i, m, v in zip(ids, means, variances)}
    if factor == 1.0:
        ref1 = ref
    else:
        ref1 = [ref_score(ref_logweights(Dl, 1.0, m.tolist(), v.tolist(), all_triples)) for m, v in zip(means, variances)]
    chunks = sorted(set([1, 2, 3, max(1, P - 1), P, P + 1, 50]))
    r.shuffle(chunks)
    if sum(c["sizes"]) * c["C"] > 30000:
        chunks = chunks[:3]
    # decoy: same n, same number of plates and the same multiset of sizes (so every sub-group has the same dense shape
    # as in the real call) but the sizes rotated (another raggedness in every slot), other values, other distances
    rot = c["sizes"][1:] + c["sizes"][:1]
    gdec = np.random.default_rng(r.randrange(2 ** 32))
    decoy = {i: StubPlate(gdec.normal(size=(n, L)) * 3.0, 10.0 ** gdec.uniform(-2, 2, size=(n, L))) for i, L in zip(ids, rot)}
    Udec = np.triu(gdec.uniform(0.1, 5.0, size=(n, n)), 1)
    Ddec = Udec + Udec.T
    for ci, mc in enumerate(chunks):
        reused = ci < 3
        # ci = 0: decoy with the SAME number of posterior samples (same dense shapes);
        # ci = 1: the scorer object was used before with MORE posterior samples, ci = 2: with FEWER (in-process
        #         active-learning rounds: n_thetas changes between score() calls); the decoy has its own distance matrix.
        n_dec = n
        if ci == 1:
            n_dec = n + r.choice([1, 2, 5])
        elif ci == 2:
            n_dec = r.randint(3, n - 1) if n > 3 else n + 1
        budget = c["max_combos"]
        if n_dec != n and r.random() < 0.5:
            budget = max(budget, math.comb(n_dec, 3))      # exhaustive regime in BOTH calls (else the larger one sub-samples)
        sc = gd.GaussianDBALScorer(max_chunk=mc, max_triples=budget)
        if reused:
            # the scorer object has a history: it scored the decoy set before
            if n_dec == n:
                dec, Dd = decoy, Ddec
            else:
                dec = {i: StubPlate(gdec.normal(size=(n_dec, L)) * 3.0, 10.0 ** gdec.uniform(-2, 2, size=(n_dec, L))) for i, L in zip(ids, rot)}
                Ud = np.triu(gdec.uniform(0.1, 5.0, size=(n_dec, n_dec)), 1)
                Dd = Ud + Ud.T
            o_dec, _ = call(sc.score, plates=dec, distance_matrix=StubDM(Dd), samples=StubThetas(n_dec), progress_bar=False)
            if isinstance(o_dec, str):
                bad("scorer raises on valid input", {"max_chunk": mc, "error": o_dec, "n_thetas": n_dec}, "scores", "raises")
                continue
        use = plates
        if ci == 1 and P >= 2:
            use = dict(reversed(list(plates.items())))      # the same dict in the opposite insertion order
        out, tss = call(sc.score, plates=use, distance_matrix=StubDM(D), samples=StubThetas(n), progress_bar=False)
        if isinstance(out, str):
            bad("scorer raises on valid input" + (" (scorer object previously used with %d posterior samples, now %d)" % (n_dec, n) if reused else ""),
                {"max_chunk": mc, "error": out, "reused_scorer": reused, "previous_n_thetas": n_dec if reused else None}, "scores",
                "scorer-reuse" if reused and n_dec != n else "raises")
            continue
        if sorted(int(k) for k in out.keys()) != sorted(int(k) for k in use.keys()):
            bad("scorer does not return a score for exactly the given plate ids", {"max_chunk": mc, "keys": [int(k) for k in out.keys()]}, [int(k) for k in use.keys()], "scorer")
            continue
        if list(out.keys()) != list(use.keys()):
            info["key_order_differs"] = True        # the iteration order of the returned dict is not part of the property
        got = [float(out[i]) for i in ids]
        if not all_close(got, ref1):
            bad("scorer result for a plate differs from the direct estimator of that plate"
                + (" (scorer object previously used on another plate set)" if reused else "")
                + (" (plates given in the opposite order)" if use is not plates else ""),
                {"max_chunk": mc, "scores": got, "reused_scorer": reused, "previous_n_thetas": n_dec if reused else None,
                 "reversed_order": use is not plates}, ref1, "scorer-reuse" if reused and n_dec != n else "scorer")
        elif reused and n_dec != n:
            # ... and equals what a FRESH scorer object of the same configuration returns
            fresh, _ = call(gd.GaussianDBALScorer(max_chunk=mc, max_triples=budget).score, plates=use, distance_matrix=StubDM(D),
                            samples=StubThetas(n), progress_bar=False)
            if isinstance(fresh, str) or not all_close([float(fresh[i]) for i in ids], got):
                bad("a scorer object used before with another number of posterior samples scores differently from a fresh one",
                    {"max_chunk": mc, "reused": got, "fresh": fresh if isinstance(fresh, str) else [float(fresh[i]) for i in ids],
                     "previous_n_thetas": n_dec}, "equal", "scorer-reuse")
        if reused and n_dec != n:
            info["reuse_other_n"] = info.get("reuse_other_n", 0) + 1
        if want_tie and ci == 0 and tss:
            line = "dbal.scorer %d %d %s %s %s %s %s" % (n, mc, enc_mat(Dl), "/".join(enc_triples(t) for t in tss),
                                                        ",".join(str(i) for i in ids), enc_3d(means0), enc_3d(variances0))
            tie.append(("scorer", line, got))
    check_untouched("scorer")

    # ---- metamorphic runs on the implementation -------------------------------------------------
    def het_of(ms, vs, d=D):
        o, _ = call(gd.dbal_fast_gaussian_scoring_heteroscedastic, per_plate_predictions=ms, variances=vs,
                    distance_matrix=d, max_combos=c["max_combos"], distance_factor=factor)
        return o if isinstance(o, str) else [float(x) for x in o]

    # rescore alone
    for k in (range(P) if P <= 3 else r.sample(range(P), 3)):
        o = het_of([means[k]], [variances[k]])
        if isinstance(o, str) or not close(o[0], het[k]):
            bad("score of a plate changes when it is scored alone", {"plate": k, "alone": o, "in_group": het[k]}, "equal", "alone")
            break
    # a different subset / order of plates
    if P >= 2:
        sub = r.sample(range(P), r.randint(1, P))
        o = het_of([means[k] for k in sub], [variances[k] for k in sub])
        if isinstance(o, str) or not all_close(o, [het[k] for k in sub]):
            bad("scores change with the set/order of plates scored alongside", {"subset": sub, "scores": o}, [het[k] for k in sub], "regroup")
    # reorder experiments inside every plate
    perms = [np.array(r.sample(range(L), L)) for L in c["sizes"]]
    o = het_of([m[:, p] for m, p in zip(means, perms)], [v[:, p] for v, p in zip(variances, perms)])
    if isinstance(o, str) or not all_close(o, het):
        bad("scores change with the order of experiments within a plate", o, het, "reorder")
    # relabel the posterior samples
    sig = np.array(r.sample(range(n), n))
    o = het_of([m[sig, :] for m in means], [v[sig, :] for v in variances], D[np.ix_(sig, sig)])
    if isinstance(o, str) or not all_close(o, het):
        bad("scores change under a consistent relabelling of the posterior samples", {"sigma": sig.tolist(), "scores": o}, het, "relabel")
    check_untouched("metamorphic runs")
    return fails, tie, info


class RecArr(np.ndarray):
    """distance matrix that records the integer index arrays it is gathered with (the triples a kernel invocation really uses)"""

    def __new__(cls, arr, log):
        obj = np.asarray(arr).view(cls)
        obj.log = log
        return obj

    def __array_finalize__(self, obj):
        self.log = getattr(obj, "log", None)

    def __getitem__(self, key):
        if self.log is not None and isinstance(key, tuple) and len(key) == 2 and all(isinstance(x, np.ndarray) and x.dtype.kind in "iu" for x in key):
            self.log.append((np.array(key[0], dtype=np.int64), np.array(key[1], dtype=np.int64)))
        return np.asarray(super().__getitem__(key))


def used_triples(log):
    """per kernel invocation (three gathers (idx1,idx2), (idx2,idx3), (idx1,idx3) each) the list of triples; None if unobservable"""
    if not log or len(log) % 3:
        return None
    out = []
    for s_ in range(0, len(log), 3):
        (a1, b1), (a2, b2), (a3, b3) = log[s_:s_ + 3]
        if not (np.array_equal(a1, a3) and np.array_equal(b1, a2) and np.array_equal(b2, b3)):
            return None
        out.append([(int(i), int(j), int(l)) for i, j, l in zip(a1, b1, b2)])
    return out


def bigtheta_case(subseed, n, want_tie=True):
    """n_thetas in {34, 36, 40}: C(n,3) = 5984, 7140, 9880 lies ABOVE the default budget 5000 of every entry point, so a budget
    argument that is dropped somewhere on the way to the kernel (and silently replaced by the default) shows.  Tiny plates.
    Exhaustive budgets C, C+1, 20000 for every entry point: equals the direct estimator over all triples, entry points agree,
    independent of the seed.  Sub-sampling budgets 50, 777, 6000: the number of triples really gathered is min(C, budget)."""
    from batchie.scoring import gaussian_dbal as gd
    r = random.Random(subseed)
    g = np.random.default_rng(r.randrange(2 ** 63))
    C = math.comb(n, 3)
    P = r.choice([1, 2, 3])
    sizes = [r.choice([1, 1, 2, 3]) for _ in range(P)]
    U = np.triu(g.uniform(0.0, 2.0, size=(n, n)) * (g.uniform(size=(n, n)) > r.choice([0.0, 0.3])), 1)
    D = U + U.T
    hv = 10.0 ** g.uniform(-1, 1, size=(P, n))                      # homoscedastic: one variance per (plate, theta)
    means = [g.normal(size=(n, L)) * r.choice([0.3, 1.0]) for L in sizes]
    variances = [hv[k][:, None] * np.ones((n, L)) for k, L in enumerate(sizes)]
    all_triples = [(a, b, cc) for a in range(n) for b in range(a) for cc in range(b)]
    Dl = D.tolist()
    ref = [ref_score(ref_logweights(Dl, 1.0, m.tolist(), v.tolist(), all_triples)) for m, v in zip(means, variances)]
    fails, tie = [], []
    info = dict(n=n, sizes=sizes, C=C)
    W = max(sizes)
    pm, pv = pad_dense(means, W, 0.0), pad_dense(variances, W, np.nan)
    ids = r.sample(range(100), P)
    plates = {i: StubPlate(m, v) for i, m, v in zip(ids, means, variances)}

    def entry(name, budget, seed, dm):
        rng = np.random.default_rng(seed)
        if name == "heteroscedastic":
            return gd.dbal_fast_gaussian_scoring_heteroscedastic(per_plate_predictions=means, variances=variances, distance_matrix=dm, rng=rng, max_combos=budget)
        if name == "homoscedastic":
            return gd.dbal_fast_gaussian_scoring_homoscedastic(per_plate_predictions=means, variances=hv, distance_matrix=dm, rng=rng, max_combos=budget)
        if name == "vectorised":
            return gd.dbal_fast_gauss_scoring_vectorized(predictions=pm, variances=pv, distance_matrix=dm, rng=rng, max_combos=budget)
        mc = int(name.split(":")[1])
        out = gd.GaussianDBALScorer(max_chunk=mc, max_triples=budget).score(plates=plates, distance_matrix=StubDM(dm), samples=StubThetas(n), rng=rng, progress_bar=False)
        return [out[i] for i in ids]

    names = ["heteroscedastic", "homoscedastic", "vectorised", "scorer:50", "scorer:%d" % r.choice([1, 2])]
    for name in names:
        # ---- exhaustive budgets (all of them above the default 5000) -------------------------------------------------
        for budget in (C, C + 1, 20000):
            log = []
            try:
                got = [float(x) for x in entry(name, budget, r.randrange(2 ** 32), RecArr(D, log))]
            except Exception as e:  # noqa
                fails.append(("%s entry point raises on valid input" % name, {"entry": name, "max_combos": budget, "error": type(e).__name__ + ": " + str(e)[:200]}, "scores", rsig(e)))
                continue
            ts = used_triples(log)
            n_used = sorted(set(len(t) for t in ts)) if ts else None
            if not all_close(got, ref):
                fails.append(("%s score with a budget covering all C(%d,3) = %d triples (above the default 5000) differs from the direct estimator over all triples"
                              % (name, n, C), {"entry": name, "max_combos": budget, "scores": got, "triples_used_per_kernel_call": n_used}, ref, "budget"))
                break
            if ts is not None and any(len(set(t)) != C or len(t) != C for t in ts):
                fails.append(("%s does not enumerate every triple although the budget covers them" % name,
                              {"entry": name, "max_combos": budget, "triples_used_per_kernel_call": n_used}, {"triples": C}, "tie:budget-gathers"))
                break
        # ---- independent of the seed when everything is enumerated -------------------------------------------------------
        try:
            a = [float(x) for x in entry(name, 20000, 1, D)]
            b = [float(x) for x in entry(name, 20000, 2, D)]
            if not all_close(a, b):
                fails.append(("%s score depends on the seed although the budget covers all triples" % name, {"entry": name, "seed1": a, "seed2": b}, "equal", "budget"))
        except Exception:  # noqa
            pass
        # ---- sub-sampling budgets just below / above / far from the default 5000: the number of triples really gathered.  The property
        #      speaks about the exhaustive regime only, so this is compared as a TIE (min(C, budget) is what the call-site model of
        #      C15 prints), never a concrete replay.
        for budget in (50, 777, 4999, 5001, 6000):
            log = []
            try:
                entry(name, budget, r.randrange(2 ** 32), RecArr(D, log))
            except Exception as e:  # noqa
                fails.append(("%s entry point raises on valid input" % name, {"entry": name, "max_combos": budget, "error": type(e).__name__ + ": " + str(e)[:200]}, "scores", rsig(e)))
                continue
            ts = used_triples(log)
            if ts is None:
                info["unobserved"] = info.get("unobserved", 0) + 1
                continue
            want = min(C, budget)
            for t in ts:
                if len(t) != want or len(set(t)) != len(t) or any(not (n > i > j > l >= 0) for (i, j, l) in t):
                    fails.append(("%s uses another number of triples than min(C(n,3), budget), or repeated / out-of-range ones" % name,
                                  {"entry": name, "max_combos": budget, "n_triples": len(t), "distinct": len(set(t))}, {"n_triples": want}, "tie:budget-count"))
                    break
    if want_tie and not fails:
        rng = RecRng(r.randrange(2 ** 32))
        het = gd.dbal_fast_gaussian_scoring_heteroscedastic(per_plate_predictions=means, variances=variances, distance_matrix=D, rng=rng, max_combos=C)
        ts = triples_of(gd, rng.calls, n)
        if len(ts) == 1:
            tie.append(("het", "dbal.het %d %s %s %s %s" % (f2b(1.0), enc_mat(Dl), enc_triples(ts[0]), enc_3d(means), enc_3d(variances)), [float(x) for x in het]))
    return fails, tie, info


@__import__("contextlib").contextmanager
def common_quiet():
    """leave a surrounding verbose_logging() for the duration of the block (the quiet twin of a verbose case in `replay`)"""
    import logging
    lg = logging.getLogger("batchie")
    st = (lg.level, list(lg.handlers), lg.propagate, logging.root.manager.disable)
    lg.handlers = []
    lg.setLevel(logging.WARNING)
    logging.disable(logging.CRITICAL)
    try:
        yield
    finally:
        lg.handlers, lg.propagate = st[1], st[2]
        lg.setLevel(st[0])
        logging.disable(st[3])


def maybe_verbose(flag):
    """HARDENING item 19: the `batchie` logger at DEBUG with a formatting sink (what -v/--verbose sets) around a slice of every stream"""
    import contextlib
    return common.verbose_logging() if flag else contextlib.nullcontext()


def cli_case(case):
    """HARDENING item 18: the scorer through the real `batchie.cli.calculate_scores.main()` (argv, real h5 files; thetas and the distance
    matrix split over two files, distance entries in shuffled order) with its options given as `--scorer-param k=v`.
    Concrete oracle (the property's text): every score in the file the CLI wrote equals the direct estimator of that plate over ALL
    triples (the budget given on the command line covers C(n,3); with n_thetas = 34/36 it lies above the default 5000, so an option lost in
    the glue shows in the score).  What the scorer / kernel RECEIVE (max_triples, max_chunk, max_combos, the generator, the dense
    distance matrix, the set of plates) is compared as a tie (`tie:` signature)."""
    from harness import dbal_cli as dc
    n, budget, mc = case["n"], case["budget"], case["max_chunk"]
    fails = []
    rec = dc.run_cli(case["subseed"], n, budget, mc, case["seed"], verbose=case.get("verbose", False), split_files=case.get("split", True),
                     n_chunks=case.get("n_chunks", 1), chunk_index=case.get("chunk_index", 0))
    for f_ in rec.get("faults", []):
        fails.append(("the harness's recorder could not cope with a call", f_, "recorded", "tie:wrapper"))
    if "error" in rec:
        fails.append(("calculate_scores.main() raises on valid input", rec["error"], "a scores file", "tie:wrapper" if rec.get("error_in_harness") else "cli-raises"))
        return fails, {}
    D = rec["D"]
    all_triples = [(a, b, cc) for a in range(n) for b in range(a) for cc in range(b)]
    Dl = D.tolist()
    valid_ids = set(int(p.plate_id) for p in rec["screen"].plates)
    scores = rec["scores"]
    for pid in sorted(scores):
        if pid not in valid_ids:
            continue
        m, v = dc.plate_tables(rec["screen"], rec["holder"], pid)
        want = ref_score(ref_logweights(Dl, 1.0, m, v, all_triples))
        if not close(scores[pid], want):
            used = sorted(set(len(dc.triples_from_logs(k["logs"][2], k["logs"][0], k["logs"][1]) or []) for c_ in rec["score_calls"] for k in c_["kernel"]))
            fails.append(("score written by calculate_scores.main() (--scorer-param max_triples=%d >= C(%d,3) = %d) differs from the direct estimator "
                          "of that plate over all triples" % (budget, n, math.comb(n, 3)),
                          {"plate_id": pid, "score": scores[pid], "triples_used_per_kernel_call": used,
                           "scorer_received": rec["init"][-1:] and {k_: rec["init"][-1][k_] for k_ in ("max_chunk", "max_triples")}}, want, "cli-score"))
            break
    # ---- what the core received: ties --------------------------------------------------------------------------------------------
    got = {"init": [{k_: i[k_] for k_ in ("max_chunk", "max_triples", "types")} for i in rec["init"]],
           "attrs": [c_["attrs"] for c_ in rec["score_calls"]],
           "kernel_max_combos": sorted(set(str(k["max_combos"]) for c_ in rec["score_calls"] for k in c_["kernel"])),
           "kernel_same_rng": all(k["same_rng"] for c_ in rec["score_calls"] for k in c_["kernel"]),
           "rng_is_generator": all(c_["rng_is_generator"] for c_ in rec["score_calls"]),
           "n_thetas": sorted(set(c_["n_thetas"] for c_ in rec["score_calls"])),
           "dense_equal": all(c_["dense"].shape == D.shape and np.array_equal(c_["dense"], D) for c_ in rec["score_calls"]),
           "plates_scored": sorted(scores), "kernel_calls": [len(c_["kernel"]) for c_ in rec["score_calls"]]}
    want = {"init": [{"max_chunk": mc, "max_triples": budget, "types": ["int", "int"]}], "attrs": [{"max_chunk": mc, "max_triples": budget}],
            "kernel_max_combos": [str(budget)], "kernel_same_rng": True, "rng_is_generator": True, "n_thetas": [n], "dense_equal": True,
            "plates_scored": sorted(rec["chunk_plate_ids"]), "kernel_calls": [int(math.ceil(len(rec["chunk_plate_ids"]) / mc))]}
    if not rec["chunk_plate_ids"]:
        for k_ in ("attrs", "kernel_max_combos", "n_thetas", "kernel_calls"):
            want[k_] = got[k_]
    if got != want:
        diff = {k_: (got[k_], want[k_]) for k_ in want if got[k_] != want[k_]}
        fails.append(("what the scorer / kernel receive from calculate_scores.main() differs from the command line", {k_: v_[0] for k_, v_ in diff.items()},
                      {k_: v_[1] for k_, v_ in diff.items()}, "tie:cli-received"))
    return fails, {"scores": scores}


def ref_logweights_cond(D, factor, m, v, triples):
    """like ref_logweights (the documented estimator, from DIFFERENCES of the means), and with every log-weight the sum S of the absolute
    values of its summands: a rounding error of u per operation perturbs the log-weight by O(u * S) -- S is the condition of the sum."""
    L = len(m[0])
    out = []
    for (i, j, l) in triples:
        d = D[i][j] + D[j][l] + D[i][l]
        if d == 0:
            continue
        lw = factor * math.log(d)
        S = abs(lw)
        for e in range(L):
            m1, m2, m3 = m[i][e], m[j][e], m[l][e]
            v1, v2, v3 = v[i][e], v[j][e], v[l][e]
            a = v1 * v2 + v2 * v3 + v1 * v3
            q = v3 * (m1 - m2) ** 2 + v2 * (m1 - m3) ** 2 + v1 * (m2 - m3) ** 2
            t1, t2 = -0.5 * math.log(a), -(v1 * v2 * v3) / (2.0 * a * a) * q
            lw += t1 + t2
            S += abs(t1) + abs(t2)
        out.append((lw, S))
    return out


EPS = 2.0 ** -52


def offset_case(case):
    """HARDENING item 22, class `offset-means`: predicted means with a large common offset (1e3, 1e5, 1e7, -1e6, or another offset per
    experiment) and a spread of O(1).  The documented estimator depends on the means only through their DIFFERENCES, which are exact in
    floating point here, so the direct loop estimator is accurate to a few units in the last place of its summands.  Tolerance, derived from the
    condition of the sum and not from the size of the means: log-sum-exp is 1-Lipschitz in the sup norm of the log-weights, each log-weight
    is a sum whose summands have absolute values adding up to S, so any evaluation that makes O(1) rounding errors per operation --
    every legitimate re-association / re-ordering -- lands within K * 2^-52 * (max S + |score|), K = 512 covering the number of operations
    per summand and the summation order.  A rewrite `m_i^2 + m_j^2 - 2 m_i m_j` is algebraically equal (Lean: C05_expanded_square_invisible)
    but its error is 2^-52 * m^2 instead of 2^-52 * (m_i - m_j)^2: at an offset of 1e7 that is 1e-3 relative, ten orders above this bound."""
    from batchie.scoring import gaussian_dbal as gd
    r = random.Random(case["subseed"])
    g = np.random.default_rng(r.randrange(2 ** 63))
    n = r.choice([3, 4, 5])
    C = math.comb(n, 3)
    P = r.choice([1, 2, 3])
    sizes = [r.choice([1, 2, 3]) for _ in range(P)]
    spread = r.choice([0.5, 1.0, 3.0])
    homo = r.random() < 0.5
    kind = case["offset"]
    means, variances = [], []
    for L in sizes:
        if kind == "per-experiment":
            off = np.array([r.choice([1e3, -1e5, 1e7, -1e6, 3e6]) for _ in range(L)])[None, :]
        else:
            off = float(kind)
        means.append(off + g.normal(size=(n, L)) * spread)
        variances.append((10.0 ** g.uniform(-1, 1, size=(n, 1))) * np.ones((n, L)) if homo else 10.0 ** g.uniform(-1, 1, size=(n, L)))
    U = np.triu(g.uniform(0.1, 2.0, size=(n, n)), 1)
    D = U + U.T
    all_triples = [(a, b, cc) for a in range(n) for b in range(a) for cc in range(b)]
    fails = []
    refs, tols = [], []
    for m, v in zip(means, variances):
        lws = ref_logweights_cond(D.tolist(), 1.0, m.tolist(), v.tolist(), all_triples)
        sc = ref_score([x[0] for x in lws])
        refs.append(sc)
        tols.append(512.0 * EPS * (max(x[1] for x in lws) + abs(sc)))
    got = {}
    try:
        got["heteroscedastic"] = gd.dbal_fast_gaussian_scoring_heteroscedastic(means, variances, D, np.random.default_rng(1), max_combos=C)
        W = max(sizes) + r.choice([0, 2])
        got["vectorised"] = gd.dbal_fast_gauss_scoring_vectorized(pad_dense(means, W, 0.0), pad_dense(variances, W, np.nan), D, np.random.default_rng(2), max_combos=C)
        if homo:
            got["homoscedastic"] = gd.dbal_fast_gaussian_scoring_homoscedastic(means, np.array([v[:, 0] for v in variances]), D, np.random.default_rng(3), max_combos=C)
        ids = list(range(10, 10 + P))
        o = gd.GaussianDBALScorer(max_chunk=r.choice([1, 50]), max_triples=C).score(
            plates={i: StubPlate(m, v) for i, m, v in zip(ids, means, variances)}, distance_matrix=StubDM(D), samples=StubThetas(n),
            rng=np.random.default_rng(4), progress_bar=False)
        got["scorer"] = [o[i] for i in ids]
    except Exception as e:  # noqa
        fails.append(("an entry point raises on valid input", {"class": "offset-means", "error": type(e).__name__ + ": " + str(e)[:200]}, "scores", rsig(e)))
        return fails
    for name, vals in got.items():
        vals = [float(x) for x in vals]
        for k_, (x, want, tol) in enumerate(zip(vals, refs, tols)):
            if not (abs(x - want) <= tol):
                fails.append(("%s score differs from the direct estimator (computed from the differences of the means) by more than rounding allows "
                              "when the predicted means share a large offset" % name,
                              {"class": "offset-means", "offset": kind, "spread": spread, "entry": name, "plate": k_, "score": x, "abs_error": abs(x - want),
                               "relative_error": abs(x - want) / max(abs(want), 1e-300)},
                              {"score": want, "tolerance(512 ulp of the sum's condition)": tol}, "offset-means"))
                return fails
    return fails


def classes_case(subseed):
    """hardening classes 10-13 (HARDENING_CHECKLIST.md), one small scenario each; returns (fails, counts)"""
    from batchie.scoring import gaussian_dbal as gd
    r = random.Random(subseed)
    fails, counts = [], {}

    def ref_of(D, ms, vs, n):
        at = [(a, b, cc) for a in range(n) for b in range(a) for cc in range(b)]
        return [ref_score(ref_logweights(D, 1.0, m, v, at)) for m, v in zip(ms, vs)]

    def lists(g, n, sizes):
        U = np.triu(g.uniform(0.1, 2.0, size=(n, n)), 1)
        return (U + U.T).tolist(), [(g.normal(size=(n, L)) * 2.0).tolist() for L in sizes], [(10.0 ** g.uniform(-1, 1, size=(n, L))).tolist() for L in sizes]

    # ---- 10. identity-keyed caches: every argument is a TEMPORARY of the same shape as in the previous round; only results are kept ----
    n, sizes = 4, [2, 3]
    C = math.comb(n, 3)
    shared = gd.GaussianDBALScorer(max_chunk=r.choice([1, 50]), max_triples=C)
    for rnd in range(8):
        D, ms, vs = lists(np.random.default_rng(r.randrange(2 ** 32)), n, sizes)
        ref = ref_of(D, ms, vs, n)
        got = {}
        try:
            got["heteroscedastic"] = [float(x) for x in gd.dbal_fast_gaussian_scoring_heteroscedastic(
                [np.array(m) for m in ms], [np.array(v) for v in vs], np.array(D), np.random.default_rng(rnd), max_combos=C)]
            got["vectorised"] = [float(x) for x in gd.dbal_fast_gauss_scoring_vectorized(
                pad_dense([np.array(m) for m in ms], 3, 0.0), pad_dense([np.array(v) for v in vs], 3, np.nan), np.array(D), np.random.default_rng(rnd), max_combos=C)]
            for nm, sc in (("scorer(shared object)", shared), ("scorer(temporary object)", None)):
                o = (sc or gd.GaussianDBALScorer(max_chunk=50, max_triples=C)).score(
                    plates={i: StubPlate(np.array(m), np.array(v)) for i, (m, v) in enumerate(zip(ms, vs))},
                    distance_matrix=StubDM(np.array(D)), samples=StubThetas(n), rng=np.random.default_rng(rnd), progress_bar=False)
                got[nm] = [float(o[i]) for i in range(len(ms))]
        except Exception as e:  # noqa
            fails.append(("an entry point raises on valid temporaries", {"class": "identity-temporaries", "round": rnd, "error": type(e).__name__ + ": " + str(e)[:200]}, "scores", rsig(e)))
            break
        badk = [k for k, v_ in got.items() if not all_close(v_, ref)]
        if badk:
            fails.append(("scores of freshly built (temporary) arrays of the same shape as an earlier call differ from the direct estimator",
                          {"class": "identity-temporaries", "round": rnd, "entry": badk[0], "scores": got[badk[0]]}, ref, "identity-temporaries"))
            break
        counts["class.identity-temporaries"] = counts.get("class.identity-temporaries", 0) + 1

    # ---- 11. one scorer object, the same plates, ANOTHER generator ----------------------------------------------------------------
    n = r.choice([4, 5, 6])
    sizes = [r.choice([1, 2, 3]) for _ in range(3)]
    C = math.comb(n, 3)
    D, ms, vs = lists(np.random.default_rng(r.randrange(2 ** 32)), n, sizes)
    ref = ref_of(D, ms, vs, n)
    plates = {7 * i + 1: StubPlate(np.array(m), np.array(v)) for i, (m, v) in enumerate(zip(ms, vs))}
    ids = list(plates.keys())
    for budget in (C, 5000):
        sc = gd.GaussianDBALScorer(max_chunk=2, max_triples=budget)
        s1, s2 = r.randrange(2 ** 32), r.randrange(2 ** 32)
        try:
            sc.score(plates=plates, distance_matrix=StubDM(np.array(D)), samples=StubThetas(n), rng=RecRng(s1), progress_bar=False)
            rb = RecRng(s2)
            o2 = sc.score(plates=plates, distance_matrix=StubDM(np.array(D)), samples=StubThetas(n), rng=rb, progress_bar=False)
            rf = RecRng(s2)
            of = gd.GaussianDBALScorer(max_chunk=2, max_triples=budget).score(plates=plates, distance_matrix=StubDM(np.array(D)), samples=StubThetas(n), rng=rf, progress_bar=False)
        except Exception as e:  # noqa
            fails.append(("scorer raises on valid input", {"class": "reuse-other-seed", "error": type(e).__name__ + ": " + str(e)[:200]}, "scores", rsig(e)))
            break
        g2 = [float(o2[i]) for i in ids]
        if not all_close(g2, ref) or not all_close([float(of[i]) for i in ids], g2):
            fails.append(("second call of one scorer object with another generator: scores differ from the direct estimator / from a fresh scorer",
                          {"class": "reuse-other-seed", "max_triples": budget, "second": g2, "fresh": [float(of[i]) for i in ids]}, ref, "reuse-other-seed"))
            break
        if rb.calls != rf.calls or rb.g.bit_generator.state != rf.g.bit_generator.state:
            # draw trace / final generator state: C18's subject, here a tie-level observation only
            fails.append(("second call with another generator does not draw like a fresh scorer", {"class": "reuse-other-seed", "n_draws": len(rb.calls)},
                          {"n_draws": len(rf.calls)}, "tie:reuse-other-seed-trace"))
        counts["class.reuse-other-seed"] = counts.get("class.reuse-other-seed", 0) + 1

    # ---- 12. instalments: the plates scored in several score() calls of one object vs in one call -------------------------------------
    n = r.choice([3, 4, 5])
    sizes = [r.choice([1, 2, 3, 5]) for _ in range(r.choice([3, 4, 6]))]
    C = math.comb(n, 3)
    D, ms, vs = lists(np.random.default_rng(r.randrange(2 ** 32)), n, sizes)
    ref = ref_of(D, ms, vs, n)
    plates = {3 * i + 2: StubPlate(np.array(m), np.array(v)) for i, (m, v) in enumerate(zip(ms, vs))}
    ids = list(plates.keys())
    cut = sorted(r.sample(range(1, len(ids)), min(2, len(ids) - 1)))
    parts = [ids[a:b] for a, b in zip([0] + cut, cut + [len(ids)])]
    try:
        sc = gd.GaussianDBALScorer(max_chunk=r.choice([1, 2, 50]), max_triples=C)
        acc = {}
        for part in parts:
            o = sc.score(plates={i: plates[i] for i in part}, distance_matrix=StubDM(np.array(D)), samples=StubThetas(n), rng=np.random.default_rng(len(acc)), progress_bar=False)
            if sorted(int(k) for k in o.keys()) != sorted(part):
                fails.append(("an instalment does not return scores for exactly the plates it was given", {"class": "instalments", "given": part, "returned": [int(k) for k in o.keys()]}, part, "instalments"))
                break
            acc.update({int(k): float(v_) for k, v_ in o.items()})
        else:
            one_sc = gd.GaussianDBALScorer(max_chunk=sc.max_chunk, max_triples=C)
            one = one_sc.score(plates=plates, distance_matrix=StubDM(np.array(D)), samples=StubThetas(n), rng=np.random.default_rng(0), progress_bar=False)
            if not all_close([acc[i] for i in ids], ref) or not all_close([float(one[i]) for i in ids], ref):
                fails.append(("plates scored in instalments by one scorer object get other scores than in one call / than the direct estimator",
                              {"class": "instalments", "parts": parts, "instalments": [acc[i] for i in ids], "one_call": [float(one[i]) for i in ids]}, ref, "instalments"))
            scal = lambda o_: {k: v_ for k, v_ in vars(o_).items() if isinstance(v_, (int, float, str, bool, type(None)))}
            if sorted(vars(sc)) != sorted(vars(one_sc)) or scal(sc) != scal(one_sc):
                fails.append(("scorer attributes after instalments differ from those after one call", sorted(vars(sc)), sorted(vars(one_sc)), "tie:instalments-state"))
            counts["class.instalments"] = 1
    except Exception as e:  # noqa
        fails.append(("scorer raises on valid input", {"class": "instalments", "error": type(e).__name__ + ": " + str(e)[:200]}, "scores", rsig(e)))

    # ---- 13. integer-width boundaries: plate widths and plate counts 127 / 128 / 129 / 255 / 256 / 257 --------------------------------
    n = 3
    for w in (127, 128, 129, 255, 256, 257):
        g = np.random.default_rng(r.randrange(2 ** 32))
        for kind in ("width", "count"):
            sizes = [w, 1, r.choice([2, w])] if kind == "width" else [r.choice([1, 1, 2]) for _ in range(w)]
            D, ms, vs = lists(g, n, sizes)
            ref = ref_of(D, ms, vs, n)
            try:
                het = [float(x) for x in gd.dbal_fast_gaussian_scoring_heteroscedastic([np.array(m) for m in ms], [np.array(v) for v in vs], np.array(D), np.random.default_rng(1), max_combos=1)]
                mc = r.choice([1, 50, 127, 128, 255, 256, 257]) if kind == "count" else r.choice([1, 2, 50])
                o = gd.GaussianDBALScorer(max_chunk=mc, max_triples=1).score(
                    plates={i: StubPlate(np.array(m), np.array(v)) for i, (m, v) in enumerate(zip(ms, vs))},
                    distance_matrix=StubDM(np.array(D)), samples=StubThetas(n), rng=np.random.default_rng(2), progress_bar=False)
                sco = [float(o[i]) for i in range(len(ms))]
            except Exception as e:  # noqa
                fails.append(("an entry point raises on valid input", {"class": "width-boundaries", kind: w, "error": type(e).__name__ + ": " + str(e)[:200]}, "scores", rsig(e)))
                continue
            if not all_close(het, ref) or not all_close(sco, ref):
                k0 = next(i for i in range(len(ref)) if not (close(het[i], ref[i]) and close(sco[i], ref[i])))
                fails.append(("scores differ from the direct estimator at an integer-width boundary of the plate %s" % kind,
                              {"class": "width-boundaries", kind: w, "plate": k0, "heteroscedastic": het[k0], "scorer": sco[k0], "max_chunk": mc}, ref[k0], "width-boundaries"))
            counts["class.width-boundaries"] = counts.get("class.width-boundaries", 0) + 1
    return fails, counts


# ----------------------------------------------------------------------------------------------
def static_ties(ctx, res, lines, expect, meta):
    """array_split sizes and the ragged-to-dense copy, exact"""
    from batchie.scoring import gaussian_dbal as gd
    r = ctx.subrng("static")
    for ln in range(0, ctx.scale(30, 80)):
        for k in sorted(set([1, 2, 3, 4, 7, max(1, ln - 1), max(1, ln), ln + 1, ln + 3])):
            parts = np.array_split(list(range(ln)), float(k))
            if [int(x) for p in parts for x in p] != list(range(ln)):
                raise RuntimeError("numpy array_split does not partition in order?!")
            lines.append("dbal.split %d %d" % (ln, k))
            expect.append("-" if not parts else ",".join(str(len(p)) for p in parts))
            meta.append(("split", None))
            res.evaluations += 1
    for n in range(0, ctx.scale(9, 15)):
        C = n * (n - 1) * (n - 2) // 6 if n >= 3 else 0
        ts = [tuple(int(x) for x in gd.get_combination_at_sorted_index(i, n, 3)) for i in range(C)]
        if len(set(ts)) != C or any(not (n > a > b > c >= 0) for a, b, c in ts):
            res.count("tie_only.unranking_not_a_bijection(C15's subject)")      # compared with the model below; C15 owns the oracle
        lines.append("dbal.alltriples %d" % n)
        expect.append(enc_triples(ts))
        meta.append(("alltriples", None))
        res.evaluations += 1
    g = np.random.default_rng(r.randrange(2 ** 32))
    for t in range(ctx.scale(40, 400)):
        npl = r.randint(1, 5)
        same_rows = r.random() < 0.6
        h = r.randint(1, 5)
        arrs = [g.normal(size=(h if same_rows else r.randint(1, 5), r.randint(1, 6))) for _ in range(npl)]
        pad = r.choice([0.0, float("nan"), 7.5])
        case = {"kind": "pad", "shapes": [list(a.shape) for a in arrs], "pad": repr(pad)}
        try:
            dense = gd.pad_ragged_arrays_to_dense_array(arrs, pad_value=pad)
        except Exception as e:  # noqa
            # an internal helper on shapes/pad values the entry points never produce: compared with the model only
            lines.append("dbal.pad %d %s" % (f2b(pad), enc_3d([a.tolist() for a in arrs])))
            expect.append("err:" + type(e).__name__)
            meta.append(("pad", None))
            continue
        res.evaluations += 1
        ok = dense.shape == (npl, max(a.shape[0] for a in arrs), max(a.shape[1] for a in arrs))
        for i, a in enumerate(arrs):
            if not ok:
                break
            blk = dense[i]
            inside = blk[: a.shape[0], : a.shape[1]]
            ok = ok and np.array_equal(inside, a)
            outside = np.concatenate([blk[a.shape[0]:, :].ravel(), blk[: a.shape[0], a.shape[1]:].ravel()])
            ok = ok and (np.all(np.isnan(outside)) if math.isnan(pad) else np.all(outside == pad))
        if not ok:
            res.count("tie_only.pad_helper_misplaces_cells")          # the exact tie with the model below reports it
        lines.append("dbal.pad %d %s" % (f2b(pad), enc_3d([a.tolist() for a in arrs])))
        expect.append(enc_3d(dense.tolist()))
        meta.append(("pad", None))


def error_cases(res, lines, expect, meta):
    """invalid inputs (< 3 posterior samples, mismatching shapes): OUTSIDE the property's quantifier, so the error class is only compared
    with the model (a difference is a broken tie, never a concrete replay)"""
    from batchie.scoring import gaussian_dbal as gd
    g = np.random.default_rng(5)

    def run(fn, **k):
        try:
            fn(rng=np.random.default_rng(0), **k)
            return "ok"
        except Exception as e:  # noqa
            return "err:" + type(e).__name__

    one = f2b(1.0)
    for n in (1, 2):
        D = np.ones((n, n)) - np.eye(n)
        m = [g.normal(size=(n, 2)), g.normal(size=(n, 3))]
        v = [np.ones((n, 2)), np.ones((n, 3))]
        e = run(gd.dbal_fast_gaussian_scoring_heteroscedastic, per_plate_predictions=m, variances=v, distance_matrix=D)
        lines.append("dbal.het %d %s - %s %s" % (one, enc_mat(D.tolist()), enc_3d(m), enc_3d(v)))
        expect.append(e)
        meta.append(("err", None))
        e = run(gd.dbal_fast_gaussian_scoring_homoscedastic, per_plate_predictions=m, variances=np.ones((2, n)), distance_matrix=D)
        lines.append("dbal.hom %d %s - %s %s" % (one, enc_mat(D.tolist()), enc_3d(m), enc_mat(np.ones((2, n)).tolist())))
        expect.append(e)
        meta.append(("err", None))
    n = 4
    D = np.ones((n, n)) - np.eye(n)
    m = [g.normal(size=(n, 2)), g.normal(size=(n, 3))]
    v = [np.ones((n, 2)), np.ones((n, 2))]
    e = run(gd.dbal_fast_gaussian_scoring_heteroscedastic, per_plate_predictions=m, variances=v, distance_matrix=D)
    lines.append("dbal.het %d %s 3,2,1 %s %s" % (one, enc_mat(D.tolist()), enc_3d(m), enc_3d(v)))
    expect.append(e)
    meta.append(("err", None))
    e = run(gd.dbal_fast_gaussian_scoring_homoscedastic, per_plate_predictions=m, variances=np.ones((3, n)), distance_matrix=D)
    lines.append("dbal.hom %d %s 3,2,1 %s %s" % (one, enc_mat(D.tolist()), enc_3d(m), enc_mat(np.ones((3, n)).tolist())))
    expect.append(e)
    meta.append(("err", None))
    e = run(gd.dbal_fast_gauss_scoring_vectorized, predictions=np.zeros((2, n, 3)), variances=np.ones((2, n, 3)), distance_matrix=np.ones((n + 1, n + 1)))
    lines.append("dbal.vec %d %s 3,2,1 %s %s" % (one, enc_mat(np.ones((n + 1, n + 1)).tolist()), enc_3d(np.zeros((2, n, 3)).tolist()), enc_3d(np.ones((2, n, 3)).tolist())))
    expect.append(e)
    meta.append(("err", None))
    # no plates at all: the empty dict, without touching the distance matrix or the generator
    try:
        out = gd.GaussianDBALScorer(max_chunk=3).score(plates={}, distance_matrix=None, samples=None, rng=None, progress_bar=False)
        e = "-" if out == {} else "nonempty"
    except Exception as ex:  # noqa
        e = "err:" + type(ex).__name__
    res.count("outside_quantifier.empty_dict." + ("returns_empty" if e == "-" else "other"))
    res.count("error_cases(tie only: invalid inputs are outside the property's quantifier)", 7)


def real_objects_case(subseed):
    """the scorer driven through the repo's own object graph: Screen -> Plate views, ThetaHolder,
    predict_mean_all / predict_variance_all, ChunkedDistanceMatrix.to_dense"""
    from batchie.data import Screen
    from batchie.core import ThetaHolder, Theta
    from batchie.distance_calculation import ChunkedDistanceMatrix
    from batchie.models.main import predict_mean_all, predict_variance_all
    from batchie.scoring import gaussian_dbal as gd

    class TableTheta(Theta):
        def __init__(self, m, v):
            self.m, self.v = m, v

        def predict_conditional_mean(self, *args, **kwargs):
            return self.m[_first(args, kwargs).selection_vector]

        def predict_conditional_variance(self, *args, **kwargs):
            return self.v[_first(args, kwargs).selection_vector]

        def predict_viability(self, *args, **kwargs):
            return self.m[_first(args, kwargs).selection_vector]

        def private_parameters_dict(self):
            return {}

        def shared_parameters_dict(self):
            return {}

    r = random.Random(subseed)
    g = np.random.default_rng(r.randrange(2 ** 63))
    n = r.choice([3, 4, 5, 6])
    sizes = [r.choice([1, 2, 3, 5, 9]) for _ in range(r.choice([1, 2, 3, 4, 6]))]
    order = list(range(len(sizes)))
    r.shuffle(order)
    pn = []
    for i in order:
        pn += ["plate%02d" % i] * sizes[i]
    rows = list(range(len(pn)))
    r.shuffle(rows)           # plates interleaved in the screen
    pn = [pn[i] for i in rows]
    N = len(pn)
    screen = Screen(observations=np.zeros(N), observation_mask=np.zeros(N, dtype=bool),
                    sample_names=np.array([r.choice("abc") for _ in range(N)], dtype=str),
                    plate_names=np.array(pn, dtype=str),
                    treatment_names=np.array([[r.choice("xyz"), r.choice("uvw")] for _ in range(N)], dtype=str),
                    treatment_doses=np.array([[r.choice([1.0, 2.0]), r.choice([1.0, 3.0])] for _ in range(N)]))
    M = g.normal(size=(n, N)) * r.choice([0.1, 1.0, 3.0])
    V = 10.0 ** g.uniform(-3, 3, size=(n, N))
    th = ThetaHolder(n)
    for i in range(n):
        th.add_theta(TableTheta(M[i], V[i]))
    U = np.triu(g.uniform(0, 2, size=(n, n)) * (g.uniform(size=(n, n)) > r.choice([0.0, 0.4])), 1)
    D = U + U.T
    dm = ChunkedDistanceMatrix(n)
    for i in range(n):
        for j in range(i):
            dm.add_value(i, j, D[i, j])
    plates = {p.plate_id: p for p in screen.plates}
    ids = [int(k) for k in plates.keys()]
    all_triples = [(a, b, c) for a in range(n) for b in range(a) for c in range(b)]
    fails, tie = [], []
    means = [predict_mean_all(screen=plates[k], thetas=th) for k in ids]
    variances = [predict_variance_all(screen=plates[k], thetas=th) for k in ids]
    for k, m, v in zip(ids, means, variances):
        sel = plates[k].selection_vector
        if not (np.array_equal(m, M[:, sel]) and np.array_equal(v, V[:, sel])):
            fails.append(("predict_*_all does not return the (n_thetas, n_experiments) table of the plate", {"plate": k}, "rows of the table", "tie:predict"))
    ref = [ref_score(ref_logweights(D.tolist(), 1.0, M[:, plates[k].selection_vector].tolist(), V[:, plates[k].selection_vector].tolist(), all_triples)) for k in ids]
    P = len(ids)
    for mc in sorted(set([1, 2, P, 50])):
        rng = RecRng(r.randrange(2 ** 32))
        try:
            out = gd.GaussianDBALScorer(max_chunk=mc).score(plates=plates, distance_matrix=dm, samples=th, rng=rng, progress_bar=False)
        except Exception as e:  # noqa
            fails.append(("scorer raises on a real screen", {"max_chunk": mc, "error": type(e).__name__ + ": " + str(e)[:200]}, "scores", rsig(e)))
            continue
        got = [float(out[k]) for k in ids] if [int(k) for k in out.keys()] == ids else None
        if got is None or not all_close(got, ref):
            fails.append(("scorer result on real plates differs from the direct estimator of each plate",
                          {"max_chunk": mc, "ids": ids, "scores": got if got is not None else [int(k) for k in out.keys()]}, ref, "scorer"))
        elif mc == 2:
            tss = triples_of(gd, rng.calls, n)
            tie.append(("scorer", "dbal.scorer %d %d %s %s %s %s %s" % (n, mc, enc_mat(D.tolist()), "/".join(enc_triples(t) for t in tss),
                                                                      ",".join(str(i) for i in ids), enc_3d(means), enc_3d(variances)), got))
    return fails, tie, dict(n=n, sizes=[int(plates[k].size) for k in ids])


def emit(res, what, case, observed, required, sig, replaying=False):
    """`tie:` signatures are observations the property text does not state (or inputs outside its quantifier): they are reported as a
    broken tie (ends in `no-failing-input-found`), never as a concrete replay"""
    if sig.startswith("tie:"):
        if sig == "tie:wrapper" and not replaying:
            res.count("wrapper.unexpected-call")
        if not replaying:
            res.disagree("C05:" + sig[4:], case, observed, required)
        return
    res.fail(what, case, observed, required, signature="C05:" + sig)


def run(ctx, res):
    res.rule = RULE
    drv = ctx.driver
    lines, expect, meta = [], [], []
    static_ties(ctx, res, lines, expect, meta)
    error_cases(res, lines, expect, meta)

    # the hardening classes run FIRST: their scenarios are self-contained loops, so a failure that depends on the allocator's reuse of
    # addresses (identity-keyed memo) is reported with a case that reproduces on its own
    cseeds = ctx.subrng("classes")
    for rep in range(ctx.scale(1, 10, 5)):
        case = {"kind": "classes", "subseed": cseeds.randrange(2 ** 48)}
        fails, counts = classes_case(case["subseed"])
        res.evaluations += 1
        for k_, v_ in counts.items():
            res.count(k_, v_)
        res.nontrivial.add(("classes", case["subseed"]))
        for (what, observed, required, sig) in fails:
            emit(res, what, case, observed, required, sig)
        if rep == 0:
            vcase = dict(case, verbose=True)
            with maybe_verbose(True):
                vfails, _c = classes_case(case["subseed"])
            res.count("class.verbose-logging")
            res.count("class.verbose-logging.classes")
            for (what, observed, required, sig) in vfails:
                emit(res, what + " [verbose logging]", vcase, observed, required, sig)

    # ---- item 22: means with a large common offset -------------------------------------------------------------------------------------
    oseeds = ctx.subrng("offset")
    for oi, kind in enumerate(["1000.0", "100000.0", "10000000.0", "-1000000.0", "per-experiment", "per-experiment", "10000000.0", "100000.0",
                               "-1000000.0", "per-experiment", "1000.0", "10000000.0"] * ctx.scale(1, 5, 3)):
        case = {"kind": "offset", "subseed": oseeds.randrange(2 ** 48), "offset": kind}
        fails = offset_case(case)
        res.evaluations += 1
        res.count("class.offset-means")
        res.count("class.offset-means." + kind)
        res.nontrivial.add(("offset", kind, case["subseed"]))
        for (what, observed, required, sig) in fails:
            emit(res, what, case, observed, required, sig)

    # ---- item 18: the real entry point; item 19: some of them under --verbose, compared with the quiet run of the same input -------------
    kseeds = ctx.subrng("cli")
    C34 = math.comb(34, 3)
    cli_cfg = [(4, 4, 2, 0), (5, 5000, 50, 7), (6, 20, 1, 0), (3, 1, 3, 11), (34, C34, 50, 5), (36, 20000, 2, 0), (34, C34 + 1, 1, 3), (8, 56, 3, 0)]
    for _ in range(ctx.scale(0, 12, 6)):
        nn = kseeds.choice([3, 4, 5, 6, 7, 9])
        cli_cfg.append((nn, kseeds.choice([math.comb(nn, 3), math.comb(nn, 3) + 1, 5000, 5001]), kseeds.choice([1, 2, 3, 50]), kseeds.choice([0, 1, 12345])))
    for ci_, (nn, bud, mc_, sd_) in enumerate(cli_cfg):
        case = {"kind": "cli", "subseed": kseeds.randrange(2 ** 48), "n": nn, "budget": bud, "max_chunk": mc_, "seed": sd_, "split": ci_ % 3 != 1,
                "n_chunks": 2 if ci_ % 4 == 3 else 1, "chunk_index": 1 if ci_ % 8 == 3 else 0, "verbose": False}
        fails, out = cli_case(case)
        res.evaluations += 1
        res.count("class.entry-point.calculate_scores")
        res.nontrivial.add(("cli", nn, bud, mc_))
        for (what, observed, required, sig) in fails:
            emit(res, what, case, observed, required, sig)
        if ci_ % 3 == 0 or nn >= 34:
            vcase = dict(case, verbose=True)
            vfails, vout = cli_case(vcase)
            res.evaluations += 1
            res.count("class.verbose-logging")
            res.count("class.verbose-logging.cli")
            for (what, observed, required, sig) in vfails:
                emit(res, what + " [--verbose]", vcase, observed, required, sig)
            if not vfails and not fails and repr(sorted(vout["scores"].items())) != repr(sorted(out["scores"].items())):
                emit(res, "calculate_scores.main() writes other scores under --verbose than without", vcase, sorted(vout["scores"].items()),
                     sorted(out["scores"].items()), "verbose")

    n_cases = ctx.scale(400, 3000, 2000)
    big = ctx.tier == "thorough" or ctx.mode == "search"
    seeds = ctx.subrng("cases")
    tie_rows = []
    for t in range(n_cases):
        case = {"kind": "plateset", "subseed": seeds.randrange(2 ** 48), "big": bool(big and t % 3 != 0)}
        fails, tie, info = eval_case(case, want_tie=drv is not None)
        if t % 10 == 3 and not fails:
            # item 19: the same case under verbose logging: same oracles, and bit-identical scores
            vcase = dict(case, verbose=True)
            with maybe_verbose(True):
                vfails, _vt, vinfo = eval_case(vcase, want_tie=False)
            res.count("class.verbose-logging")
            res.count("class.verbose-logging.plateset")
            for (what, observed, required, sig) in vfails:
                emit(res, what + " [verbose logging]", dict(vcase, n=info["n"], sizes=info["sizes"]), observed, required, sig)
            if not vfails and repr(vinfo.get("het")) != repr(info.get("het")):
                emit(res, "scores under verbose logging differ from the quiet run on the same input", dict(vcase, n=info["n"], sizes=info["sizes"]),
                     vinfo.get("het"), info.get("het"), "verbose")
        res.evaluations += 1
        res.count("n_thetas.%d" % info["n"])
        res.count("plates.%s" % ("1" if len(info["sizes"]) == 1 else "2-4" if len(info["sizes"]) <= 4 else "5+"))
        res.count("zero_mode.%s" % info["zero_mode"])
        res.count("factor.%g" % info["factor"])
        res.count("homoscedastic" if info["homo"] else "heteroscedastic")
        if 1 in info["sizes"]:
            res.count("has_size1_plate")
        res.count("mode.%s" % info["mode"])
        res.count("class.object-reuse", 3)
        res.count("class.input-mutation")
        if info.get("key_order_differs"):
            res.count("unspecified.dict_key_order_differs")
        if info.get("draw_unrecognised"):
            res.count("unspecified.draw_not_recognised(tie skipped)")
        res.count("scorer_reused_after_other_n_thetas", info.get("reuse_other_n", 0))
        if info["views"]:
            res.count("inputs.readonly_noncontiguous")
            res.count("class.memory-layout")
        if max(info["sizes"]) >= 96:
            res.count("has_plate_of_96+_wells")
            res.count("class.size-boundaries")
        if len(info["sizes"]) > 50:
            res.count("plates.51+")
        g_ = info["dyn_gap"]
        res.count("logscore_gap_in_one_call." + ("<100" if g_ < 100 else "100-708" if g_ < 708 else "708-745" if g_ <= 745 else ">745"))
        res.count("direct_tie.in_double_range" if info["tie_safe"] else "direct_tie.skipped_unshifted_sum_leaves_double_range")
        if len(set(info["sizes"])) >= 2 and info["positive"]:
            res.nontrivial.add((info["n"], tuple(info["sizes"]), info["zero_mode"], info["factor"], info["homo"]))
        for (what, observed, required, sig) in fails:
            emit(res, what, dict(case, n=info["n"], sizes=info["sizes"], zero_mode=info["zero_mode"], factor=info["factor"]), observed, required, sig)
        for (where, line, impl) in tie:
            tie_rows.append((where, case, line, impl))
        if len(res.samples) < 4:
            res.sample(dict(case, n=info["n"], sizes=info["sizes"], zero_mode=info["zero_mode"], factor=info["factor"], homoscedastic=info["homo"]))
        res.traces_validated += 1 if tie else 0

    bseeds = ctx.subrng("bigtheta")
    for rep in range(ctx.scale(1, 4, 2)):
        for nb in (34, 36, 40):
            case = {"kind": "bigtheta", "subseed": bseeds.randrange(2 ** 48), "n": nb}
            case["verbose"] = nb == 36
            with maybe_verbose(case["verbose"]):
                fails, tie, info = bigtheta_case(case["subseed"], nb, want_tie=drv is not None)
            if case["verbose"]:
                res.count("class.verbose-logging")
                res.count("class.verbose-logging.bigtheta")
            res.evaluations += 1
            res.count("n_thetas.%d(C(n,3)>5000)" % nb)
            res.count("class.budget-vs-default(5000)")
            if info.get("unobserved"):
                res.count("bigtheta.triples_unobserved", info["unobserved"])
            res.nontrivial.add(("bigtheta", nb, tuple(info["sizes"])))
            for (what, observed, required, sig) in fails:
                emit(res, what, dict(case, sizes=info["sizes"]), observed, required, sig)
            for (where, line, impl) in tie:
                tie_rows.append((where, case, line, impl))

    rseeds = ctx.subrng("real")
    for t in range(ctx.scale(40, 400, 200)):
        case = {"kind": "realobjects", "subseed": rseeds.randrange(2 ** 48), "verbose": t % 5 == 2}
        with maybe_verbose(case["verbose"]):
            fails, tie, info = real_objects_case(case["subseed"])
        if case["verbose"]:
            res.count("class.verbose-logging")
            res.count("class.verbose-logging.realobjects")
        res.evaluations += 1
        res.count("real_objects")
        if len(set(info["sizes"])) >= 2:
            res.nontrivial.add(("real", info["n"], tuple(info["sizes"])))
        for (what, observed, required, sig) in fails:
            emit(res, what, dict(case, **info), observed, required, sig)
        for (where, line, impl) in tie:
            tie_rows.append((where, case, line, impl))

    if drv is not None:
        got = drv.ask(lines)
        for l, e, g_, m in zip(lines, expect, got, meta):
            if e != g_:
                res.disagree("C05:%s" % m[0], {"line": l[:300]}, e[:400], g_[:400])
        # numeric tie in batches (lines can be large)
        B = 200
        for s in range(0, len(tie_rows), B):
            part = tie_rows[s:s + B]
            outs = drv.ask([p[2] for p in part])
            for (where, case, line, impl), o in zip(part, outs):
                if where == "scorer":
                    try:
                        vals = [b2f(kv.split(":")[1]) for kv in o.split(";")] if o != "-" else []
                    except Exception:  # noqa
                        vals = None
                else:
                    try:
                        vals = dec_row(o)
                    except Exception:  # noqa
                        vals = None
                if vals is None or not all_close(vals, impl):
                    res.disagree("C05:%s" % where, case, impl, o[:400] if vals is None else vals)
        res.count("tie.lines", len(lines) + len(tie_rows))


def replay(ctx, case, res):
    with maybe_verbose(bool(case.get("verbose")) and case.get("kind") != "cli"):      # the CLI case passes --verbose itself
        _replay(ctx, case, res)


def _replay(ctx, case, res):
    if case.get("kind") == "offset":
        for (what, observed, required, sig) in offset_case(case):
            emit(res, what, case, observed, required, sig, replaying=True)
        return
    if case.get("kind") == "cli":
        fails, _out = cli_case(case)
        if not fails and case.get("verbose"):
            qfails, qout = cli_case(dict(case, verbose=False))
            if not qfails and repr(sorted(qout["scores"].items())) != repr(sorted(_out["scores"].items())):
                fails.append(("calculate_scores.main() writes other scores under --verbose than without", sorted(_out["scores"].items()), sorted(qout["scores"].items()), "verbose"))
        for (what, observed, required, sig) in fails:
            emit(res, what, case, observed, required, sig, replaying=True)
        return
    if case.get("kind") == "classes":
        fails, _counts = classes_case(case["subseed"])
        for (what, observed, required, sig) in fails:
            emit(res, what, case, observed, required, sig, replaying=True)
        return
    if case.get("kind") == "bigtheta":
        fails, _tie, _info = bigtheta_case(case["subseed"], case["n"], want_tie=False)
        for (what, observed, required, sig) in fails:
            emit(res, what, case, observed, required, sig, replaying=True)
        return
    if case.get("kind") == "realobjects":
        fails, _tie, _info = real_objects_case(case["subseed"])
        for (what, observed, required, sig) in fails:
            emit(res, what, case, observed, required, sig, replaying=True)
        return
    if case.get("kind") != "plateset":
        run(ctx, res)
        return
    for _attempt in range(3):       # a failure that depends on object identities / addresses may need the case's own history to recur
        fails, _tie, _info = eval_case({"kind": "plateset", "subseed": case["subseed"], "big": case["big"]}, want_tie=False)
        if any(not f[3].startswith("tie:") for f in fails):
            break
    if case.get("verbose") and not any(not f[3].startswith("tie:") for f in fails):
        with common_quiet():
            _qf, _qt, qinfo = eval_case({"kind": "plateset", "subseed": case["subseed"], "big": case["big"]}, want_tie=False)
        if repr(qinfo.get("het")) != repr(_info.get("het")):
            fails = list(fails) + [("scores under verbose logging differ from the quiet run on the same input", _info.get("het"), qinfo.get("het"), "verbose")]
    for (what, observed, required, sig) in fails:
        emit(res, what, case, observed, required, sig, replaying=True)
