"""Shared by harness/c05.py and harness/c15.py: the DBAL scorer driven through the REAL entry point
`batchie.cli.calculate_scores.main()` (argv + real h5 files in a temp dir), HARDENING_CHECKLIST item 18.

The scorer the CLI instantiates by introspection is `VerifDBALScorer`, a subclass of the repo's GaussianDBALScorer whose two
options are REQUIRED, annotated constructor arguments (the CLI can only cast required arguments given as `--scorer-param k=v`).
It changes nothing in the computation; it records what the core RECEIVES:
  * the constructor arguments (value and type) -> `max_chunk`, `max_triples`
  * per `score()` call: the plate ids / plate objects, the dense distance matrix, n_thetas, the generator object
  * per kernel invocation (module-level `dbal_fast_gauss_scoring_vectorized` wrapped, every argument passed through): `max_combos`,
    whether the generator is the one `score()` received, copies of predictions / variances, and the index arrays the three arrays
    are gathered with (= the triples really used)
and the harness reads the scores file the CLI wrote.
"""
import contextlib
import math
import os
import random
import shutil
import sys
import tempfile

import numpy as np

from vlib import common

common.use_repo_sources()

REC = {}
FAULTS = []          # wrapper / stub problems of the harness itself (item 21): reported as ties, never as oracle failures

_HARNESS_DIR = os.path.dirname(os.path.abspath(__file__))
_HARNESS_NAMES = ("rec()", "wrapped()", "Stub", "RecGen", "RecRng", "RecordingArray", "RecArr", "GatherLog", "VerifDBALScorer", "TableTheta", "<locals>")


def harness_fault(e):
    """True if the exception is the harness's own doing: its innermost frame lies in harness code (a wrapper / stub / recorder failed), or
    it is a TypeError about the call signature of one of the harness's stand-in objects.  Such an exception is a broken tie
    (`res.disagree` + counter `wrapper.unexpected-call`), never a `res.fail` (HARDENING_CHECKLIST item 21)."""
    tb = e.__traceback__
    last = None
    while tb is not None:
        last = tb
        tb = tb.tb_next
    if last is not None and os.path.abspath(last.tb_frame.f_code.co_filename).startswith(_HARNESS_DIR):
        return True
    if isinstance(e, TypeError) and any(nm in str(e) for nm in _HARNESS_NAMES):
        return True
    return False


def first_arg(args, kwargs, default=None):
    """the single data argument of an interface method, however it was passed (positionally or under any keyword name)"""
    if args:
        return args[0]
    for v in kwargs.values():
        return v
    return default


class GatherLog(np.ndarray):
    """array recording the integer index arrays it (or anything derived from it by ufuncs / views) is fancy-indexed with"""

    def __new__(cls, arr, log):
        obj = np.asarray(arr).view(cls)
        obj.log = log
        return obj

    def __array_finalize__(self, obj):
        self.log = getattr(obj, "log", None)

    def __getitem__(self, key):
        if self.log is not None and isinstance(key, tuple):
            arrs = [np.array(x, dtype=np.int64).ravel() for x in key if isinstance(x, np.ndarray) and x.dtype.kind in "iu"]
            if arrs:
                self.log.append(arrs)
        return np.asarray(super().__getitem__(key))


def triples_from_logs(log_d, log_p, log_v):
    dkeys = [k for k in log_d if len(k) == 2 and len(k[0]) == len(k[1])]
    if len(dkeys) == 3:
        (a1, b1), (a2, b2), (a3, b3) = dkeys
        if np.array_equal(a1, a3) and np.array_equal(b1, a2) and np.array_equal(b2, b3):
            return [(int(i), int(j), int(l)) for i, j, l in zip(a1, b1, b2)]
        return None
    uniq = []
    for k in log_p + log_v:
        if len(k) == 1 and not any(np.array_equal(k[0], u) for u in uniq):
            uniq.append(k[0])
    if len(uniq) == 3 and len(set(len(u) for u in uniq)) == 1:
        return [tuple(sorted((int(i), int(j), int(l)), reverse=True)) if len({int(i), int(j), int(l)}) == 3 else (int(i), int(j), int(l))
                for i, j, l in zip(*uniq)]
    return None


_PLUG = {}


def plugin():
    """the recording scorer class, discoverable by batchie.introspection.get_class"""
    if "cls" not in _PLUG:
        from batchie.scoring import gaussian_dbal as gd
        import batchie.scoring.size as host

        class VerifDBALScorer(gd.GaussianDBALScorer):
            def __init__(self, max_chunk: int, max_triples: int, **kwargs):
                REC.setdefault("init", []).append({"max_chunk": max_chunk, "max_triples": max_triples,
                                                   "types": [type(max_chunk).__name__, type(max_triples).__name__], "extra": sorted(kwargs)})
                super().__init__(max_chunk=max_chunk, max_triples=max_triples, **kwargs)

            def score(self, *args, **kwargs):
                # signature-agnostic (item 21): bind against the ORIGINAL signature to find the arguments, forward everything unchanged
                import inspect
                try:
                    ba = inspect.signature(gd.GaussianDBALScorer.score).bind(self, *args, **kwargs)
                    plates, distance_matrix, samples, rng = (ba.arguments.get(k_) for k_ in ("plates", "distance_matrix", "samples", "rng"))
                    call = self._record_call(plates, distance_matrix, samples, rng)
                except Exception as e:  # noqa
                    FAULTS.append("VerifDBALScorer.score could not record its arguments: %s: %s" % (type(e).__name__, str(e)[:200]))
                    return super().score(*args, **kwargs)
                kernel = gd.dbal_fast_gauss_scoring_vectorized

                def wrapped(*a, **k):
                    try:
                        logs = ([], [], [])
                        a2, k2 = list(a), dict(k)
                        got = {}
                        for pos, (name, lg) in enumerate(zip(("predictions", "variances", "distance_matrix"), logs)):
                            if name in k2:
                                got[name] = np.array(k2[name], dtype=float)
                                k2[name] = GatherLog(np.asarray(k2[name]), lg)
                            elif pos < len(a2):
                                got[name] = np.array(a2[pos], dtype=float)
                                a2[pos] = GatherLog(np.asarray(a2[pos]), lg)
                        call["kernel"].append({"max_combos": k2.get("max_combos", "<default>"), "same_rng": k2.get("rng") is rng,
                                               "distance_factor": k2.get("distance_factor", "<default>"), "arrays": got, "logs": logs})
                    except Exception as e:  # noqa
                        FAULTS.append("kernel wrapper could not record: %s: %s" % (type(e).__name__, str(e)[:200]))
                        return kernel(*a, **k)
                    return kernel(*a2, **k2)

                gd.dbal_fast_gauss_scoring_vectorized = wrapped
                try:
                    out = super().score(*args, **kwargs)
                finally:
                    gd.dbal_fast_gauss_scoring_vectorized = kernel
                try:
                    call["out"] = {int(k): float(v) for k, v in out.items()}
                except Exception:  # noqa
                    pass
                return out

            def _record_call(self, plates, distance_matrix, samples, rng):
                call = {"plate_ids": [int(k) for k in plates.keys()], "plates": dict(plates), "n_thetas": int(samples.n_thetas), "samples": samples,
                        "dense": np.array(distance_matrix.to_dense(), dtype=float), "rng_is_generator": isinstance(rng, np.random.Generator),
                        "rng_state": rng.bit_generator.state if isinstance(rng, np.random.Generator) else None,
                        "attrs": {"max_chunk": self.max_chunk, "max_triples": self.max_triples}, "kernel": []}
                REC.setdefault("score", []).append(call)
                return call

        host.VerifDBALScorer = VerifDBALScorer
        _PLUG["cls"] = VerifDBALScorer
    return _PLUG["cls"]


def build(subseed, n_thetas, many_rows=False):
    """a real Screen (1-2 samples, 3-4 treatments + control, plates of unequal sizes, some observed), a ThetaHolder of real
    SparseDrugComboMCMCSample parameter sets, a symmetric non-negative distance matrix with a few zeros"""
    from batchie.data import Screen, ExperimentSpace
    from batchie.core import ThetaHolder
    from batchie.models.sparse_combo import SparseDrugComboMCMCSample
    r = random.Random(subseed)
    samples = ["s%d" % i for i in range(r.choice([1, 2]))]
    treats = ["t%d" % i for i in range(r.choice([3, 4]))]
    n_plates = r.choice([3, 4, 5, 6])
    rows = []
    for p in range(n_plates):
        observed = p < n_plates - 2 and r.random() < 0.4        # at least two unobserved plates
        size = r.choice([1, 1, 2, 3, 5]) if not many_rows else r.choice([1, 2])
        for _ in range(size):
            a = r.choice(treats)
            b = r.choice(treats + ["control"])
            rows.append((r.choice(samples), "plate%02d" % p, a, b, r.random(), observed))
    r.shuffle(rows)                                              # plates interleaved in the file
    N = len(rows)
    screen = Screen(observations=np.array([x[4] if x[5] else 0.0 for x in rows]), observation_mask=np.array([x[5] for x in rows], dtype=bool),
                    sample_names=np.array([x[0] for x in rows], dtype=str), plate_names=np.array([x[1] for x in rows], dtype=str),
                    treatment_names=np.array([[x[2], x[3]] for x in rows], dtype=str).reshape(N, 2),
                    treatment_doses=np.array([[1.0, 0.0 if x[3] == "control" else 2.0] for x in rows]).reshape(N, 2),
                    control_treatment_name="control")
    es = ExperimentSpace.from_screen(screen)
    S, T, Dm = es.n_unique_samples, es.n_unique_treatments, 2
    g = np.random.default_rng(r.randrange(2 ** 63))
    holder = ThetaHolder(n_thetas=n_thetas)
    for _ in range(n_thetas):
        holder.add_theta(SparseDrugComboMCMCSample(W=g.normal(0, 0.6, size=(S, Dm)), W0=g.normal(0, 0.6, size=S), V2=g.normal(0, 0.6, size=(T, Dm)),
                                                   V1=g.normal(0, 0.6, size=(T, Dm)), V0=g.normal(0, 0.6, size=T), alpha=float(g.normal()),
                                                   precision=float(10.0 ** g.uniform(-1, 1))))
    U = np.triu(g.uniform(0.05, 2.0, size=(n_thetas, n_thetas)) * (g.uniform(size=(n_thetas, n_thetas)) > 0.15), 1)
    return screen, holder, U + U.T, r


@contextlib.contextmanager
def _argv(argv):
    import logging
    old = sys.argv
    sys.argv = argv
    lg = logging.getLogger("batchie")
    state = (lg.level, list(lg.handlers), logging.root.manager.disable)
    try:
        yield
    finally:
        sys.argv = old
        for h in list(lg.handlers):         # configure_logging adds a stream handler per call
            if h not in state[1]:
                lg.removeHandler(h)
        lg.setLevel(state[0])
        logging.disable(state[2])


def run_cli(subseed, n_thetas, budget, max_chunk, seed, verbose=False, split_files=True, n_chunks=1, chunk_index=0, many_rows=False):
    """returns a record: {error | scores: {plate_id: score}, init, score_calls, screen, holder, D, unobserved ids of this chunk}"""
    from batchie.core import ThetaHolder
    from batchie.distance_calculation import ChunkedDistanceMatrix
    from batchie.cli import calculate_scores as M
    from batchie.scoring.main import ChunkedScoresHolder
    import logging
    plugin()
    screen, holder, D, r = build(subseed, n_thetas, many_rows)
    tmp = tempfile.mkdtemp(prefix="verif_dbalcli_")
    rec = {"screen": screen, "holder": holder, "D": D}
    try:
        data = os.path.join(tmp, "data.h5")
        screen.save_h5(data)
        # thetas in one or two files (the CLI concatenates them in argument order)
        tfiles = []
        cut = r.randint(1, n_thetas - 1) if split_files else n_thetas
        for k, (a, b) in enumerate([(0, cut), (cut, n_thetas)]):
            if b > a:
                h = ThetaHolder(n_thetas=b - a)
                for i in range(a, b):
                    h.add_theta(holder.get_theta(i))
                f = os.path.join(tmp, "thetas%d.h5" % k)
                h.save_h5(f)
                tfiles.append(f)
        # the distance matrix in one or two chunk files, entries in shuffled order
        pairs = [(i, j) for i in range(n_thetas) for j in range(i)]
        r.shuffle(pairs)
        # (ChunkedDistanceMatrix.combine is quadratic in the number of entries: one file beyond 40 posterior samples)
        cutp = r.randint(1, len(pairs) - 1) if split_files and 1 < len(pairs) <= 780 else len(pairs)
        dfiles = []
        for k, part in enumerate([pairs[:cutp], pairs[cutp:]]):
            if part:
                dm = ChunkedDistanceMatrix(size=n_thetas, chunk_size=len(part))
                for (i, j) in part:
                    dm.add_value(i, j, float(D[i, j]))
                f = os.path.join(tmp, "dm%d.h5" % k)
                dm.save(f)
                dfiles.append(f)
        out = os.path.join(tmp, "scores.h5")
        argv = ["calculate_scores", "--scorer", "VerifDBALScorer", "--scorer-param", "max_chunk=%d" % max_chunk, "--scorer-param",
                "max_triples=%d" % budget, "--data", data, "--thetas"] + tfiles + ["--distance-matrix"] + dfiles + \
               ["--n-chunks", str(n_chunks), "--chunk-index", str(chunk_index), "--output", out, "--seed", str(seed)]
        if verbose:
            argv.append("--verbose")
        REC.clear()
        del FAULTS[:]
        devnull = open(os.devnull, "w")
        try:
            with _argv(argv), contextlib.redirect_stderr(devnull):
                if verbose:
                    # configure_logging(--verbose) puts the `batchie` logger at DEBUG itself; lift a harness-wide logging.disable
                    logging.disable(logging.NOTSET)
                M.main()
        except SystemExit as e:
            rec["error"] = "SystemExit: %r" % (e.code,)
            return rec
        except Exception as e:  # noqa
            rec["error"] = "%s: %s" % (type(e).__name__, str(e)[:300])
            rec["error_in_harness"] = harness_fault(e)
            rec["faults"] = list(FAULTS)
            return rec
        finally:
            devnull.close()
        rec["faults"] = list(FAULTS)
        rec["init"] = list(REC.get("init", []))
        rec["score_calls"] = list(REC.get("score", []))
        sh = ChunkedScoresHolder.load_h5(out)
        rec["scores"] = {int(p): float(s) for p, s in zip(sh.plate_ids[: int(sh.current_index)], sh.scores[: int(sh.current_index)])}
        rec["scores_len"] = int(len(sh.scores))
        unobs = sorted(int(p.plate_id) for p in screen.plates if not p.is_observed)
        parts = np.array_split(unobs, n_chunks)
        rec["chunk_plate_ids"] = [int(x) for x in parts[chunk_index]]
        return rec
    finally:
        shutil.rmtree(tmp, ignore_errors=True)
        REC.clear()


def plate_tables(screen, holder, plate_id):
    """(means, variances) of shape (n_thetas, plate.size) for the plate of the ORIGINAL screen, computed theta by theta with the
    model's own predictor (the property takes predicted means / variances as given)"""
    plate = next(p for p in screen.plates if int(p.plate_id) == plate_id)
    m = [np.asarray(holder.get_theta(i).predict_conditional_mean(plate), dtype=float).tolist() for i in range(holder.n_thetas)]
    v = [np.asarray(holder.get_theta(i).predict_conditional_variance(plate), dtype=float).tolist() for i in range(holder.n_thetas)]
    return m, v
