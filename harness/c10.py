"""C10 -- posterior-sample collections persist exactly and keep chain-major order.

Tie: the Lean model `Batchie.Model.Thetas` (driver_c10) is run on the same inputs as the real
`ThetaHolder.save_h5 / load_h5 / concat / add_theta / get_theta` and `cli.evaluate_model.main()`:
  * save: the file the real code writes (read back raw with h5py) == the model's `save`;
  * load: the model's `load` of the raw group listing -- in HDF5's (alphabetical) order AND in a
    shuffled order -- == what the real `load_h5` returns;
  * concat / evaluate / refusals on tagged holders.
Oracles (implementation only): reloaded holder == saved holder (declared size, number, order, every
parameter by dtype/shape/bit pattern, the single-effect table), predictions before/after reload
byte-identical, concat chain-major, evaluate_model's chain ids aligned with its prediction columns
for any file order, the three refusals.

Every oracle failure carries a JSON case from which `replay` re-executes exactly that case.
"""
import contextlib
import io
import logging
import os
import shutil
import struct
import sys
import tempfile

import numpy as np

from vlib import common

common.use_repo_sources()

RULE = ("holders of 1-25 samples (thorough: up to 40) of both shipped sample types with arbitrary float64 bit patterns "
        "(denormals, -0.0, inf, quiet/signalling NaN payloads, values that do not survive float32), float32/int64 arrays, empty "
        "arrays, python/numpy scalars, declared size >= number of samples, single-effect tables incl. the empty one; real "
        "save_h5/load_h5; 'predictable' holders on a real Screen (predictions before/after reload compared bytewise); 1-4 chains "
        "of unequal length saved to files, shuffled file order, real evaluate_model.main(); in-memory concat incl. incomplete "
        "holders; refusals. Non-trivial: >= 11 samples in one file (so that '10' < '2' alphabetically matters) or >= 2 chains of "
        "unequal length.")

SPECIAL64 = [0x0000000000000000, 0x8000000000000000, 0x0000000000000001, 0x800fffffffffffff, 0x000fffffffffffff,
             0x7ff0000000000000, 0xfff0000000000000, 0x7ff8000000000000, 0x7ff8000000000001, 0xfff8dead0000beef,
             0x7ff0000000000001, 0x3ff0000000000001, 0x3fb999999999999a, 0x47efffffffffffff, 0x36a0000000000000,
             0x7fefffffffffffff, 0x3ff0000010000000, 0x400921fb54442d18]
SPECIAL32 = [0x00000000, 0x80000000, 0x00000001, 0x7f800000, 0x7fc00001, 0x7fa00000, 0x3f800001, 0x7f7fffff]


# ------------------------------------------------------------------ value generation / canonical encoding
def gen_bits64(rng):
    r = rng.random()
    if r < 0.45:
        return rng.choice(SPECIAL64)
    if r < 0.8:
        return rng.getrandbits(64)
    return struct.unpack("<Q", struct.pack("<d", rng.gauss(0, 1)))[0]


def gen_val(rng, scalar, allow_exotic=True):
    """JSON-able description of one parameter value"""
    if scalar:
        k = rng.choice(["pf", "pf", "f8", "f4", "pi", "i8"]) if allow_exotic else "pf"
        if k in ("pf", "f8"):
            return {"k": k, "bits": [gen_bits64(rng)]}
        if k == "f4":
            return {"k": k, "bits": [rng.choice(SPECIAL32) if rng.random() < 0.5 else rng.getrandbits(32)]}
        return {"k": k, "bits": [rng.randrange(-2 ** 40, 2 ** 40)]}
    nd = rng.choice([1, 1, 2, 2, 3])
    shape = [rng.choice([0, 1, 1, 2, 3, 4]) for _ in range(nd)]
    n = int(np.prod(shape))
    k = rng.choice(["f8", "f8", "f8", "f8", "f4", "i8"]) if allow_exotic else "f8"
    if k == "f8":
        bits = [gen_bits64(rng) for _ in range(n)]
    elif k == "f4":
        bits = [rng.choice(SPECIAL32) if rng.random() < 0.5 else rng.getrandbits(32) for _ in range(n)]
    else:
        bits = [rng.randrange(-2 ** 62, 2 ** 62) for _ in range(n)]
    return {"k": k, "shape": shape, "bits": bits}


def build_val(v):
    k, bits = v["k"], v["bits"]
    if "shape" not in v:
        if k == "pf":
            return struct.unpack("<d", struct.pack("<Q", bits[0]))[0]
        if k == "f8":
            return np.array(bits, dtype="<u8").view("<f8")[0]
        if k == "f4":
            return np.array(bits, dtype="<u4").view("<f4")[0]
        if k == "pi":
            return int(bits[0])
        return np.int64(bits[0])
    if k == "f8":
        a = np.array(bits, dtype="<u8").view("<f8")
    elif k == "f4":
        a = np.array(bits, dtype="<u4").view("<f4")
    else:
        a = np.array(bits, dtype="<i8")
    return a.reshape(v["shape"]).copy()


def canon_val(x):
    """`<dtype>:<shape>:<bits>` of a Python / numpy object as the model encodes it"""
    if isinstance(x, np.ndarray):
        shape = "a" + "x".join(str(d) for d in x.shape)
        flat = np.ascontiguousarray(x).reshape(-1)
        if x.dtype == np.float64:
            tag, vals = 0, flat.view("<u8").tolist()
        elif x.dtype == np.float32:
            tag, vals = 1, flat.view("<u4").tolist()
        elif x.dtype == np.int64:
            tag, vals = 2, flat.tolist()
        elif x.dtype == np.bool_:
            tag, vals = 3, [int(b) for b in flat.tolist()]
        else:
            tag, vals = 99, [repr(x.dtype)]
        return "%d:%s:%s" % (tag, shape, ",".join(str(v) for v in vals) if len(vals) else "-")
    if isinstance(x, (bool, np.bool_)):
        return "3:s:%d" % int(x)
    if isinstance(x, np.float32):
        return "1:s:%d" % np.array([x], dtype="<f4").view("<u4")[0]
    if isinstance(x, (float, np.float64)):
        return "0:s:%d" % np.array([x], dtype="<f8").view("<u8")[0]
    if isinstance(x, (int, np.integer)):
        return "2:s:%d" % int(x)
    return "99:s:%r" % (x,)


def fbits(x):
    return int(np.array([x], dtype="<f8").view("<u8")[0])


def show_table(t):
    items = list(t.items())
    if not items:
        return "-"
    return ";".join("%d,%d,%d" % (int(k[0]), int(k[1]), fbits(v)) for k, v in items)


def show_sample(th):
    name = type(th).__name__
    if name == "SparseDrugComboMCMCSample":
        return "|".join(["C"] + [canon_val(getattr(th, f)) for f in ("W", "W0", "V2", "V1", "V0", "alpha", "precision")])
    if name == "SparseDrugComboInteractionMCMCSample":
        return "|".join(["I", canon_val(th.W), canon_val(th.V2), canon_val(th.precision), show_table(th.single_effect_lookup)])
    return "?" + name


def show_holder(h):
    return " ".join(["ok", str(int(h.n_thetas))] + [show_sample(t) for t in h.thetas])


def err_tok(e):
    return "err:" + type(e).__name__


# ------------------------------------------------------------------ building holders from cases
def build_theta(cls, d, table):
    from batchie.models.sparse_combo import SparseDrugComboMCMCSample
    from batchie.models.sparse_combo_interaction import SparseDrugComboInteractionMCMCSample
    kw = {k: build_val(v) for k, v in d.items()}
    if cls == "C":
        return SparseDrugComboMCMCSample(**kw)
    tb = {(int(a), int(b)): struct.unpack("<d", struct.pack("<Q", int(c)))[0] for a, b, c in table}
    return SparseDrugComboInteractionMCMCSample(single_effect_lookup=tb, **kw)


def build_holder(case):
    from batchie.core import ThetaHolder
    h = ThetaHolder(n_thetas=case["size"])
    for d in case["thetas"]:
        h.thetas.append(build_theta(case["cls"], d, case.get("table", [])))
    return h


def gen_roundtrip_case(rng, n_max):
    cls = rng.choice(["C", "I"])
    r = rng.random()
    n = rng.randint(11, n_max) if r < 0.55 else rng.randint(1, 10)
    size = n if rng.random() < 0.6 else n + rng.randint(1, 5)
    fields_a = ("W", "W0", "V2", "V1", "V0") if cls == "C" else ("W", "V2")
    fields_s = ("alpha", "precision") if cls == "C" else ("precision",)
    thetas = []
    for _ in range(n):
        d = {f: gen_val(rng, False) for f in fields_a}
        d.update({f: gen_val(rng, True) for f in fields_s})
        thetas.append(d)
    case = {"kind": "roundtrip", "cls": cls, "size": size, "thetas": thetas}
    if cls == "I":
        m = rng.choice([0, 0, 1, 2, 5])
        keys = set()
        while len(keys) < m:
            keys.add((rng.randint(0, 3), rng.randint(-1, 4)))
        keys = list(keys)
        rng.shuffle(keys)
        case["table"] = [[a, b, rng.choice(SPECIAL64[:7] + SPECIAL64[11:]) if rng.random() < 0.5 else gen_bits64(rng)] for a, b in keys]
    return case


# ------------------------------------------------------------------ raw file reading
def dict_tok(items):
    items = sorted(items)
    return "-" if not items else "/".join("%s=%s" % (k, v) for k, v in items)


def group_tok(g, rng=None):
    attrs = [(k, canon_val(v)) for k, v in g.attrs.items()]
    dsets = [(k, canon_val(g[k][()] if g[k].shape == () else g[k][:])) for k in g.keys()]
    return dict_tok(attrs) + "~" + dict_tok(dsets)


def read_raw(fn):
    """(header tokens, [key@group tokens] in the order h5py lists the children)"""
    import h5py
    with h5py.File(fn, "r") as f:
        cls = {"SparseDrugComboMCMCSample": "C", "SparseDrugComboInteractionMCMCSample": "I"}.get(str(f.attrs["theta_class"]), "?")
        sh = f["shared_params"]
        head = [str(int(f.attrs["n_thetas"])), cls, group_tok(sh)]
        pg = f["private_params"]
        groups = ["%s@%s" % (k, group_tok(pg[k])) for k in pg.keys()]
    return head, groups


def canon_file_line(line):
    """sort the group tokens and the dict entries of a model `c10.save` answer"""
    toks = line.split(" ")
    if toks[0] != "ok":
        return line

    def cg(g):
        a, d = g.split("~")
        return "~".join("-" if x == "-" else "/".join(sorted(x.split("/"), key=lambda e: tuple(e.split("=")))) for x in (a, d))

    head = toks[1:3] + [cg(toks[3])]
    groups = sorted("%s@%s" % (t.split("@")[0], cg(t.split("@")[1])) for t in toks[4:])
    return " ".join(["ok"] + head + groups)


# ------------------------------------------------------------------ screens for predictions
def make_screen(rng, n_samples, n_treat, n_rows):
    from batchie.data import Screen
    tn, td, sn = [], [], []
    # make sure every sample and every treatment occurs so that ids are 0..n-1
    for r in range(max(n_rows, n_samples, n_treat)):
        a = "t%d" % (r % n_treat)
        b = "t%d" % rng.randrange(n_treat) if rng.random() < 0.8 else "control"
        if rng.random() < 0.5:
            a, b = b, a
        tn.append([a, b])
        td.append([1.0, 1.0])
        sn.append("s%d" % (r % n_samples))
    n = len(sn)
    return Screen(observations=np.array([rng.random() for _ in range(n)]), observation_mask=np.ones(n, dtype=bool),
                  sample_names=np.array(sn, dtype=str), plate_names=np.array(["p"] * n, dtype=str),
                  treatment_names=np.array(tn, dtype=str), treatment_doses=np.array(td), control_treatment_name="control")


def gen_predictable(rng, cls, n, n_samples, n_treat, D):
    """JSON-able thetas with consistent shapes and finite moderate values"""
    def arr(shape):
        m = int(np.prod(shape))
        return {"k": "f8", "shape": list(shape), "bits": [struct.unpack("<Q", struct.pack("<d", rng.gauss(0, 0.7)))[0] for _ in range(m)]}

    def sc(x):
        return {"k": "pf", "bits": [struct.unpack("<Q", struct.pack("<d", x))[0]]}
    thetas = []
    for _ in range(n):
        if cls == "C":
            thetas.append({"W": arr((n_samples, D)), "W0": arr((n_samples,)), "V2": arr((n_treat, D)), "V1": arr((n_treat, D)),
                           "V0": arr((n_treat,)), "alpha": sc(rng.gauss(0, 1)), "precision": sc(0.5 + rng.random() * 10)})
        else:
            thetas.append({"W": arr((n_samples, D)), "V2": arr((n_treat, D)), "precision": sc(0.5 + rng.random() * 10)})
    return thetas


def gen_table(rng, n_samples, n_treat):
    tb = []
    pairs = [(s, t) for s in range(n_samples) for t in range(-1, n_treat)]
    rng.shuffle(pairs)
    for s, t in pairs:
        tb.append([s, t, struct.unpack("<Q", struct.pack("<d", 1.0 if t == -1 else 0.05 + 0.9 * rng.random()))[0]])
    return tb


@contextlib.contextmanager
def quiet():
    lg = logging.getLogger("batchie")
    old_handlers, old_level = list(lg.handlers), lg.level
    buf = io.StringIO()
    try:
        with contextlib.redirect_stdout(buf), contextlib.redirect_stderr(buf):
            yield
    finally:
        for h in list(lg.handlers):
            if h not in old_handlers:
                lg.removeHandler(h)
        lg.setLevel(old_level)


# ------------------------------------------------------------------ the cases
def run_roundtrip(case, tmp, res, queue, rng, check_model=True):
    """real save_h5 / load_h5 of one holder; oracle + model lines"""
    from batchie.core import ThetaHolder
    h = build_holder(case)
    fn = os.path.join(tmp, "rt.h5")
    want = show_holder(h)
    try:
        h.save_h5(fn)
    except Exception as e:
        res.fail("save_h5 raises on a non-empty holder", case, err_tok(e) + ": " + str(e)[:200], "file written", signature="C10:save-raises")
        return
    head, groups = read_raw(fn)
    try:
        with quiet():
            back = ThetaHolder.load_h5(fn)
        got = show_holder(back)
    except Exception as e:
        got = err_tok(e)
    if got != want:
        # locate the first difference for the report
        a, b = want.split(" "), got.split(" ")
        idx = next((i for i in range(min(len(a), len(b))) if a[i] != b[i]), min(len(a), len(b)))
        res.fail("reloaded holder differs from the saved one (size, number, order or a parameter bit pattern)", case,
                 {"first_difference_token": idx, "saved": a[idx][:200] if idx < len(a) else None, "loaded": b[idx][:200] if idx < len(b) else None,
                  "n_loaded": len(b) - 2}, "bit-identical holder", signature="C10:reload-differs")
    if check_model:
        samples = want.split(" ")[2:]
        queue("save", case, " ".join(["c10.save", str(case["size"])] + samples), " ".join(["ok"] + head + sorted(groups)), canon=True)
        queue("load-h5order", case, " ".join(["c10.load"] + head + groups), got)
        sh = list(groups)
        rng.shuffle(sh)
        queue("load-shuffled", case, " ".join(["c10.load"] + head + sh), got)


def run_predict(case, tmp, res):
    """predictions of every sample before and after the round trip, bytewise"""
    from batchie.core import ThetaHolder
    srng = __import__("random").Random(case["screen_seed"])
    screen = make_screen(srng, case["n_samples"], case["n_treat"], case["n_rows"])
    h = build_holder(case)
    fn = os.path.join(tmp, "pr.h5")
    before = [(t.predict_viability(screen), t.predict_conditional_mean(screen), t.predict_conditional_variance(screen)) for t in h.thetas]
    h.save_h5(fn)
    with quiet():
        back = ThetaHolder.load_h5(fn)
    if len(back.thetas) != len(h.thetas):
        res.fail("reload changes the number of samples", case, len(back.thetas), len(h.thetas), signature="C10:reload-differs")
        return
    for i, t in enumerate(back.thetas):
        after = (t.predict_viability(screen), t.predict_conditional_mean(screen), t.predict_conditional_variance(screen))
        for nm, x, y in zip(("viability", "mean", "variance"), before[i], after):
            if np.asarray(x).tobytes() != np.asarray(y).tobytes() or np.asarray(x).dtype != np.asarray(y).dtype:
                res.fail("reloaded sample predicts differently (%s)" % nm, case, {"sample": i, "after": np.asarray(y).tolist()[:6]},
                         {"before": np.asarray(x).tolist()[:6]}, signature="C10:reload-predicts-differently")
                return


def run_evaluate(case, tmp, res, queue):
    """1-4 chain files, shuffled order, real evaluate_model.main()"""
    from batchie.cli import evaluate_model
    from batchie.core import ThetaHolder
    from batchie.models.main import ModelEvaluation
    srng = __import__("random").Random(case["screen_seed"])
    screen = make_screen(srng, case["n_samples"], case["n_treat"], case["n_rows"])
    sfn = os.path.join(tmp, "screen.h5")
    screen.save_h5(sfn)
    files, preds, tags, light = [], {}, {}, []
    tag = 0
    for ci, ch in enumerate(case["chains"]):
        hc = {"cls": case["cls"], "size": ch["size"], "thetas": ch["thetas"], "table": case.get("table", [])}
        h = build_holder(hc)
        fn = os.path.join(tmp, "chain%d.h5" % ci)
        h.save_h5(fn)
        files.append(fn)
        tl = []
        for t in h.thetas:
            preds[tag] = np.asarray(t.predict_viability(screen)).astype(np.float32)
            tl.append(tag)
            tag += 1
        tags[ci] = tl
    order = case["order"]
    out = os.path.join(tmp, "me.h5")
    argv = ["evaluate_model", "--screen", sfn, "--thetas"] + [files[i] for i in order] + ["--output", out]
    old = sys.argv
    sys.argv = argv
    try:
        with quiet():
            evaluate_model.main()
        me = ModelEvaluation.load_h5(out)
        impl_err = None
    except Exception as e:
        impl_err = e
    finally:
        sys.argv = old
    light = ["%d:%s" % (case["chains"][i]["size"], ",".join(str(x) for x in tags[i]) if tags[i] else "-") for i in order]
    complete = all(case["chains"][i]["size"] == len(tags[i]) for i in order)
    if impl_err is not None:
        impl = err_tok(impl_err)
        if complete:
            res.fail("evaluate_model raises on complete chain files", case, impl + ": " + str(impl_err)[:200], "a ModelEvaluation", signature="C10:evaluate-raises")
    else:
        expected = [(pos, tg) for pos, i in enumerate(order) for tg in tags[i]]
        cids = [int(x) for x in me.chain_ids]
        P = np.asarray(me.predictions)
        cols = []
        ok = P.shape[1] == len(expected) and len(cids) == len(expected)
        if ok:
            for j, (pos, tg) in enumerate(expected):
                match = [g for g, p in preds.items() if p.tobytes() == np.ascontiguousarray(P[:, j]).astype(np.float32).tobytes()]
                cols.append("%d:%s" % (cids[j], "/".join(str(m) for m in match) if len(match) == 1 else "?%d" % len(match)))
                if cids[j] != pos or preds[tg].tobytes() != np.ascontiguousarray(P[:, j]).astype(np.float32).tobytes():
                    ok = False
        if not ok:
            res.fail("evaluate_model: chain id of a prediction column is not the index of the file its sample came from "
                     "(or the columns are not in chain-major order)", case,
                     {"chain_ids": cids, "columns(chain_id:sample tag)": cols, "n_columns": int(P.shape[1])},
                     {"columns(chain_id:sample tag)": ["%d:%d" % e for e in expected]}, signature="C10:chain-ids-misaligned")
        impl = "ok " + (",".join(cols) if cols else "-")
    distinct = len({p.tobytes() for p in preds.values()}) == len(preds)
    if distinct:
        queue("evaluate", case, " ".join(["c10.eval"] + light), impl)
    return distinct


def run_concat(case, res, queue):
    from batchie.core import ThetaHolder

    class Tag:
        def __init__(self, t):
            self.t = t
    hs, light = [], []
    tag = 0
    for size, n in case["holders"]:
        h = ThetaHolder(n_thetas=size)
        for _ in range(n):
            h.thetas.append(Tag(tag))
            tag += 1
        hs.append(h)
        light.append("%d:%s" % (size, ",".join(str(t.t) for t in h.thetas) if h.thetas else "-"))
    try:
        r = ThetaHolder.concat(hs)
        impl = "ok %d:%s" % (int(r.n_thetas), ",".join(str(t.t) for t in r.thetas) if r.thetas else "-")
        want = [t.t for h in hs for t in h.thetas]
        if [t.t for t in r.thetas] != want or int(r.n_thetas) != sum(s for s, _ in case["holders"]):
            res.fail("concat is not chain-major (or declared size is not the sum)", case,
                     {"thetas": [t.t for t in r.thetas], "n_thetas": int(r.n_thetas)}, {"thetas": want, "n_thetas": sum(s for s, _ in case["holders"])},
                     signature="C10:concat-not-chain-major")
    except Exception as e:
        impl = err_tok(e)
        if hs:
            res.fail("concat raises on a non-empty list", case, impl, "a holder", signature="C10:concat-raises")
        elif not isinstance(e, ValueError):
            res.fail("concat of an empty list must raise ValueError", case, impl, "ValueError", signature="C10:refusal")
    queue("concat", case, " ".join(["c10.concat"] + light), impl)


def run_refusal(case, tmp, res, queue):
    from batchie.core import ThetaHolder

    class Tag:
        def __init__(self, t):
            self.t = t
    size, n = case["size"], case["n"]
    h = ThetaHolder(n_thetas=size)
    for i in range(n):
        h.thetas.append(Tag(i))
    light = "%d:%s" % (size, ",".join(str(i) for i in range(n)) if n else "-")
    if case["op"] == "add":
        try:
            h.add_theta(Tag(99))
            impl = "ok %d:%s" % (size, ",".join(str(t.t) for t in h.thetas))
            if n >= size:
                res.fail("holder grows beyond its declared size", case, impl, "ValueError", signature="C10:refusal")
            elif [t.t for t in h.thetas] != list(range(n)) + [99]:
                res.fail("add_theta does not append", case, impl, "appended at the end", signature="C10:refusal")
        except Exception as e:
            impl = err_tok(e)
            if n < size or not isinstance(e, ValueError):
                res.fail("add_theta refusal wrong", case, impl, "ValueError iff full", signature="C10:refusal")
        queue("add", case, "c10.add %s 99" % light, impl)
    elif case["op"] == "get":
        i = case["index"]
        try:
            t = h.get_theta(i)
            impl = "ok %d" % t.t
            if not (0 <= i < n) or t.t != i:
                res.fail("out-of-range access served (or wrong sample)", case, impl, "ValueError" if not (0 <= i < n) else i, signature="C10:refusal")
        except Exception as e:
            impl = err_tok(e)
            if 0 <= i < n or not isinstance(e, ValueError):
                res.fail("get_theta refusal wrong", case, impl, "ValueError iff out of range", signature="C10:refusal")
        queue("get", case, "c10.get %s %d" % (light, i), impl)
    else:  # save empty
        e0 = ThetaHolder(n_thetas=size)
        fn = os.path.join(tmp, "empty.h5")
        try:
            e0.save_h5(fn)
            impl = "ok"
            res.fail("an empty holder was saved", case, "file written", "ValueError", signature="C10:refusal")
        except Exception as e:
            impl = err_tok(e)
            if not isinstance(e, ValueError):
                res.fail("save of an empty holder must raise ValueError", case, impl, "ValueError", signature="C10:refusal")
        queue("save-empty", case, "c10.save %d" % size, impl)


def gen_eval_case(rng, cls, force_big):
    n_samples, n_treat, D = rng.randint(1, 3), rng.randint(2, 4), rng.randint(1, 3)
    k = rng.randint(1, 4)
    lens = [rng.randint(1, 6) for _ in range(k)]
    if force_big:
        lens[rng.randrange(k)] = rng.randint(11, 14)
    chains = []
    for n in lens:
        size = n if rng.random() < 0.9 else n + 1      # an incomplete file now and then
        chains.append({"size": size, "thetas": gen_predictable(rng, cls, n, n_samples, n_treat, D)})
    order = list(range(k))
    rng.shuffle(order)
    case = {"kind": "evaluate", "cls": cls, "n_samples": n_samples, "n_treat": n_treat, "n_rows": rng.randint(3, 8),
            "screen_seed": rng.getrandbits(32), "chains": chains, "order": order}
    if cls == "I":
        case["table"] = gen_table(rng, n_samples, n_treat)
    return case


def run_case(case, tmp, res, queue, rng):
    k = case["kind"]
    if k == "roundtrip":
        run_roundtrip(case, tmp, res, queue, rng)
    elif k == "predict":
        run_predict(case, tmp, res)
    elif k == "evaluate":
        return run_evaluate(case, tmp, res, queue)
    elif k == "concat":
        run_concat(case, res, queue)
    elif k == "refusal":
        run_refusal(case, tmp, res, queue)
    return True


def run(ctx, res):
    res.rule = RULE
    rng = ctx.subrng("c10")
    tmp = tempfile.mkdtemp(prefix="verif_c10_")
    lines, expect, meta = [], [], []

    def queue(where, case, line, impl, canon=False):
        lines.append(line)
        expect.append(impl)
        meta.append((where, case, canon))

    n_max = 25 if ctx.tier == "quick" else 40
    try:
        # 1. save / load with arbitrary bit patterns
        for t in range(ctx.scale(150, 1500, 700)):
            case = gen_roundtrip_case(rng, n_max)
            res.evaluations += 1
            res.count("roundtrip.cls." + case["cls"])
            n = len(case["thetas"])
            res.count("roundtrip.n.%s" % ("1-10" if n <= 10 else "11-25" if n <= 25 else "26+"))
            if case["cls"] == "I":
                res.count("roundtrip.table.%s" % ("empty" if not case["table"] else "nonempty"))
            if case["size"] > n:
                res.count("roundtrip.incomplete")
            if n >= 11:
                res.nontrivial.add(common.short_hash(case))
            run_case(case, tmp, res, queue, rng)
            if t < 2:
                res.sample({"kind": "roundtrip", "cls": case["cls"], "n": n, "size": case["size"], "first_theta": case["thetas"][0]})
        # 2. predictions before / after reload
        for t in range(ctx.scale(40, 400, 200)):
            cls = rng.choice(["C", "I"])
            ns, nt, D = rng.randint(1, 3), rng.randint(2, 4), rng.randint(1, 3)
            n = rng.randint(11, 16) if rng.random() < 0.5 else rng.randint(1, 6)
            case = {"kind": "predict", "cls": cls, "size": n, "n_samples": ns, "n_treat": nt, "n_rows": rng.randint(3, 8),
                    "screen_seed": rng.getrandbits(32), "thetas": gen_predictable(rng, cls, n, ns, nt, D)}
            if cls == "I":
                case["table"] = gen_table(rng, ns, nt)
            res.evaluations += 1
            res.count("predict.cls." + cls)
            if n >= 11:
                res.nontrivial.add(common.short_hash(case))
            run_case(case, tmp, res, queue, rng)
        # 3. evaluate_model end to end
        for t in range(ctx.scale(50, 500, 250)):
            cls = rng.choice(["C", "I"])
            case = gen_eval_case(rng, cls, force_big=(t % 2 == 0))
            res.evaluations += 1
            res.count("evaluate.cls." + cls)
            res.count("evaluate.chains.%d" % len(case["chains"]))
            lens = [len(c["thetas"]) for c in case["chains"]]
            if any(c["size"] != len(c["thetas"]) for c in case["chains"]):
                res.count("evaluate.incomplete")
            if case["order"] != sorted(case["order"]):
                res.count("evaluate.shuffled")
            distinct = run_case(case, tmp, res, queue, rng)
            if distinct and (max(lens) >= 11 or len(set(lens)) >= 2):
                res.nontrivial.add(common.short_hash(case))
            if t < 2:
                res.sample({"kind": "evaluate", "cls": cls, "chain_lengths": lens, "order": case["order"]})
        # 4. in-memory concat (incl. incomplete holders and the empty list)
        for t in range(ctx.scale(100, 1500, 600)):
            k = 0 if t == 0 else rng.randint(1, 5)
            holders = []
            for _ in range(k):
                n = rng.randint(0, 13)
                holders.append([n + (0 if rng.random() < 0.7 else rng.randint(1, 3)), n])
            case = {"kind": "concat", "holders": holders}
            res.evaluations += 1
            res.count("concat.k.%d" % k)
            if len({n for _, n in holders}) >= 2:
                res.nontrivial.add(common.short_hash(case))
            run_case(case, tmp, res, queue, rng)
        # 5. refusals
        for t in range(ctx.scale(80, 600, 300)):
            size = rng.randint(0, 6)
            n = rng.randint(0, size)
            op = rng.choice(["add", "get", "get", "save-empty"])
            case = {"kind": "refusal", "op": op, "size": size, "n": n, "index": rng.randint(-3, size + 2)}
            res.evaluations += 1
            res.count("refusal." + op)
            run_case(case, tmp, res, queue, rng)
        # ---- model
        if ctx.driver is not None:
            got = ctx.driver.ask(lines)
            for l, e, g, (where, case, canon) in zip(lines, expect, got, meta):
                if canon:
                    g = canon_file_line(g)
                if e != g:
                    res.disagree("C10:" + where, case if len(l) < 4000 else {"kind": case.get("kind"), "line_head": l[:500]}, e[:600], g[:600])
            res.traces_validated += len(lines)
    finally:
        shutil.rmtree(tmp, ignore_errors=True)


def replay(ctx, case, res):
    tmp = tempfile.mkdtemp(prefix="verif_c10_")
    try:
        run_case(case, tmp, res, lambda *a, **k: None, __import__("random").Random(0))
    finally:
        shutil.rmtree(tmp, ignore_errors=True)
