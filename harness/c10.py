"""C10 -- posterior-sample collections persist exactly and keep chain-major order.

Tie: the Lean model `Batchie.Model.Thetas` (driver_c10) is run on the same inputs as the real
`ThetaHolder.save_h5 / load_h5 / concat / add_theta / get_theta` and `cli.evaluate_model.main()`:
  * save: the file the real code writes (read back raw with h5py) == the model's `save`;
  * load: the model's `load` of the raw group listing -- in HDF5's (alphabetical) order AND in a
    shuffled order -- == what the real `load_h5` returns;
  * concat / evaluate / refusals on tagged holders.
Oracles (implementation only): reloaded holder == saved holder (declared size, number, order, every
parameter by dtype/shape/bit pattern, the single-effect table), predictions before/after reload
byte-identical, concat chain-major, evaluate_model's chain ids aligned with its prediction columns
for any file order (each case in its order and reversed), the three refusals, independence of combine/concat results and operands
(no aliasing in either direction; operands reusable), save_h5 leaves the in-memory holder unchanged.

Every oracle failure carries a JSON case from which `replay` re-executes exactly that case.
"""
import contextlib
import io
import logging
import os
import shutil
import struct
import sys
import tempfile

import numpy as np

from vlib import common

common.use_repo_sources()

RULE = ("holders of 1-25 samples (thorough: up to 40) of both shipped sample types with arbitrary float64 bit patterns "
        "(denormals, -0.0, inf, quiet/signalling NaN payloads, values that do not survive float32), float32/int64 arrays, empty "
        "arrays, python/numpy scalars, declared size >= number of samples, single-effect tables incl. the empty one; real "
        "save_h5/load_h5; 'predictable' holders on a real Screen (predictions before/after reload compared bytewise); 1-4 chains "
        "of unequal length (half of them with a total divisible by the number of files) saved to files, shuffled file order AND the reversed "
        "order on the same files, real evaluate_model.main(); arrays in C / Fortran / strided / read-only layout; the saved holder is "
        "compared with its pre-save snapshot; in-memory concat incl. incomplete holders, expectation from a snapshot taken before the "
        "call; reuse sequences concat([A,B,..]) -> concat([A,C]) -> A.combine(B) -> add_theta on results and on A (operands and earlier "
        "results must be unchanged, A must still refuse growth / out-of-range access); refusals; saved files edited with h5py (declared size "
        "below the number of groups, non-numeric group name, missing / unexpected parameter, missing shared parameter) loaded by code and model (tie only). Hardening classes: holders as temporaries of equal size/shape in a loop (save, load, concat, get_theta; "
        "reference objects kept alive), save_h5 twice to the same path with a smaller collection filled by add_theta + merge-then-save, a collection "
        "filled by one interaction model between instalments of add_observations (shared single-effect table), 127..129 / 255..257 samples, array "
        "dimension and table ids at 2^7, 2^8, 2^15, 2^16, 2^31, 2^32, 129-130 chain files. The oracle compares every attribute found by introspection "
        "(dict-valued ones as sets of entries); exception classes, dict order, concat([]) and hand-edited files are compared with the model only. Entry points (item 18): chain files "
        "through the real calculate_scores.main() / calculate_distance_matrix.main() with probing plug-in scorer / metric (what the core receives: samples in "
        "chain-major command-line order read via .thetas, iteration and get_theta; -1..-len, len refused; no growth; matrix entry (i,j) from samples i, j). "
        "Verbose logging (item 19): every sixth case of every stream under vlib.common.verbose_logging(), commands with --verbose. Non-trivial: >= 11 samples in one file (so that '10' < '2' alphabetically matters) or >= 2 chains of "
        "unequal length.")

SPECIAL64 = [0x0000000000000000, 0x8000000000000000, 0x0000000000000001, 0x800fffffffffffff, 0x000fffffffffffff,
             0x7ff0000000000000, 0xfff0000000000000, 0x7ff8000000000000, 0x7ff8000000000001, 0xfff8dead0000beef,
             0x7ff0000000000001, 0x3ff0000000000001, 0x3fb999999999999a, 0x47efffffffffffff, 0x36a0000000000000,
             0x7fefffffffffffff, 0x3ff0000010000000, 0x400921fb54442d18]
SPECIAL32 = [0x00000000, 0x80000000, 0x00000001, 0x7f800000, 0x7fc00001, 0x7fa00000, 0x3f800001, 0x7f7fffff]


# ------------------------------------------------------------------ value generation / canonical encoding
def gen_bits64(rng):
    r = rng.random()
    if r < 0.45:
        return rng.choice(SPECIAL64)
    if r < 0.8:
        return rng.getrandbits(64)
    return struct.unpack("<Q", struct.pack("<d", rng.gauss(0, 1)))[0]


def gen_val(rng, scalar, allow_exotic=True):
    """JSON-able description of one parameter value"""
    if scalar:
        k = rng.choice(["pf", "pf", "f8", "f4", "pi", "i8"]) if allow_exotic else "pf"
        if k in ("pf", "f8"):
            return {"k": k, "bits": [gen_bits64(rng)]}
        if k == "f4":
            return {"k": k, "bits": [rng.choice(SPECIAL32) if rng.random() < 0.5 else rng.getrandbits(32)]}
        return {"k": k, "bits": [rng.randrange(-2 ** 40, 2 ** 40)]}
    nd = rng.choice([1, 1, 2, 2, 3])
    shape = [rng.choice([0, 1, 1, 2, 3, 4]) for _ in range(nd)]
    n = int(np.prod(shape))
    k = rng.choice(["f8", "f8", "f8", "f8", "f4", "i8"]) if allow_exotic else "f8"
    if k == "f8":
        bits = [gen_bits64(rng) for _ in range(n)]
    elif k == "f4":
        bits = [rng.choice(SPECIAL32) if rng.random() < 0.5 else rng.getrandbits(32) for _ in range(n)]
    else:
        bits = [rng.randrange(-2 ** 62, 2 ** 62) for _ in range(n)]
    v = {"k": k, "shape": shape, "bits": bits}
    if allow_exotic and rng.random() < 0.35:
        # memory layout of the array handed to save_h5: Fortran order, a strided (non-contiguous) view, read-only
        v["layout"] = rng.choice(["F", "strided", "ro", "strided-ro"])
    return v


def build_val(v):
    k, bits = v["k"], v["bits"]
    if "shape" not in v:
        if k == "pf":
            return struct.unpack("<d", struct.pack("<Q", bits[0]))[0]
        if k == "f8":
            return np.array(bits, dtype="<u8").view("<f8")[0]
        if k == "f4":
            return np.array(bits, dtype="<u4").view("<f4")[0]
        if k == "pi":
            return int(bits[0])
        return np.int64(bits[0])
    if k == "f8":
        a = np.array(bits, dtype="<u8").view("<f8")
    elif k == "f4":
        a = np.array(bits, dtype="<u4").view("<f4")
    else:
        a = np.array(bits, dtype="<i8")
    a = a.reshape(v["shape"]).copy()
    layout = v.get("layout", "")
    if layout == "F":
        a = np.asfortranarray(a)
    elif layout.startswith("strided"):
        big = np.zeros((2 * a.shape[0],) + a.shape[1:], dtype=a.dtype)
        big[::2] = a
        a = big[::2]                     # same values, not contiguous (unless a dimension is 0 or 1)
    if layout.endswith("ro"):
        a.setflags(write=False)
    return a


def canon_val(x):
    """`<dtype>:<shape>:<bits>` of a Python / numpy object as the model encodes it"""
    if isinstance(x, np.ndarray):
        shape = "a" + "x".join(str(d) for d in x.shape)
        flat = np.ascontiguousarray(x).reshape(-1)
        if x.dtype == np.float64:
            tag, vals = 0, flat.view("<u8").tolist()
        elif x.dtype == np.float32:
            tag, vals = 1, flat.view("<u4").tolist()
        elif x.dtype == np.int64:
            tag, vals = 2, flat.tolist()
        elif x.dtype == np.bool_:
            tag, vals = 3, [int(b) for b in flat.tolist()]
        else:
            tag, vals = 99, [repr(x.dtype)]
        return "%d:%s:%s" % (tag, shape, ",".join(str(v) for v in vals) if len(vals) else "-")
    if isinstance(x, (bool, np.bool_)):
        return "3:s:%d" % int(x)
    if isinstance(x, np.float32):
        return "1:s:%d" % np.array([x], dtype="<f4").view("<u4")[0]
    if isinstance(x, (float, np.float64)):
        return "0:s:%d" % np.array([x], dtype="<f8").view("<u8")[0]
    if isinstance(x, (int, np.integer)):
        return "2:s:%d" % int(x)
    return "99:s:%r" % (x,)


def fbits(x):
    return int(np.array([x], dtype="<f8").view("<u8")[0])


def show_table(t):
    items = list(t.items())
    if not items:
        return "-"
    return ";".join("%d,%d,%d" % (int(k[0]), int(k[1]), fbits(v)) for k, v in items)


def show_sample(th):
    name = type(th).__name__
    if name == "SparseDrugComboMCMCSample":
        return "|".join(["C"] + [canon_val(getattr(th, f)) for f in ("W", "W0", "V2", "V1", "V0", "alpha", "precision")])
    if name == "SparseDrugComboInteractionMCMCSample":
        return "|".join(["I", canon_val(th.W), canon_val(th.V2), canon_val(th.precision), show_table(th.single_effect_lookup)])
    return "?" + name


def full_sample(th):
    """canonical form for the ORACLE: every attribute found by introspection (vars), dict-valued attributes as sorted entries -- the
    property speaks of parameter VALUES; the insertion order of the single-effect dict is only compared with the model (tie)"""
    parts = [type(th).__name__]
    for k in sorted(vars(th)):
        v = getattr(th, k)
        if isinstance(v, dict):
            parts.append(k + "={" + ";".join(sorted("%d,%d,%d" % (int(a[0]), int(a[1]), fbits(b)) for a, b in v.items())) + "}")
        else:
            parts.append(k + "=" + canon_val(v))
    return "|".join(parts)


def full_holder(h):
    return " ".join(["ok", str(int(h.n_thetas))] + [full_sample(t) for t in h.thetas])


def first_diff(want, got):
    a, b = want.split(" "), got.split(" ")
    idx = next((i for i in range(min(len(a), len(b))) if a[i] != b[i]), min(len(a), len(b)))
    return {"first_difference_token": idx, "saved": a[idx][:200] if idx < len(a) else None, "loaded": b[idx][:200] if idx < len(b) else None,
            "n_loaded": len(b) - 2}


def show_holder(h):
    return " ".join(["ok", str(int(h.n_thetas))] + [show_sample(t) for t in h.thetas])


def err_tok(e):
    return "err:" + type(e).__name__


# ------------------------------------------------------------------ building holders from cases
def build_theta(cls, d, table):
    from batchie.models.sparse_combo import SparseDrugComboMCMCSample
    from batchie.models.sparse_combo_interaction import SparseDrugComboInteractionMCMCSample
    kw = {k: build_val(v) for k, v in d.items()}
    if cls == "C":
        return SparseDrugComboMCMCSample(**kw)
    tb = {(int(a), int(b)): struct.unpack("<d", struct.pack("<Q", int(c)))[0] for a, b, c in table}
    return SparseDrugComboInteractionMCMCSample(single_effect_lookup=tb, **kw)


def build_holder(case):
    from batchie.core import ThetaHolder
    h = ThetaHolder(n_thetas=case["size"])
    for d in case["thetas"]:
        h.thetas.append(build_theta(case["cls"], d, case.get("table", [])))
    return h


def gen_roundtrip_case(rng, n_max):
    cls = rng.choice(["C", "I"])
    r = rng.random()
    n = rng.randint(11, n_max) if r < 0.55 else rng.randint(1, 10)
    size = n if rng.random() < 0.6 else n + rng.randint(1, 5)
    fields_a = ("W", "W0", "V2", "V1", "V0") if cls == "C" else ("W", "V2")
    fields_s = ("alpha", "precision") if cls == "C" else ("precision",)
    thetas = []
    for _ in range(n):
        d = {f: gen_val(rng, False) for f in fields_a}
        d.update({f: gen_val(rng, True) for f in fields_s})
        thetas.append(d)
    case = {"kind": "roundtrip", "cls": cls, "size": size, "thetas": thetas}
    if cls == "I":
        m = rng.choice([0, 0, 1, 2, 5])
        keys = set()
        while len(keys) < m:
            keys.add((rng.randint(0, 3), rng.randint(-1, 4)))
        keys = list(keys)
        rng.shuffle(keys)
        case["table"] = [[a, b, rng.choice(SPECIAL64[:7] + SPECIAL64[11:]) if rng.random() < 0.5 else gen_bits64(rng)] for a, b in keys]
    return case


# ------------------------------------------------------------------ raw file reading
def dict_tok(items):
    items = sorted(items)
    return "-" if not items else "/".join("%s=%s" % (k, v) for k, v in items)


def group_tok(g, rng=None):
    attrs = [(k, canon_val(v)) for k, v in g.attrs.items()]
    dsets = [(k, canon_val(g[k][()] if g[k].shape == () else g[k][:])) for k in g.keys()]
    return dict_tok(attrs) + "~" + dict_tok(dsets)


def read_raw(fn):
    """(header tokens, [key@group tokens] in the order h5py lists the children)"""
    import h5py
    with h5py.File(fn, "r") as f:
        cls = {"SparseDrugComboMCMCSample": "C", "SparseDrugComboInteractionMCMCSample": "I"}.get(str(f.attrs["theta_class"]), "?")
        sh = f["shared_params"]
        head = [str(int(f.attrs["n_thetas"])), cls, group_tok(sh)]
        pg = f["private_params"]
        groups = ["%s@%s" % (k, group_tok(pg[k])) for k in pg.keys()]
    return head, groups


def norm_group_names(groups):
    """group names are compared by their integer value (that is how load_h5 reads them): `000007` and `7` are the same name"""
    out = []
    for g in groups:
        k, tok = g.split("@", 1)
        try:
            k = str(int(k)) if k.strip().isdigit() else k
        except ValueError:
            pass
        out.append(k + "@" + tok)
    return out


def layout_unexpected(res, case, where, detail):
    """checklist item 20: the harness's own raw h5py access met a structure it does not know.  The file layout is not part of the property:
    this is a broken TIE (counter + disagreement), never an oracle failure and never a crash; the oracles go through save_h5 / load_h5."""
    res.count("layout.unexpected")
    res.count("layout.unexpected." + where)
    res.disagree("C10:raw-file-layout:" + where, {"kind": case.get("kind"), "cls": case.get("cls")}, "harness raw read: " + str(detail)[:300],
                 "the layout harness/c10.py knows (root attrs n_thetas / theta_class, groups shared_params and private_params/<index>)")


def read_raw_safe(fn, res, case, where):
    try:
        return read_raw(fn)
    except Exception as e:
        layout_unexpected(res, case, where, err_tok(e) + ": " + str(e))
        return None


def canon_file_line(line):
    """sort the group tokens and the dict entries of a model `c10.save` answer"""
    toks = line.split(" ")
    if toks[0] != "ok":
        return line

    def cg(g):
        a, d = g.split("~")
        return "~".join("-" if x == "-" else "/".join(sorted(x.split("/"), key=lambda e: tuple(e.split("=")))) for x in (a, d))

    head = toks[1:3] + [cg(toks[3])]
    groups = sorted("%s@%s" % (t.split("@")[0], cg(t.split("@")[1])) for t in toks[4:])
    return " ".join(["ok"] + head + groups)


# ------------------------------------------------------------------ screens for predictions
def make_screen(rng, n_samples, n_treat, n_rows, masked_plates=0):
    """masked_plates = m > 0: rows are spread over m+1 plates, all but the first unobserved (the scoring command needs unobserved plates)"""
    from batchie.data import Screen
    tn, td, sn = [], [], []
    # make sure every sample and every treatment occurs so that ids are 0..n-1
    for r in range(max(n_rows, n_samples, n_treat)):
        a = "t%d" % (r % n_treat)
        b = "t%d" % rng.randrange(n_treat) if rng.random() < 0.8 else "control"
        if rng.random() < 0.5:
            a, b = b, a
        tn.append([a, b])
        td.append([1.0, 1.0])
        sn.append("s%d" % (r % n_samples))
    n = len(sn)
    if masked_plates:
        pl = [r % (masked_plates + 1) for r in range(n)]
        return Screen(observations=np.array([rng.random() for _ in range(n)]), observation_mask=np.array([p == 0 for p in pl], dtype=bool),
                      sample_names=np.array(sn, dtype=str), plate_names=np.array(["p%d" % p for p in pl], dtype=str),
                      treatment_names=np.array(tn, dtype=str), treatment_doses=np.array(td), control_treatment_name="control")
    return Screen(observations=np.array([rng.random() for _ in range(n)]), observation_mask=np.ones(n, dtype=bool),
                  sample_names=np.array(sn, dtype=str), plate_names=np.array(["p"] * n, dtype=str),
                  treatment_names=np.array(tn, dtype=str), treatment_doses=np.array(td), control_treatment_name="control")


def gen_predictable(rng, cls, n, n_samples, n_treat, D):
    """JSON-able thetas with consistent shapes and finite moderate values"""
    def arr(shape):
        m = int(np.prod(shape))
        return {"k": "f8", "shape": list(shape), "bits": [struct.unpack("<Q", struct.pack("<d", rng.gauss(0, 0.7)))[0] for _ in range(m)]}

    def sc(x):
        return {"k": "pf", "bits": [struct.unpack("<Q", struct.pack("<d", x))[0]]}
    thetas = []
    for _ in range(n):
        if cls == "C":
            thetas.append({"W": arr((n_samples, D)), "W0": arr((n_samples,)), "V2": arr((n_treat, D)), "V1": arr((n_treat, D)),
                           "V0": arr((n_treat,)), "alpha": sc(rng.gauss(0, 1)), "precision": sc(0.5 + rng.random() * 10)})
        else:
            thetas.append({"W": arr((n_samples, D)), "V2": arr((n_treat, D)), "precision": sc(0.5 + rng.random() * 10)})
    return thetas


def gen_table(rng, n_samples, n_treat):
    tb = []
    pairs = [(s, t) for s in range(n_samples) for t in range(-1, n_treat)]
    rng.shuffle(pairs)
    for s, t in pairs:
        tb.append([s, t, struct.unpack("<Q", struct.pack("<d", 1.0 if t == -1 else 0.05 + 0.9 * rng.random()))[0]])
    return tb


@contextlib.contextmanager
def quiet():
    lg = logging.getLogger("batchie")
    old_handlers, old_level = list(lg.handlers), lg.level
    buf = io.StringIO()
    try:
        with contextlib.redirect_stdout(buf), contextlib.redirect_stderr(buf):
            yield
    finally:
        for h in list(lg.handlers):
            if h not in old_handlers:
                lg.removeHandler(h)
        lg.setLevel(old_level)


# ------------------------------------------------------------------ the cases
def run_roundtrip(case, tmp, res, queue, rng, check_model=True):
    """real save_h5 / load_h5 of one holder; oracle + model lines"""
    from batchie.core import ThetaHolder
    h = build_holder(case)
    fn = os.path.join(tmp, "rt.h5")
    want = show_holder(h)
    want_full = full_holder(h)
    try:
        h.save_h5(fn)
    except Exception as e:
        res.fail("save_h5 raises on a non-empty holder", case, err_tok(e) + ": " + str(e)[:200], "file written", signature="C10:save-raises")
        return
    raw = read_raw_safe(fn, res, case, "roundtrip")
    after_save = full_holder(h)
    if after_save != want_full:
        d = first_diff(want_full, after_save)
        res.fail("save_h5 changed the in-memory collection it was asked to save (the reloaded samples are no longer those held in memory)", case,
                 {"first_difference_token": d["first_difference_token"], "before": d["saved"], "after": d["loaded"]},
                 "saving leaves the samples untouched", signature="C10:save-mutates-holder")
    try:
        with quiet():
            back = ThetaHolder.load_h5(fn)
        got = show_holder(back)
        got_full = full_holder(back)
    except Exception as e:
        got = got_full = err_tok(e)
    if got_full != want_full:
        res.fail("reloaded holder differs from the saved one (size, number, order or a parameter bit pattern)", case,
                 first_diff(want_full, got_full), "bit-identical holder", signature="C10:reload-differs")
    if check_model and raw is not None:
        head, groups = raw
        samples = want.split(" ")[2:]
        queue("save", case, " ".join(["c10.save", str(case["size"])] + samples), " ".join(["ok"] + head + sorted(norm_group_names(groups))), canon=True)
        queue("load-h5order", case, " ".join(["c10.load"] + head + groups), got)
        sh = list(groups)
        rng.shuffle(sh)
        queue("load-shuffled", case, " ".join(["c10.load"] + head + sh), got)


def run_tamper(case, tmp, res, queue):
    """a file written by the real save_h5 is edited with h5py, then loaded by the real load_h5 and by the model: ties the refusing /
    error branches of the model's `load` (too many groups for the declared size, non-numeric group name, missing / unexpected
    parameter, missing shared parameter).  Oracle: a file declaring fewer samples than it holds groups is refused by code and model alike (tie only: malformed files are outside the property's quantifier)."""
    import h5py
    from batchie.core import ThetaHolder
    h = build_holder(case)
    fn = os.path.join(tmp, "tp.h5")
    h.save_h5(fn)
    n = len(case["thetas"])
    kind = case["tamper"]
    # the structure is DISCOVERED from the file (children of the group that holds one sub-group per sample, ordered by the integer value of
    # their names); names are not formatted by the harness.  Anything unexpected: tie + skip (checklist item 20).
    try:
        with h5py.File(fn, "r+") as f:
            pg = f["private_params"] if "private_params" in f else None
            if pg is None or len(pg) != n or not all(isinstance(pg[k], h5py.Group) for k in pg.keys()):
                cands = [g for g in f.values() if isinstance(g, h5py.Group) and len(g) == n and all(isinstance(g[k], h5py.Group) for k in g.keys())]
                if len(cands) != 1:
                    raise KeyError("no group with one sub-group per sample")
                pg = cands[0]
            keys = sorted(pg.keys(), key=int)
            target = keys[case["arg"] % n]
            if kind == "shrink":
                if "n_thetas" not in f.attrs:
                    raise KeyError("no root attribute n_thetas")
                f.attrs["n_thetas"] = case["arg"] % n                # 0 .. n-1 < number of groups
            elif kind == "badkey":
                pg.move(target, "x" + target)
            elif kind == "missing":
                ds = sorted(k for k in pg[target].keys() if isinstance(pg[target][k], h5py.Dataset))
                if not ds:
                    raise KeyError("sample group without datasets")
                del pg[target]["W" if "W" in ds else ds[0]]
            elif kind == "extra":
                pg[target].attrs["zzz"] = 1.5
            elif kind == "noshared":
                sg = f["shared_params"]
                ds = sorted(k for k in sg.keys())
                del sg["single_effect_lookup_keys1" if "single_effect_lookup_keys1" in ds else ds[0]]
    except Exception as e:
        layout_unexpected(res, case, "tamper", err_tok(e) + ": " + str(e))
        return
    raw = read_raw_safe(fn, res, case, "tamper")
    if raw is None:
        return
    head, groups = raw
    try:
        with quiet():
            back = ThetaHolder.load_h5(fn)
        got = show_holder(back)
    except Exception as e:
        got = err_tok(e)
    # hand-edited files are outside the property's quantifier: compared with the MODEL only (a difference is a broken tie, never a replay)
    queue("load-tampered-" + kind, case, " ".join(["c10.load"] + head + groups), got)


def run_zerodim(case, tmp, res, queue):
    """a 0-d numpy array among the parameters: h5py refuses to store it compressed (the model's `dictStorable` branch; the hypothesis
    `Saveable.storable` of C10_load_save)"""
    h = build_holder(case)
    j, f = case["arg"] % len(h.thetas), case["field"]
    setattr(h.thetas[j], f, np.array(getattr(h.thetas[j], f)).reshape(-1)[:1].reshape(()) if np.size(getattr(h.thetas[j], f)) else np.array(0.0))
    samples = show_holder(h).split(" ")[2:]
    try:
        h.save_h5(os.path.join(tmp, "zd.h5"))
        impl = "ok"
    except Exception as e:
        impl = err_tok(e)
    queue("save-zerodim", case, " ".join(["c10.save", str(case["size"])] + samples), impl, prefix=True)


def redraw(rng, v):
    """same kind / shape / layout, new bits"""
    w = dict(v)
    if v["k"] in ("pf", "f8"):
        w["bits"] = [gen_bits64(rng) for _ in v["bits"]]
    elif v["k"] == "f4":
        w["bits"] = [rng.getrandbits(32) for _ in v["bits"]]
    else:
        w["bits"] = [rng.randrange(-2 ** 40, 2 ** 40) for _ in v["bits"]]
    return w


def run_temporaries(case, tmp, res, queue):
    """checklist item 10: holders (and the samples in them) exist only as TEMPORARIES of equal size and shape inside a loop -- CPython
    hands freed addresses out again, so anything memoised by id(holder) / id(sample) (+ shape) returns another object's data.  Reference
    objects built first are kept alive during the loop so that their addresses are never reused."""
    from batchie.core import ThetaHolder
    variants = case["variants"]

    def spec(i):
        return {"cls": case["cls"], "size": case["size"], "thetas": variants[i], "table": case.get("tables", [[]] * len(variants))[i]}
    keep = [build_holder(spec(i)) for i in range(len(variants))]
    want = [full_holder(h) for h in keep]
    files = []
    sub = tempfile.mkdtemp(prefix="t_", dir=tmp)               # fresh paths: this class is about object lifetime, not about existing files
    for i in range(len(variants)):
        fn = os.path.join(sub, "tmp%d.h5" % i)
        build_holder(spec(i)).save_h5(fn)                      # the holder is garbage as soon as the statement ends
        files.append(fn)
    for rnd in range(2):
        for i, fn in enumerate(files):
            try:
                with quiet():
                    got = full_holder(ThetaHolder.load_h5(fn))      # temporary again
            except Exception as e:
                got = err_tok(e)
            if got != want[i]:
                res.fail("a collection that only existed as a temporary (one of several of equal size and shape, saved in a loop) does not come back "
                         "from its file: reloaded holder differs from the saved one", case, dict(first_diff(want[i], got), variant=i, round=rnd),
                         "bit-identical holder", signature="C10:reload-differs")
                return
    # concat / get_theta on temporaries
    for i in range(len(variants) - 1):
        with quiet():
            r = full_holder(ThetaHolder.concat([ThetaHolder.load_h5(files[i]), ThetaHolder.load_h5(files[i + 1])]))
            g = full_sample(ThetaHolder.load_h5(files[i]).get_theta(len(variants[i]) - 1))
        w = " ".join(["ok", str(2 * case["size"])] + want[i].split(" ")[2:] + want[i + 1].split(" ")[2:])
        if r != w:
            res.fail("concat of two temporaries (collections just loaded from files) is not chain-major", case, dict(first_diff(w, r), pair=i),
                     "first file's samples then the second's", signature="C10:concat-not-chain-major")
            return
        if g != want[i].split(" ")[-1]:
            res.fail("get_theta on a temporary collection returns another collection's sample", case, {"variant": i, "got": g[:200]},
                     want[i].split(" ")[-1][:200], signature="C10:reload-differs")
            return


def run_save_twice(case, tmp, res, queue):
    """checklist item 12: save_h5 twice to the SAME path with other content (the second, smaller collection filled by add_theta in
    instalments); merge-then-save.  Oracle: what is loaded is what was saved last.  Tie: the raw file == the model's file for the last save."""
    from batchie.core import ThetaHolder
    fn = os.path.join(tempfile.mkdtemp(prefix="s_", dir=tmp), "twice.h5")
    first = build_holder(case["first"])
    first.save_h5(fn)
    src = build_holder(case["second"])
    second = ThetaHolder(n_thetas=case["second"]["size"])
    for t in src.thetas:
        second.add_theta(t)                                     # instalments
    want, want_full = show_holder(second), full_holder(second)
    second.save_h5(fn)
    raw = read_raw_safe(fn, res, case, "save_twice")
    try:
        with quiet():
            back = ThetaHolder.load_h5(fn)
        got, got_full = show_holder(back), full_holder(back)
    except Exception as e:
        got = got_full = err_tok(e)
    if got_full != want_full:
        res.fail("a collection saved to a path that already held another (larger) saved collection does not come back: reloaded holder differs from "
                 "the one saved last", case, first_diff(want_full, got_full), "bit-identical holder", signature="C10:reload-differs")
    if raw is not None:
        head, groups = raw
        queue("save-twice", case, " ".join(["c10.save", str(case["second"]["size"])] + want.split(" ")[2:]), " ".join(["ok"] + head + sorted(norm_group_names(groups))), canon=True)
        queue("load-after-save-twice", case, " ".join(["c10.load"] + head + groups), got)
    # merge then save
    a, b = build_holder(case["first"]), build_holder({"cls": case["first"]["cls"], "size": 2, "thetas": case["first"]["thetas"][:2], "table": case["first"].get("table", [])})
    wm = " ".join(["ok", str(int(a.n_thetas) + int(b.n_thetas))] + full_holder(a).split(" ")[2:] + full_holder(b).split(" ")[2:])
    m = ThetaHolder.concat([a, b])
    fn2 = os.path.join(tmp, "merged.h5")
    m.save_h5(fn2)
    with quiet():
        gm = full_holder(ThetaHolder.load_h5(fn2))
    if gm != wm:
        res.fail("merge (concat) then save then load is not the chain-major concatenation of the two collections", case, first_diff(wm, gm),
                 "first collection's samples then the second's, declared size the sum", signature="C10:reload-differs")


def _inst_screen(case):
    from batchie.data import Screen
    rows = case["rows"]
    n = len(rows)
    return Screen(observations=np.array([r[4] for r in rows], dtype=float), observation_mask=np.ones(n, dtype=bool),
                  sample_names=np.array([r[0] for r in rows], dtype=str), plate_names=np.array([r[1] for r in rows], dtype=str),
                  treatment_names=np.array([[r[2], r[3]] for r in rows], dtype=str).reshape(n, 2),
                  treatment_doses=np.array([[1.0, 0.0 if r[3] == "control" else 1.0] for r in rows], dtype=float).reshape(n, 2),
                  control_treatment_name="control")


def run_instalments(case, tmp, res, queue):
    """checklist item 12 for the interaction sample's SHARED single-effect table: a real SparseDrugComboInteraction is fed plate by
    plate; after every instalment one Gibbs step is made and the model state goes into the collection.  The collection (as it is in memory
    when it is saved -- every attribute by introspection) must come back from its file, and predict identically."""
    from batchie.core import ThetaHolder
    from batchie.data import ExperimentSpace
    from batchie.models.sparse_combo_interaction import SparseDrugComboInteraction
    screen = _inst_screen(case)
    with quiet():
        m = SparseDrugComboInteraction(experiment_space=ExperimentSpace.from_screen(screen), n_embedding_dimensions=case["dims"])
        m.set_rng(np.random.default_rng(case["seed"]))
        plates = sorted(screen.plates, key=lambda p: p.plate_id)
        h = ThetaHolder(n_thetas=len(plates) * case["per"])
        for p in plates:
            m.add_observations(p)
            for _ in range(case["per"]):
                m.step()
                h.add_theta(m.get_model_state())
    want = full_holder(h)

    def preds(hh):
        out = []
        for t in hh.thetas:
            try:
                out.append(np.asarray(t.predict_viability(screen)).tobytes().hex())
            except Exception as e:
                out.append(err_tok(e))
        return out
    before = preds(h)
    fn = os.path.join(tmp, "inst.h5")
    h.save_h5(fn)
    with quiet():
        back = ThetaHolder.load_h5(fn)
    got = full_holder(back)
    if got != want:
        res.fail("a collection filled by ONE interaction model that received its observations in instalments (samples taken between the instalments) "
                 "does not come back from its file: reloaded holder differs from the saved one", case, first_diff(want, got), "bit-identical holder",
                 signature="C10:reload-differs")
        return False
    after = preds(back)
    if after != before:
        i = next(j for j in range(len(before)) if before[j] != after[j])
        res.fail("reloaded sample predicts differently (collection filled between instalments of add_observations)", case,
                 {"sample": i, "after": after[i][:80]}, {"before": before[i][:80]}, signature="C10:reload-predicts-differently")
    return len({full_sample(t).split("single_effect_lookup=")[1] for t in h.thetas}) == 1 and len(h.thetas[0].single_effect_lookup) > 0


def gen_instalments_case(rng):
    ns, nt = rng.randint(1, 3), rng.randint(2, 4)
    npl = rng.randint(2, 4)
    rows = []
    for s_ in range(ns):
        for t_ in range(nt):            # a single-drug row for every (sample, treatment), spread over the plates (later instalments ADD table entries)
            rows.append(["s%d" % s_, "p%d" % rng.randrange(npl), "t%d" % t_, "control", round(0.05 + 0.9 * rng.random(), 6)])
            if rng.random() < 0.3:      # a replicate in another instalment: the later mean replaces the earlier one
                rows.append(["s%d" % s_, "p%d" % rng.randrange(npl), "t%d" % t_, "control", round(0.05 + 0.9 * rng.random(), 6)])
    for _ in range(rng.randint(3, 8)):
        a = rng.randrange(nt)
        rows.append(["s%d" % rng.randrange(ns), "p%d" % rng.randrange(npl), "t%d" % a, "t%d" % ((a + rng.randint(1, nt - 1)) % nt), round(0.05 + 0.9 * rng.random(), 6)])
    for j in range(npl):                # every plate non-empty
        rows.append(["s0", "p%d" % j, "t0", "t1", round(0.05 + 0.9 * rng.random(), 6)])
    rng.shuffle(rows)
    return {"kind": "instalments", "rows": rows, "dims": rng.randint(1, 2), "per": rng.randint(1, 6), "seed": rng.getrandbits(31)}


def gen_sized_case(rng, lo, hi):
    c = gen_roundtrip_case(rng, 25)
    n = min(len(c["thetas"]), rng.randint(lo, hi))
    c["thetas"] = c["thetas"][:n]
    c["size"] = n + rng.choice([0, 0, 1])
    return c


WIDTHS = [127, 128, 129, 255, 256, 257]
WIDE_IDS = [0, 126, 127, 128, 129, 254, 255, 256, 257, 32767, 32768, 65535, 65536, 2 ** 31 - 1, 2 ** 31, 2 ** 32 + 1]


def gen_width_case(rng, n):
    """checklist item 13: number of samples / declared size / an array dimension / ids in the single-effect table straddling 127|128, 255|256|257
    (and 2^15, 2^16, 2^31, 2^32) through save and load"""
    cls = rng.choice(["C", "I"])
    fields_a = ("W", "W0", "V2", "V1", "V0") if cls == "C" else ("W", "V2")
    fields_s = ("alpha", "precision") if cls == "C" else ("precision",)
    big = rng.choice(WIDTHS)
    thetas = []
    for j in range(n):
        d = {f: {"k": "f8", "shape": [1], "bits": [gen_bits64(rng)]} for f in fields_a}
        if j in (0, n - 1):
            d["W"] = {"k": "f8", "shape": [big, 1], "bits": [gen_bits64(rng) for _ in range(big)]}
        d.update({f: {"k": "pf", "bits": [gen_bits64(rng)]} for f in fields_s})
        thetas.append(d)
    case = {"kind": "roundtrip", "cls": cls, "size": n + rng.choice([0, 0, 1]), "thetas": thetas, "width": n}
    if cls == "I":
        ids = list(WIDE_IDS)
        rng.shuffle(ids)
        case["table"] = [[a, b, gen_bits64(rng)] for a, b in zip(ids, [-1] + ids[:-1])]
    return case


def run_predict(case, tmp, res):
    """predictions of every sample before and after the round trip, bytewise"""
    from batchie.core import ThetaHolder
    srng = __import__("random").Random(case["screen_seed"])
    screen = make_screen(srng, case["n_samples"], case["n_treat"], case["n_rows"])
    h = build_holder(case)
    fn = os.path.join(tmp, "pr.h5")
    before = [(t.predict_viability(screen), t.predict_conditional_mean(screen), t.predict_conditional_variance(screen)) for t in h.thetas]
    h.save_h5(fn)
    with quiet():
        back = ThetaHolder.load_h5(fn)
    if len(back.thetas) != len(h.thetas):
        res.fail("reload changes the number of samples", case, len(back.thetas), len(h.thetas), signature="C10:reload-differs")
        return
    for i, t in enumerate(back.thetas):
        after = (t.predict_viability(screen), t.predict_conditional_mean(screen), t.predict_conditional_variance(screen))
        for nm, x, y in zip(("viability", "mean", "variance"), before[i], after):
            if np.asarray(x).tobytes() != np.asarray(y).tobytes() or np.asarray(x).dtype != np.asarray(y).dtype:
                res.fail("reloaded sample predicts differently (%s)" % nm, case, {"sample": i, "after": np.asarray(y).tolist()[:6]},
                         {"before": np.asarray(x).tolist()[:6]}, signature="C10:reload-predicts-differently")
                return


def run_evaluate(case, tmp, res, queue):
    """1-4 chain files, shuffled order, real evaluate_model.main()"""
    from batchie.cli import evaluate_model
    from batchie.core import ThetaHolder
    from batchie.models.main import ModelEvaluation
    srng = __import__("random").Random(case["screen_seed"])
    screen = make_screen(srng, case["n_samples"], case["n_treat"], case["n_rows"])
    sfn = os.path.join(tmp, "screen.h5")
    screen.save_h5(sfn)
    files, preds, tags, light = [], {}, {}, []
    tag = 0
    for ci, ch in enumerate(case["chains"]):
        hc = {"cls": case["cls"], "size": ch["size"], "thetas": ch["thetas"], "table": case.get("table", [])}
        h = build_holder(hc)
        fn = os.path.join(tmp, "chain%d.h5" % ci)
        h.save_h5(fn)
        files.append(fn)
        tl = []
        for t in h.thetas:
            preds[tag] = np.asarray(t.predict_viability(screen)).astype(np.float32)
            tl.append(tag)
            tag += 1
        tags[ci] = tl
    distinct = len({p.tobytes() for p in preds.values()}) == len(preds)
    orders = [list(case["order"])]
    if case.get("both_orders") and len(case["order"]) >= 2:
        orders.append(list(reversed(case["order"])))          # the same files, the other way round on the command line
    for oi, order in enumerate(orders):
        out = os.path.join(tmp, "me%d.h5" % oi)
        argv = ["evaluate_model", "--screen", sfn, "--thetas"] + [files[i] for i in order] + ["--output", out] + (["--verbose"] if case.get("verbose") else [])
        old = sys.argv
        sys.argv = argv
        try:
            with quiet():
                evaluate_model.main()
            me = ModelEvaluation.load_h5(out)
            impl_err = None
        except Exception as e:
            impl_err = e
        finally:
            sys.argv = old
        light = ["%d:%s" % (case["chains"][i]["size"], ",".join(str(x) for x in tags[i]) if tags[i] else "-") for i in order]
        complete = all(case["chains"][i]["size"] == len(tags[i]) for i in order)
        if impl_err is not None:
            impl = err_tok(impl_err)
            if complete:
                res.fail("evaluate_model raises on complete chain files", case, {"file_order": order, "error": impl + ": " + str(impl_err)[:200]},
                         "a ModelEvaluation", signature="C10:evaluate-raises")
        else:
            expected = [(pos, tg) for pos, i in enumerate(order) for tg in tags[i]]
            cids = [int(x) for x in me.chain_ids]
            P = np.asarray(me.predictions)
            cols = []
            ok = P.shape[1] == len(expected) and len(cids) == len(expected)
            if ok:
                for j, (pos, tg) in enumerate(expected):
                    match = [g for g, p in preds.items() if p.tobytes() == np.ascontiguousarray(P[:, j]).astype(np.float32).tobytes()]
                    cols.append("%d:%s" % (cids[j], "/".join(str(m) for m in match) if len(match) == 1 else "?%d" % len(match)))
                    if cids[j] != pos or preds[tg].tobytes() != np.ascontiguousarray(P[:, j]).astype(np.float32).tobytes():
                        ok = False
            if not ok:
                res.fail("evaluate_model: chain id of a prediction column is not the index of the file its sample came from "
                         "(or the columns are not in chain-major order)", case,
                         {"file_order": order, "samples_per_file": [len(tags[i]) for i in order], "chain_ids": cids,
                          "columns(chain_id:sample tag)": cols, "n_columns": int(P.shape[1])},
                         {"columns(chain_id:sample tag)": ["%d:%d" % e for e in expected]}, signature="C10:chain-ids-misaligned")
            impl = "ok " + (",".join(cols) if cols else "-")
        if distinct:
            queue("evaluate" if oi == 0 else "evaluate-reversed", case, " ".join(["c10.eval"] + light), impl)
    return distinct


# ------------------------------------------------------------------ checklist item 18: the commands that LOAD collections
PROBE = []


def _install_probes():
    """plug-in classes the commands find through introspection.get_class (any attribute of a batchie module)"""
    import batchie.distance.mse as dm
    import batchie.scoring.size as sz
    from batchie.core import DistanceMetric, Scorer

    class VerifThetaProbe(Scorer):
        """records the collection the scoring command hands to the scorer, read three ways, and probes the refusals on THAT object"""

        def score(self, *args, **kwargs):
            # checklist item 21: any positional / keyword form; the arguments are identified by NAME through the base class's signature,
            # and by TYPE when that fails -- a call the probe cannot interpret is recorded (tie), never raised
            import inspect
            from batchie.core import ThetaHolder as _TH
            try:
                b = inspect.signature(Scorer.score).bind(self, *args, **kwargs).arguments
                plates, samples = b["plates"], b["samples"]
            except Exception as e:
                vals = list(args) + list(kwargs.values())
                plates = next((v for v in vals if isinstance(v, dict)), None)
                samples = next((v for v in vals if isinstance(v, _TH)), None)
                if plates is None or samples is None:
                    PROBE.append({"wrapper_error": err_tok(e) + ": " + str(e)[:200]})
                    return {k: 0.0 for k in (plates or {})}
            n = len(samples.thetas)
            rec = {"n_thetas": int(samples.n_thetas), "thetas": [full_sample(t) for t in samples.thetas], "iter": [full_sample(t) for t in samples]}
            via, refused = [], {}
            for i in range(n):
                try:
                    via.append(full_sample(samples.get_theta(i)))
                except Exception as e:
                    via.append(err_tok(e))
            for i in list(range(-n, 0)) + [n, n + 1]:
                try:
                    samples.get_theta(i)
                    refused[i] = False
                except Exception:
                    refused[i] = True
            try:
                samples.add_theta(samples.thetas[0])
                grew = True
                samples.thetas.pop()
            except Exception:
                grew = False
            rec.update(via_get=via, refused=refused, grew=grew)
            PROBE.append(rec)
            return {k: 0.0 for k in plates}

    class VerifPairProbe(DistanceMetric):
        """records the two prediction vectors of every call; the returned distance is the call number"""

        def distance(self, *args, **kwargs):
            import inspect
            try:
                bnd = inspect.signature(DistanceMetric.distance).bind(self, *args, **kwargs).arguments
                arrs = [np.asarray(bnd["a"]), np.asarray(bnd["b"])]
            except Exception:
                arrs = [v for v in list(args) + list(kwargs.values()) if isinstance(v, np.ndarray)]
            if len(arrs) < 2:
                PROBE.append({"wrapper_error": "distance called with %d arrays" % len(arrs)})
                return 0.0
            PROBE.append((arrs[0].tobytes(), arrs[1].tobytes()))
            return float(sum(1 for r in PROBE if isinstance(r, tuple)))
    sz.VerifThetaProbe = VerifThetaProbe
    dm.VerifPairProbe = VerifPairProbe


def _in_harness(exc):
    """the innermost frame of the exception is harness code (a probe / wrapper of ours), not the implementation"""
    tb = exc.__traceback__
    last = None
    while tb is not None:
        last = tb
        tb = tb.tb_next
    return last is not None and os.path.abspath(last.tb_frame.f_code.co_filename) == os.path.abspath(__file__)


def wrapper_unexpected(res, case, where, detail):
    """checklist item 21: a probe / recording wrapper of the harness met a call it cannot interpret: broken tie, never an oracle failure"""
    res.count("wrapper.unexpected-call")
    res.disagree("C10:recording-wrapper:" + where, {"kind": case.get("kind")}, "harness probe: " + str(detail)[:300], "a call form the probe can interpret")


def run_entry_points(case, tmp, res, queue):
    """per-chain files written by the real save_h5 are handed, in a shuffled command-line order, to the real `calculate_scores.main()` and
    `calculate_distance_matrix.main()` (load_h5 + concat + get_theta inside the command).  Oracle on what the core RECEIVES: the scorer gets
    exactly the saved samples in chain-major order of the command line (declared size = sum), the object refuses negative indices -1..-len,
    index len and further growth; the distance metric gets, for entry (i, j) of the written matrix, the predictions of samples i and j of that order."""
    from batchie.cli import calculate_distance_matrix, calculate_scores
    from batchie.distance_calculation import ChunkedDistanceMatrix
    _install_probes()
    sub = tempfile.mkdtemp(prefix="e_", dir=tmp)
    srng = __import__("random").Random(case["screen_seed"])
    screen = make_screen(srng, case["n_samples"], case["n_treat"], case["n_rows"], masked_plates=2)
    sfn = os.path.join(sub, "screen.h5")
    screen.save_h5(sfn)
    files, fulls, preds = [], {}, {}
    for ci, ch in enumerate(case["chains"]):
        h = build_holder({"cls": case["cls"], "size": ch["size"], "thetas": ch["thetas"], "table": case.get("table", [])})
        fn = os.path.join(sub, "chain%d.h5" % ci)
        h.save_h5(fn)
        files.append(fn)
        fulls[ci] = [full_sample(t) for t in h.thetas]
        preds[ci] = [np.asarray(t.predict_viability(screen)).tobytes() for t in h.thetas]
    order = case["order"]
    exp = [x for i in order for x in fulls[i]]
    exp_pred = [x for i in order for x in preds[i]]
    n = len(exp)
    vflag = ["--verbose"] if case.get("verbose") else []
    old = sys.argv
    # ---- calculate_scores
    dmf, out = os.path.join(sub, "dm.h5"), os.path.join(sub, "scores.h5")
    dm = ChunkedDistanceMatrix(size=n)
    for i in range(n):
        for j in range(i):
            dm.add_value(i, j, float(i + j + 1))
    dm.save(dmf)
    del PROBE[:]
    sys.argv = ["calculate_scores", "--scorer", "VerifThetaProbe", "--data", sfn, "--thetas"] + [files[i] for i in order] + \
               ["--distance-matrix", dmf, "--output", out, "--seed", "0"] + vflag
    harness_exc = False
    try:
        with quiet():
            calculate_scores.main()
        err = None
    except Exception as e:
        err = err_tok(e) + ": " + str(e)[:200]
        harness_exc = _in_harness(e)
    finally:
        sys.argv = old
    werr = [r["wrapper_error"] for r in PROBE if isinstance(r, dict) and "wrapper_error" in r]
    recs = [r for r in PROBE if isinstance(r, dict) and "wrapper_error" not in r]
    if werr or harness_exc:
        wrapper_unexpected(res, case, "calculate_scores", werr[0] if werr else err)
    elif err is not None or not recs:
        res.fail("calculate_scores on complete chain files does not reach the scorer", case, {"error": err, "file_order": order}, "the scorer is called",
                 signature="C10:entry-point:calculate_scores")
    else:
        r = recs[0]
        problems = []
        for name in ("thetas", "iter", "via_get"):
            if r[name] != exp:
                k = next((j for j in range(min(len(exp), len(r[name]))) if exp[j] != r[name][j]), min(len(exp), len(r[name])))
                problems.append("samples read through %s are not the saved samples in chain-major order of the command line (first difference at position %d of %d / %d)"
                                % ({"thetas": ".thetas", "iter": "iteration", "via_get": "get_theta(0..n-1)"}[name], k, len(r[name]), len(exp)))
        if r["n_thetas"] != sum(c["size"] for c in case["chains"]):
            problems.append("declared size %d is not the sum of the files' declared sizes %d" % (r["n_thetas"], sum(c["size"] for c in case["chains"])))
        served = sorted(i for i, ok in r["refused"].items() if not ok)
        if served:
            problems.append("out-of-range access served for indices %s (collection of %d samples)" % (served, n))
        if r["grew"]:
            problems.append("the complete collection accepted another sample")
        if problems:
            res.fail("calculate_scores: the collection the command loads from the chain files and hands to the scorer: " + problems[0], case,
                     {"file_order": order, "samples_per_file": [len(fulls[i]) for i in order], "all": problems[:5]}, "the saved samples, chain-major, refusing",
                     signature="C10:entry-point:calculate_scores")
    # ---- calculate_distance_matrix
    out2 = os.path.join(sub, "dist.h5")
    del PROBE[:]
    sys.argv = ["calculate_distance_matrix", "--data", sfn, "--thetas"] + [files[i] for i in order] + \
               ["--distance-metric", "VerifPairProbe", "--n-chunks", "1", "--chunk-index", "0", "--output", out2] + vflag
    harness_exc = False
    try:
        with quiet():
            calculate_distance_matrix.main()
        err = None
        m = ChunkedDistanceMatrix.load(out2)
    except Exception as e:
        err = err_tok(e) + ": " + str(e)[:200]
        harness_exc = _in_harness(e)
    finally:
        sys.argv = old
    calls = [r for r in PROBE if isinstance(r, tuple)]
    werr = [r["wrapper_error"] for r in PROBE if isinstance(r, dict) and "wrapper_error" in r]
    if werr or harness_exc:
        wrapper_unexpected(res, case, "calculate_distance_matrix", werr[0] if werr else err)
    elif err is not None:
        res.fail("calculate_distance_matrix raises on complete chain files", case, {"error": err, "file_order": order}, "a distance matrix",
                 signature="C10:entry-point:calculate_distance_matrix")
    else:
        cur = int(m.current_index)
        bad = None
        if cur != n * (n - 1) // 2 or len(calls) != cur:
            bad = "the matrix has %d entries / the metric was called %d times for %d samples" % (cur, len(calls), n)
        else:
            for k in range(cur):
                i, j, v = int(m.row_indices[k]), int(m.col_indices[k]), float(m.values[k])
                c = int(v) - 1
                if not (0 <= c < len(calls)) or not (0 <= i < n and 0 <= j < n) or calls[c] not in ((exp_pred[i], exp_pred[j]), (exp_pred[j], exp_pred[i])):      # the metric is symmetric by contract: either argument order
                    bad = "entry (%d, %d) of the written matrix was not computed from the predictions of samples %d and %d of the chain-major order" % (i, j, i, j)
                    break
        if bad:
            res.fail("calculate_distance_matrix: " + bad, case, {"file_order": order, "samples_per_file": [len(fulls[i]) for i in order]},
                     "entry (i, j) from samples i and j of the concatenation in command-line order", signature="C10:entry-point:calculate_distance_matrix")
    return n >= 2


class Tag:
    def __init__(self, t):
        self.t = t


def _tagged_holders(spec):
    """[(declared size, number of samples)] -> holders of Tag objects + their snapshots (size, [tags]) + light tokens"""
    from batchie.core import ThetaHolder
    hs, snaps, light = [], [], []
    tag = 0
    for size, n in spec:
        h = ThetaHolder(n_thetas=size)
        for _ in range(n):
            h.thetas.append(Tag(tag))
            tag += 1
        hs.append(h)
        snaps.append((size, [t.t for t in h.thetas]))
        light.append("%d:%s" % (size, ",".join(str(t.t) for t in h.thetas) if h.thetas else "-"))
    return hs, snaps, light


def _state(h):
    return (int(h.n_thetas), [t.t for t in h.thetas])


def _light(st):
    return "%d:%s" % (st[0], ",".join(str(x) for x in st[1]) if st[1] else "-")


def run_concat(case, res, queue):
    """one concat; the expectation is computed from a snapshot taken BEFORE the call, and the operands must be unchanged after it"""
    from batchie.core import ThetaHolder
    hs, snaps, light = _tagged_holders(case["holders"])
    want = (sum(s for s, _ in snaps), [t for _, ts in snaps for t in ts])
    try:
        r = ThetaHolder.concat(list(hs))
        impl = "ok " + _light(_state(r))
        if _state(r) != want:
            res.fail("concat is not chain-major (or declared size is not the sum)", case,
                     {"thetas": _state(r)[1], "n_thetas": _state(r)[0]}, {"thetas": want[1], "n_thetas": want[0]},
                     signature="C10:concat-not-chain-major")
        changed = [i for i, h in enumerate(hs) if _state(h) != snaps[i]]
        if changed:
            i = changed[0]
            res.fail("concat changed one of the collections it was given (operand %d)" % i, case,
                     {"operand": i, "after": _light(_state(hs[i]))}, {"operand": i, "unchanged": _light(snaps[i])}, signature="C10:concat-aliases-operand")
    except Exception as e:
        impl = err_tok(e)
        if hs:
            res.fail("concat raises on a non-empty list", case, impl, "a holder", signature="C10:concat-raises")
        # concat([]) is not a clause of the property: its behaviour is compared with the model only
    queue("concat", case, " ".join(["c10.concat"] + light), impl)


def run_reuse(case, res, queue):
    """collections are used AGAIN after they were operands of combine/concat: concat([A,B,..]) then concat([A,C]), A.combine(B); the
    operands must be unchanged, the earlier results must be unchanged, growth of a result must not reach an operand (and vice versa),
    and A must still refuse growth beyond its declared size and out-of-range access"""
    from batchie.core import ThetaHolder
    hs, snaps, light = _tagged_holders(case["holders"])
    A, B, C = hs[0], hs[1], hs[2]
    first_idx = [0, 1] + list(range(3, len(hs)))
    problems = []

    def cat(idx):
        return (sum(snaps[i][0] for i in idx), [t for i in idx for t in snaps[i][1]])

    def operands(when, skip=()):
        for i, h in enumerate(hs):
            if i not in skip and _state(h) != snaps[i]:
                problems.append({"when": when, "what": "operand %d changed" % i, "observed": _light(_state(h)), "required": _light(snaps[i])})

    def same(when, name, r, want):
        if _state(r) != want:
            problems.append({"when": when, "what": name + " is not the chain-major concatenation of the operands as they were given",
                             "observed": _light(_state(r)), "required": _light(want)})
    try:
        r1 = ThetaHolder.concat([hs[i] for i in first_idx])
        w1 = cat(first_idx)
        same("concat(first list)", "result", r1, w1)
        operands("after concat(first list)")
        r2 = ThetaHolder.concat([A, C])
        w2 = cat([0, 2])
        same("concat([A, C]) after A was an operand", "result", r2, w2)
        same("after concat([A, C])", "the earlier result", r1, w1)
        operands("after concat([A, C])")
        r3 = A.combine(B)
        w3 = cat([0, 1])
        same("A.combine(B)", "result", r3, w3)
        operands("after A.combine(B)")
        results = [("concat(first list)", r1, w1), ("concat([A, C])", r2, w2), ("A.combine(B)", r3, w3)]
        # growth of a result must not reach an operand or another result
        for k, (name, r, w) in enumerate(results):
            if len(w[1]) < w[0]:
                r.add_theta(Tag(-10 - k))
                w = (w[0], w[1] + [-10 - k])
                results[k] = (name, r, w)
                same("add_theta on " + name, "that result", r, w)
                operands("after add_theta on the result of " + name)
                for name2, r_, w_ in results:
                    same("after add_theta on the result of " + name, "result of " + name2, r_, w_)
        # A after having been an operand three times: refusals
        sizeA, tagsA = snaps[0]
        try:
            A.get_theta(len(tagsA))
            problems.append({"when": "A.get_theta(len(A)) after A was an operand", "what": "out-of-range access served", "observed": "a sample", "required": "a refusal"})
        except Exception:
            pass
        try:
            A.add_theta(Tag(-1))
            grew = True
        except Exception:
            grew = False
        if grew and len(tagsA) >= sizeA:
            problems.append({"when": "A.add_theta on a full A", "what": "A grew beyond its declared size", "observed": _light(_state(A)), "required": "a refusal"})
        if not grew and len(tagsA) < sizeA:
            problems.append({"when": "A.add_theta on A with room", "what": "refused although A holds %d of %d (as given)" % (len(tagsA), sizeA),
                             "observed": "refused; A = " + _light(_state(A)), "required": "appended"})
        if grew:
            snaps[0] = (sizeA, tagsA + [-1])
        operands("after add_theta on A")
        for name, r, w in results:
            same("after add_theta on operand A", "result of " + name, r, w)
        if not problems and any(r.thetas is h.thetas for _, r, _ in results for h in hs):
            res.count("reuse.shared_list_without_observable_effect")      # not behaviour the property speaks about: counted only
        impl1, impl2 = "ok " + _light(w1), "ok " + _light(w2)
    except Exception as e:
        problems.append({"when": "sequence", "what": "raised", "observed": err_tok(e) + ": " + str(e)[:200], "required": "no exception"})
        impl1 = impl2 = None
    if problems:
        res.fail("collections are not independent of the combine/concat calls they took part in: " + problems[0]["what"] + " (" + problems[0]["when"] + ")",
                 case, {"observed": problems[0]["observed"], "n_problems": len(problems), "all": [p["when"] + ": " + p["what"] for p in problems[:8]]},
                 problems[0]["required"], signature="C10:concat-aliases-operand")
    elif impl1 is not None:
        queue("reuse-concat1", case, " ".join(["c10.concat"] + [light[i] for i in first_idx]), impl1)
        queue("reuse-concat2", case, " ".join(["c10.concat", light[0], light[2]]), impl2)


def run_refusal(case, tmp, res, queue):
    from batchie.core import ThetaHolder
    size, n = case["size"], case["n"]
    h = ThetaHolder(n_thetas=size)
    for i in range(n):
        h.thetas.append(Tag(i))
    light = "%d:%s" % (size, ",".join(str(i) for i in range(n)) if n else "-")
    if case["op"] == "add":
        try:
            h.add_theta(Tag(99))
            impl = "ok %d:%s" % (size, ",".join(str(t.t) for t in h.thetas))
            if n >= size:
                res.fail("holder grows beyond its declared size", case, impl, "a refusal", signature="C10:refusal")
            elif [t.t for t in h.thetas] != list(range(n)) + [99]:
                res.fail("add_theta does not append", case, impl, "appended at the end", signature="C10:refusal")
        except Exception as e:
            impl = err_tok(e)
            if n < size:                     # the exception CLASS of a refusal is compared with the model only
                res.fail("add_theta refuses although the holder has room", case, impl, "appended", signature="C10:refusal")
        queue("add", case, "c10.add %s 99" % light, impl)
    elif case["op"] == "get":
        i = case["index"]
        try:
            t = h.get_theta(i)
            impl = "ok %d" % t.t
            if not (0 <= i < n) or t.t != i:
                res.fail("out-of-range access served (or wrong sample)", case, impl, "a refusal" if not (0 <= i < n) else i, signature="C10:refusal")
        except Exception as e:
            impl = err_tok(e)
            if 0 <= i < n:
                res.fail("get_theta refuses an in-range index", case, impl, "sample %d" % i, signature="C10:refusal")
        queue("get", case, "c10.get %s %d" % (light, i), impl)
    else:  # save empty
        e0 = ThetaHolder(n_thetas=size)
        fn = os.path.join(tmp, "empty.h5")
        try:
            e0.save_h5(fn)
            impl = "ok"
            res.fail("an empty holder was saved", case, "file written", "a refusal", signature="C10:refusal")
        except Exception as e:
            impl = err_tok(e)
        queue("save-empty", case, "c10.save %d" % size, impl)


def gen_eval_case(rng, cls, force_big):
    n_samples, n_treat, D = rng.randint(1, 3), rng.randint(2, 4), rng.randint(1, 3)
    k = rng.randint(1, 4)
    lens = [rng.randint(1, 6) for _ in range(k)]
    if force_big:
        lens[rng.randrange(k)] = rng.randint(11, 14)
    if k >= 2 and rng.random() < 0.5:
        # UNEQUAL sample counts whose total is divisible by the number of files: labelling by `total // n_chains` would be silent
        while len(set(lens)) < 2 or sum(lens) % k != 0:
            j = rng.randrange(k)
            lens[j] = lens[j] % 14 + 1
    chains = []
    for n in lens:
        size = n if rng.random() < 0.9 else n + 1      # an incomplete file now and then
        chains.append({"size": size, "thetas": gen_predictable(rng, cls, n, n_samples, n_treat, D)})
    order = list(range(k))
    rng.shuffle(order)
    case = {"kind": "evaluate", "cls": cls, "n_samples": n_samples, "n_treat": n_treat, "n_rows": rng.randint(3, 8),
            "screen_seed": rng.getrandbits(32), "chains": chains, "order": order, "both_orders": True}
    if cls == "I":
        case["table"] = gen_table(rng, n_samples, n_treat)
    return case


def run_case(case, tmp, res, queue, rng):
    """checklist item 19: a case marked verbose runs the way `-v/--verbose` runs (the commands additionally get --verbose)"""
    if case.get("verbose"):
        with common.verbose_logging():
            return _run_case(case, tmp, res, queue, rng)
    return _run_case(case, tmp, res, queue, rng)


def _run_case(case, tmp, res, queue, rng):
    k = case["kind"]
    if k == "roundtrip":
        run_roundtrip(case, tmp, res, queue, rng)
    elif k == "predict":
        run_predict(case, tmp, res)
    elif k == "tamper":
        run_tamper(case, tmp, res, queue)
    elif k == "temporaries":
        run_temporaries(case, tmp, res, queue)
    elif k == "save_twice":
        run_save_twice(case, tmp, res, queue)
    elif k == "instalments":
        return run_instalments(case, tmp, res, queue)
    elif k == "zerodim":
        run_zerodim(case, tmp, res, queue)
    elif k == "evaluate":
        return run_evaluate(case, tmp, res, queue)
    elif k == "entry":
        return run_entry_points(case, tmp, res, queue)
    elif k == "concat":
        run_concat(case, res, queue)
    elif k == "reuse":
        run_reuse(case, res, queue)
    elif k == "refusal":
        run_refusal(case, tmp, res, queue)
    return True


def run(ctx, res):
    res.rule = RULE
    rng = ctx.subrng("c10")
    tmp = tempfile.mkdtemp(prefix="verif_c10_")
    lines, expect, meta = [], [], []

    vcount = {"n": 0}

    def vb(case):
        """checklist item 19: every sixth case of every stream (deterministic) runs under verbose logging"""
        vcount["n"] += 1
        if vcount["n"] % 6 == 3:
            case["verbose"] = True
            res.count("class.verbose-logging")
            res.count("class.verbose-logging." + case["kind"])
        return case

    def queue(where, case, line, impl, canon=False, prefix=False):
        lines.append(line)
        expect.append(impl)
        meta.append((where, case, "prefix" if prefix else canon))

    n_max = 25 if ctx.tier == "quick" else 40
    try:
        # 0. hardening-checklist classes 10, 12, 13 -- FIRST: each case is self-contained (own loop / own path), so the replay of the
        #    first failure reproduces in a fresh process even when the defect needs history (a cache, a file that already exists)
        for t in range(ctx.scale(6, 60, 30)):                 # item 10: temporaries of equal size and shape
            base = gen_sized_case(rng, 2, 5)
            K = rng.randint(4, 6)
            case = {"kind": "temporaries", "cls": base["cls"], "size": len(base["thetas"]),
                    "variants": [base["thetas"]] + [[{f: redraw(rng, v) for f, v in th.items()} for th in base["thetas"]] for _ in range(K - 1)]}
            if base["cls"] == "I":
                case["tables"] = [[[a, b, gen_bits64(rng)] for a, b, _ in base["table"]] for _ in range(K)]
            res.evaluations += 1
            res.count("class.temporaries")
            res.nontrivial.add(common.short_hash(case))
            run_case(vb(case), tmp, res, queue, rng)
        for t in range(ctx.scale(10, 100, 50)):                # item 12: save twice to the same path / merge then save
            first, second = gen_sized_case(rng, 7, 14), gen_sized_case(rng, 1, 6)
            case = {"kind": "save_twice", "first": first, "second": second}
            res.evaluations += 1
            res.count("class.save_twice_same_path")
            if len(first["thetas"]) >= 11:
                res.count("class.save_twice_same_path.first_had_11plus")
            res.nontrivial.add(common.short_hash(case))
            run_case(vb(case), tmp, res, queue, rng)
        for t in range(ctx.scale(8, 80, 40)):                  # item 12: the interaction model's shared table grows by instalments
            case = gen_instalments_case(rng)
            res.evaluations += 1
            res.count("class.instalments_shared_table")
            if run_case(vb(case), tmp, res, queue, rng):
                res.count("class.instalments_shared_table.one_table_for_all_samples")
            res.nontrivial.add(common.short_hash(case))
        for n in ([rng.choice(WIDTHS[:3]), rng.choice(WIDTHS[3:])] if ctx.tier == "quick" else WIDTHS * 2):   # item 13
            case = gen_width_case(rng, n)
            res.evaluations += 1
            res.count("class.width_boundary.n_samples_%d" % n)
            res.nontrivial.add(common.short_hash(case))
            run_case(vb(case), tmp, res, queue, rng)
        # 1. save / load with arbitrary bit patterns
        for t in range(ctx.scale(150, 1500, 700)):
            case = gen_roundtrip_case(rng, n_max)
            res.evaluations += 1
            res.count("roundtrip.cls." + case["cls"])
            n = len(case["thetas"])
            res.count("roundtrip.n.%s" % ("1-10" if n <= 10 else "11-25" if n <= 25 else "26+"))
            if case["cls"] == "I":
                res.count("roundtrip.table.%s" % ("empty" if not case["table"] else "nonempty"))
            if case["size"] > n:
                res.count("roundtrip.incomplete")
            if n >= 11:
                res.nontrivial.add(common.short_hash(case))
            run_case(vb(case), tmp, res, queue, rng)
            if t < 2:
                res.sample({"kind": "roundtrip", "cls": case["cls"], "n": n, "size": case["size"], "first_theta": case["thetas"][0]})
        # 1b. tampered files: the refusing branches of load
        for t in range(ctx.scale(40, 400, 200)):
            case = gen_roundtrip_case(rng, 14)
            case["kind"] = "tamper"
            case["size"] = len(case["thetas"])
            case["tamper"] = rng.choice(["shrink", "shrink", "badkey", "missing", "extra"] + (["noshared"] if case["cls"] == "I" else []))
            case["arg"] = rng.randrange(1000)
            res.evaluations += 1
            res.count("tamper." + case["tamper"])
            run_case(vb(case), tmp, res, queue, rng)
        for t in range(ctx.scale(10, 60, 30)):
            case = gen_roundtrip_case(rng, 12)
            case.update(kind="zerodim", arg=rng.randrange(1000), field=rng.choice(["W", "V2"]))
            res.evaluations += 1
            res.count("zerodim")
            run_case(vb(case), tmp, res, queue, rng)
        # 2. predictions before / after reload
        for t in range(ctx.scale(40, 400, 200)):
            cls = rng.choice(["C", "I"])
            ns, nt, D = rng.randint(1, 3), rng.randint(2, 4), rng.randint(1, 3)
            n = rng.randint(11, 16) if rng.random() < 0.5 else rng.randint(1, 6)
            case = {"kind": "predict", "cls": cls, "size": n, "n_samples": ns, "n_treat": nt, "n_rows": rng.randint(3, 8),
                    "screen_seed": rng.getrandbits(32), "thetas": gen_predictable(rng, cls, n, ns, nt, D)}
            if cls == "I":
                case["table"] = gen_table(rng, ns, nt)
            res.evaluations += 1
            res.count("predict.cls." + cls)
            if n >= 11:
                res.nontrivial.add(common.short_hash(case))
            run_case(vb(case), tmp, res, queue, rng)
        # 3. evaluate_model end to end
        for t in range(ctx.scale(50, 500, 250)):
            cls = rng.choice(["C", "I"])
            case = gen_eval_case(rng, cls, force_big=(t % 2 == 0))
            res.evaluations += 1
            res.count("evaluate.cls." + cls)
            res.count("evaluate.chains.%d" % len(case["chains"]))
            lens = [len(c["thetas"]) for c in case["chains"]]
            if any(c["size"] != len(c["thetas"]) for c in case["chains"]):
                res.count("evaluate.incomplete")
            if case["order"] != sorted(case["order"]):
                res.count("evaluate.shuffled")
            if len(lens) >= 2:
                res.count("evaluate.both_orders")
            if len(set(lens)) >= 2:
                res.count("evaluate.unequal_counts")
                if sum(lens) % len(lens) == 0:
                    res.count("evaluate.unequal_counts_total_divisible")
            if max(lens) >= 11:
                res.count("evaluate.file_with_11plus")
            distinct = run_case(vb(case), tmp, res, queue, rng)
            if distinct and (max(lens) >= 11 or len(set(lens)) >= 2):
                res.nontrivial.add(common.short_hash(case))
            if t < 2:
                res.sample({"kind": "evaluate", "cls": cls, "chain_lengths": lens, "order": case["order"]})
        # 3a. checklist item 18: the commands that load collections (calculate_scores, calculate_distance_matrix) with probing plug-ins
        for t in range(ctx.scale(12, 120, 60)):
            cls = rng.choice(["C", "I"])
            case = gen_eval_case(rng, cls, force_big=(t % 3 == 0))
            for c in case["chains"]:
                c["size"] = len(c["thetas"])                      # complete files: inside the quantifier
            case["kind"] = "entry"
            lens = [len(c["thetas"]) for c in case["chains"]]
            res.evaluations += 1
            res.count("class.entry-point.calculate_scores")
            res.count("class.entry-point.calculate_distance_matrix")
            if max(lens) >= 11:
                res.count("class.entry-point.file_with_11plus")
            if len(set(lens)) >= 2:
                res.count("class.entry-point.unequal_counts")
            if run_case(vb(case), tmp, res, queue, rng):
                res.nontrivial.add(common.short_hash(case))
        # 3b. item 13: more than 127 / 128 chain files (chain ids cross the int8 boundary), one sample each except one file with two
        for k in ([rng.choice([129, 130])] if ctx.tier == "quick" else [129, 257]):
            cls = rng.choice(["C", "I"])
            ns, nt, D = 1, 2, 1
            chains = [{"size": 1, "thetas": gen_predictable(rng, cls, 1, ns, nt, D)} for _ in range(k)]
            j = rng.randrange(k)
            chains[j] = {"size": 2, "thetas": gen_predictable(rng, cls, 2, ns, nt, D)}
            order = list(range(k))
            rng.shuffle(order)
            case = {"kind": "evaluate", "cls": cls, "n_samples": ns, "n_treat": nt, "n_rows": 3, "screen_seed": rng.getrandbits(32), "chains": chains,
                    "order": order, "both_orders": True}
            if cls == "I":
                case["table"] = gen_table(rng, ns, nt)
            res.evaluations += 1
            res.count("class.width_boundary.n_chain_files_%d" % k)
            if run_case(vb(case), tmp, res, queue, rng):
                res.nontrivial.add(common.short_hash(case))
        # 4. in-memory concat (incl. incomplete holders and the empty list)
        for t in range(ctx.scale(100, 1500, 600)):
            k = 0 if t == 0 else rng.randint(1, 5)
            holders = []
            for _ in range(k):
                n = rng.randint(0, 13)
                holders.append([n + (0 if rng.random() < 0.7 else rng.randint(1, 3)), n])
            case = {"kind": "concat", "holders": holders}
            res.evaluations += 1
            res.count("concat.k.%d" % k)
            if len({n for _, n in holders}) >= 2:
                res.nontrivial.add(common.short_hash(case))
            run_case(vb(case), tmp, res, queue, rng)
        # 4b. collections used again after they were operands (aliasing of combine/concat results with their operands)
        for t in range(ctx.scale(80, 1000, 400)):
            k = rng.randint(3, 5)
            holders = []
            for _ in range(k):
                n = rng.randint(0, 6)
                holders.append([n + (0 if rng.random() < 0.6 else rng.randint(1, 3)), n])
            if t % 4 == 0:
                holders[1][1] = 0                      # an empty right operand
                holders[1][0] = rng.randint(0, 2)
            if t % 4 == 1:
                holders[0][1] = 0                      # an empty left operand
            case = {"kind": "reuse", "holders": holders}
            res.evaluations += 1
            res.count("reuse.k.%d" % k)
            if holders[0][0] == holders[0][1]:
                res.count("reuse.A_full")
            else:
                res.count("reuse.A_with_room")
            if holders[1][1] == 0:
                res.count("reuse.B_empty")
            res.nontrivial.add(common.short_hash(case))
            run_case(vb(case), tmp, res, queue, rng)
        # 5. refusals
        for t in range(ctx.scale(80, 600, 300)):
            size = rng.randint(0, 6)
            n = rng.randint(0, size)
            op = rng.choice(["add", "get", "get", "save-empty"])
            case = {"kind": "refusal", "op": op, "size": size, "n": n, "index": rng.randint(-3, size + 2)}
            res.evaluations += 1
            res.count("refusal." + op)
            run_case(vb(case), tmp, res, queue, rng)
        # ---- model
        if ctx.driver is not None:
            got = ctx.driver.ask(lines)
            for l, e, g, (where, case, canon) in zip(lines, expect, got, meta):
                if canon == "prefix":
                    g = g.split(" ")[0]              # only ok / err:<Class> is compared
                elif canon:
                    g = canon_file_line(g)
                if e != g:
                    res.disagree("C10:" + where, case if len(l) < 4000 else {"kind": case.get("kind"), "line_head": l[:500]}, e[:600], g[:600])
            res.traces_validated += len(lines)
    finally:
        shutil.rmtree(tmp, ignore_errors=True)


def replay(ctx, case, res):
    tmp = tempfile.mkdtemp(prefix="verif_c10_")
    try:
        run_case(case, tmp, res, lambda *a, **k: None, __import__("random").Random(0))
    finally:
        shutil.rmtree(tmp, ignore_errors=True)
