"""C19 -- the orchestration script resumes correctly after an interruption at any point.

The real script `$BATCHIE_REPO/nextflow/scripts/batchie.py` is imported as a module.  nextflow is not
installed: `subprocess.check_call` (the script module's own `subprocess` name) is replaced by a fake pipeline
that publishes the files of the three workflows one at a time, in an order compatible with their data
dependencies (`fake_pubs`, the line-by-line mirror of `fakePubs` in `Model/OrchestratorIO.lean`).  Every
filesystem mutation of the script (`os.mkdir`, `os.unlink`, `os.rmdir`) and every publication is an atomic
action; an `Interrupt` (a BaseException) is raised INSTEAD of the k-th action, counted only while the script's
own step function is on the stack.  After an interruption the step function is called again (which is what
`main`'s loop and a restart both do); a RuntimeError "Consider deleting this directory ...: <dir>" makes the
harness remove that directory, as the message advises.

Oracles (on the implementation alone, against its own crash-free run): every launch gets the inputs of the
crash-free run; the completed steps are exactly the crash-free sequence (none twice, none skipped, in
order); no directory of a completed step is touched by a removal; a retrospective step's input screen is the
advanced screen of its predecessor; the final tree (hence every recorded selection) is the crash-free one.
Tie: the derived per-invocation interruption schedule is replayed by the Lean model (`run` op), event
trace and final tree must be identical; `examine` is also tied on random directory trees.  The next-step
arithmetic of `examine_output_dir_to_determine_current_iteration` is additionally under the translator
(module `Orch`, proved equal to the model's `nextOf` in `Lemmas/OrchGenerated.lean`).

Known finding `C19:prospective-marker-first` -- the matcher (`signature`) is deliberately narrow: prospective mode,
marker-first workflow, an interruption during a plate_0 step after the marker and before its last publication, the
finding concerns something AFTER that launch, its kind is one the finding explains (never a deleted or re-launched
completed step) and the launch following the interrupted one is its successor.  Everything else is reported as new.

Mutants tried by the auditor (a-c19), all caught with a concrete replay unless noted:
  lexicographic `sorted(iter_dirs)` (needs iter_10: config B=1 P=11 / prospective pre=10; was MISSED before);
  arithmetic wrong only for batch size 4 (`min(batch_size-1, 2)`; quick tier had no batch 4 before);
  arithmetic wrong only from iteration 3 on; `>` for `>=`; `len(plate_dirs) >= batch_size` (translator refuses + replay);
  prospective step function auto-resuming a named directory without deleting it first (excludes its own aborted choice,
  reported as NEW in the marker-first configurations); `advanced_screen.h5` accepted as completion marker;
  error message naming the iteration directory (oracle `deleted` now sees completed steps below a named directory);
  trailing marker-less directory skipped when it holds a selected_plate; empty-iteration arithmetic wrong for batch 1 only.
  Property-preserving (reported as `no-failing-input-found` because the examine tie breaks on unreachable trees):
  `continue` -> `break` for an empty iteration directory; silently re-using an empty plate directory.
  Equivalent rewrite `current_plate_idx + 1 >= batch_size` (or swapped branches): passes (exit 0).
"""
import glob as globmod
import importlib.util
import inspect
import itertools
import json
import os
import re
import shutil
import sys
import tempfile
import time
import types

from vlib import common
from harness import c19_system
from harness import c19_proc

HARNESS_DIR = os.path.dirname(os.path.abspath(__file__))

RULE = ("retrospective and prospective runs of the real script over a fake pipeline; cases = (mode, batch size, "
        "plates, chains/chunks, publication order variant, marker-first flag, global interruption points); quick: "
        "every single interruption point for batch 1-4 and <=5 plates (every other pair for the smallest configurations) + runs reaching "
        "iter_10/iter_11 (two-digit directory indices); thorough: every single and every pair of "
        "interruption points, batch 1-4, <=9 plates, both modes; plus random directory trees for `examine`. "
        "Retrospective configurations also publish 0-2 files AFTER the marker (model evaluation: invisible to the script, "
        "absent from the model), each an interruption point. "
        "Second stream (class.system.*): the real script over the real batchie CLIs through an in-process emulation of the "
        "nextflow workflows (harness/nf_emulator.py): uninterrupted via main() + interruptions at chosen process starts / "
        "publications / mkdirs, batch 2 and 3 (thorough: 20 simulations, batch 1-3, 4-7 plates, Random/Size/GaussianDBAL scorers). "
        "Non-trivial: at least one interruption that hit after the output directory existed.")

M = 2147483647
KNOWN_SIG = "C19:prospective-marker-first"
# `cfg["late"]` files published AFTER screen_metadata.json by the two `retrospective` workflows: in
# RUN_RETROSPECTIVE_STEP, EVALUATE_MODEL / ANALYZE_MODEL_EVALUATION are not upstream of REVEAL_PLATE -> EXTRACT_SCREEN_METADATA,
# so their outputs can be published after the completion marker.  No glob of the script matches them; the Lean model's
# pipeline run ends at the marker (`pubs` = publications up to the marker) and does not contain them.  The harness
# validates that abstraction: the real script runs with them (every publication an interruption point), the model without,
# and event trace + directory tree (these files ignored) must still agree.
LATE_PREFIX = "late_model_evaluation"


class Interrupt(BaseException):
    pass


class Runaway(Exception):
    """more pipeline launches than any terminating execution of this configuration can make"""


class FakeFailure(Exception):
    """the fake pipeline cannot run (an input file does not exist)"""


# ------------------------------------------------------------------------------------------------------
# the fake pipeline (mirror of Model/OrchestratorIO.lean)
# ------------------------------------------------------------------------------------------------------

def hash_list(xs):
    h = 7
    for x in xs:
        h = (h * 1000003 + x + 1) % M
    return h


KIND_FILE = {0: "screen_metadata.json", 1: "advanced_screen.h5", 2: "training.screen.h5", 3: "test.screen.h5", 6: "selected_plate"}


def kind_filename(k):
    a, b = k
    if a in KIND_FILE:
        return KIND_FILE[a]
    if a == 4:
        return "thetas%d.h5" % b
    if a == 5:
        return "distance_matrix_chunk%d.h5" % b
    return "extra%d.dat" % b


def filename_kind(fn):
    for a, name in KIND_FILE.items():
        if fn == name:
            return (a, 0)
    m = re.fullmatch(r"thetas(\d+)\.h5", fn)
    if m:
        return (4, int(m.group(1)))
    m = re.fullmatch(r"distance_matrix_chunk(\d+)\.h5", fn)
    if m:
        return (5, int(m.group(1)))
    m = re.fullmatch(r"extra(\d+)\.dat", fn)
    if m:
        return (7, int(m.group(1)))
    return None


def read_content(path):
    with open(path) as f:
        txt = f.read()
    if path.endswith(".json"):
        return int(json.loads(txt)["n_unobserved_plates"])
    return int(txt.strip())


def write_content(path, kind, content):
    with open(path, "w") as f:
        if kind[0] == 0:
            json.dump({"n_unobserved_plates": content}, f)
        else:
            f.write("%d\n" % content)


def enc_ref(r):
    if r is None:
        return [0]
    i, j, k, c = r
    return [1, i, j, k[0], k[1], c]


def enc_launch(l):
    out = [l["wf"], l["iter"], l["plate"]] + enc_ref(l["screen"]) + enc_ref(l["test"]) + [len(l["chains"])]
    for k, c in sorted(l["chains"]):
        out += [k[0], k[1], c]
    if l["excludes"] is None:
        out += [0]
    else:
        out += [1, len(l["excludes"])] + sorted(l["excludes"])
    return out


def fake_pubs(fk, l):
    """ordered list of (kind, content) published by the pipeline launched with `l`"""
    enc = enc_launch(l)

    def base(k):
        return hash_list(enc + [k[0], k[1]])

    rin = fk["P"] if l["screen"] is None else l["screen"][3] // M

    def mk(k):
        return (k, base(k))

    odd = fk["variant"] % 2 == 1

    def order(xs):
        return list(reversed(xs)) if odd else list(xs)

    th = order([mk((4, c)) for c in range(fk["nch"])])
    di = order([mk((5, c)) for c in range(fk["nck"])])
    sc = order([mk((7, c + 1)) for c in range(fk["nck"])])
    ex0 = [mk((7, 0))]
    sel = ((6, 0), base((6, 0)) % 1000)
    adv = ((1, 0), max(rin - 1, 0) * M + base((1, 0)))
    mrk = ((0, 0), max(rin - 1, 0))
    prep = order([((2, 0), rin * M + base((2, 0))), mk((3, 0))])
    if fk["variant"] % 3 == 2:
        body = th + di + sc + [sel] + ex0
    elif odd:
        body = th + di + ex0 + sc + [sel]
    else:
        body = th + ex0 + di + sc + [sel]
    wf = l["wf"]
    if wf == 0:
        return prep + body + [adv, mrk]
    if wf == 1:
        return body + [adv, mrk]
    if wf == 2:
        return sc + [sel, adv, mrk]
    m = ((0, 0), rin)
    if fk["mfirst"]:
        if fk["variant"] % 3 == 2:
            return th + [m] + di + sc + [sel] + ex0
        return [m] + body
    return body + [m]


# ------------------------------------------------------------------------------------------------------
# text encoding shared with the driver
# ------------------------------------------------------------------------------------------------------

def show_file(k, c):
    return "%d.%d.%d" % (k[0], k[1], c)


def show_ref(r):
    if r is None:
        return "-"
    return "%d.%d.%s" % (r[0], r[1], show_file(r[2], r[3]))


def show_launch(l):
    ch = "-" if not l["chains"] else "+".join(show_file(k, c) for k, c in sorted(l["chains"]))
    ex = "-" if l["excludes"] is None else "+".join(str(x) for x in sorted(l["excludes"]))
    return "%d/%d/%d/%s/%s/%s/%s" % (l["wf"], l["iter"], l["plate"], show_ref(l["screen"]), show_ref(l["test"]), ch, ex)


def suffix(name):
    return int(name.split("_")[1])


def show_tree(outdir):
    """canonical text of the output directory (same format as `showTree`)"""
    if not os.path.isdir(outdir):
        return "#"
    iters = []
    for itn in os.listdir(outdir):
        ip = os.path.join(outdir, itn)
        if not (itn.startswith("iter_") and os.path.isdir(ip)):
            return "unexpected entry %s" % itn
        plates = []
        for pn in os.listdir(ip):
            pp = os.path.join(ip, pn)
            if not (pn.startswith("plate_") and os.path.isdir(pp)):
                return "unexpected entry %s/%s" % (itn, pn)
            subs = os.listdir(pp)
            if not subs:
                plates.append((suffix(pn), "!"))
                continue
            if len(subs) != 1:
                return "unexpected entries in %s/%s" % (itn, pn)
            files = []
            for fn in os.listdir(os.path.join(pp, subs[0])):
                if fn.startswith(LATE_PREFIX):
                    continue          # invisible to every glob of the script and not part of the model (see `late`)
                k = filename_kind(fn)
                if k is None:
                    return "unexpected file %s" % fn
                files.append((k, read_content(os.path.join(pp, subs[0], fn))))
            plates.append((suffix(pn), "_" if not files else ",".join(show_file(k, c) for k, c in sorted(files))))
        plates.sort()
        iters.append((suffix(itn), "_" if not plates else ";".join("%d=%s" % p for p in plates)))
    iters.sort()
    return "-" if not iters else "|".join("%d:%s" % it for it in iters)


def build_tree(outdir, text, name="exp"):
    """materialise a tree given in the text encoding (for the `examine` tie); iteration / plate
    directories are created in the order given"""
    if text == "#":
        return
    os.makedirs(outdir)
    if text == "-":
        return
    for it in text.split("|"):
        a, b = it.split(":")
        ip = os.path.join(outdir, "iter_%s" % a)
        os.makedirs(ip)
        if b == "_":
            continue
        for pl in b.split(";"):
            j, sub = pl.split("=")
            pp = os.path.join(ip, "plate_%s" % j)
            os.makedirs(pp)
            if sub == "!":
                continue
            os.makedirs(os.path.join(pp, name))
            if sub == "_":
                continue
            for f in sub.split(","):
                x, y, c = (int(v) for v in f.split("."))
                write_content(os.path.join(pp, name, kind_filename((x, y))), (x, y), c)


# ------------------------------------------------------------------------------------------------------
# the real script under interruption
# ------------------------------------------------------------------------------------------------------

def script_path():
    return os.path.join(common.REPO, "nextflow", "scripts", "batchie.py")


_MOD = {}


def load_script(fresh=False):
    """the script as a module; one module object is REUSED for every case of a check run (module-level state would leak
    between runs with different output directories); `fresh=True` gives a new module object (= a process restart)"""
    p = script_path()
    if fresh or p not in _MOD:
        spec = importlib.util.spec_from_file_location("batchie_orchestration_script_c19", p)
        mod = importlib.util.module_from_spec(spec)
        spec.loader.exec_module(mod)
        mod.logger.disabled = True
        for h in list(mod.logger.handlers):
            mod.logger.removeHandler(h)
        if fresh:
            return mod
        _MOD[p] = mod
    return _MOD[p]


EXTRA_ARGS = ["-profile", "c19", "--n_chunks", "3"]     # passed through to every command, must not be touched


class Gate:
    """counts atomic actions while the step function runs; raises Interrupt INSTEAD of action number `limit`"""

    def __init__(self, on_remove):
        self.active = False
        self.count = 0
        self.limit = None
        self.once = False
        self.fired = False
        self.count_at_fire = 0
        self.on_remove = on_remove
        self.unexpected = lambda msg: None

    def tick(self):
        if not self.active:
            return
        if self.limit is not None and self.count >= self.limit and not (self.once and self.fired):
            # kill-style (default): every further action is refused too, nothing of the script's clean-up code can touch the
            # directory; signal-style (`once`): the exception is delivered once (ctrl-c, a failing pipeline), `except` /
            # `finally` blocks of the script run and their filesystem actions are performed
            if not self.fired:
                self.count_at_fire = self.count
            self.fired = True
            raise Interrupt()
        self.count += 1


def fd_path(name, dir_fd):
    if dir_fd is None:
        return os.path.abspath(name)
    return os.path.join(os.readlink("/proc/self/fd/%d" % dir_fd), name)


class Patched:
    """os.mkdir / os.unlink / os.rmdir with the gate in front (only mutations that will succeed are actions)"""

    def __init__(self, gate):
        self.gate = gate
        self.real = (os.mkdir, os.unlink, os.rmdir)

    def __enter__(self):
        gate = self.gate
        r_mkdir, r_unlink, r_rmdir = self.real

        def target(a, kw):
            """full path of the first argument, whatever the call form; None when the harness cannot tell"""
            try:
                return fd_path(a[0] if a else kw["path"], kw.get("dir_fd"))
            except Exception as e:  # noqa
                gate.unexpected("os-level call in a form the harness cannot read: %r %r (%s)" % (a, kw, e))
                return None

        def mkdir(*a, **kw):
            if gate.active:
                full = target(a, kw)
                if full is not None and not os.path.lexists(full):
                    gate.tick()
            return r_mkdir(*a, **kw)

        def unlink(*a, **kw):
            if gate.active:
                full = target(a, kw)
                if full is not None and os.path.lexists(full):
                    gate.tick()
                    gate.on_remove(full)
            return r_unlink(*a, **kw)

        def rmdir(*a, **kw):
            if gate.active:
                full = target(a, kw)
                if full is not None and os.path.isdir(full) and not os.listdir(full):
                    gate.tick()
                    gate.on_remove(full)
            return r_rmdir(*a, **kw)

        os.mkdir, os.unlink, os.rmdir = mkdir, unlink, rmdir
        # shutil tests `os.unlink in os.supports_dir_fd` etc. by identity: keep those sets consistent
        self.new = (mkdir, unlink, rmdir)
        self.added = []
        for s in (os.supports_dir_fd, os.supports_follow_symlinks, os.supports_fd):
            for real, new in zip(self.real, self.new):
                if real in s:
                    s.add(new)
                    self.added.append((s, new))
        return self

    def __exit__(self, *exc):
        os.mkdir, os.unlink, os.rmdir = self.real
        for s, new in self.added:
            s.discard(new)
        return False


STEP_RE = re.compile(r"iter_(\d+)/plate_(\d+)")


def named_dir(msg, outdir):
    """the directory an error message of the script NAMES: the path below the output directory that occurs in the message
    (whatever the wording), or None.  The recovery step removes exactly that -- never a directory the harness computed."""
    best = None
    for m in re.finditer(re.escape(outdir.rstrip(os.sep)) + r"(?:/[^\s'\"`]*)?", msg):
        cand = m.group(0).rstrip(".,;:)]}>/")
        if cand != outdir.rstrip(os.sep) and os.path.isdir(cand) and (best is None or len(cand) > len(best)):
            best = cand
    return best


def step_of_path(outdir, path):
    rel = os.path.relpath(path, outdir)
    m = STEP_RE.match(rel)
    return (int(m.group(1)), int(m.group(2))) if m else None


class Run:
    """one case: configuration + list of global interruption points (the n-th point counts the atomic actions
    performed since the previous interruption, across calls of the step function)"""

    def __init__(self, cfg, crashes, workdir, pre=0, restart=False, main=False, signal=False, verbose=False):
        self.cfg = cfg
        self.verbose = verbose    # the script's logger enabled at DEBUG with a formatting handler (what `python batchie.py` has)
        self.signal = signal      # interruptions are delivered as ONE exception (the script's handlers run) instead of a kill
        self.main = main          # drive the script's main() (one call = one process run) instead of the step function
        self.restart = restart or main    # a fresh module object for every call after an interruption / exception (process restart)
        self.extra_bad = None
        steps = cfg["P"] + 1 if cfg["mode"] == "r" else cfg["B"]
        # every loop that drives the real script is bounded: launches per process run, calls per run, wall clock per case
        self.launch_cap = 4 * (steps + cfg["B"]) + 10 + 4 * len(list(crashes))
        self.deadline = time.time() + 60
        self.saw = set()          # directory states met at the start of a call of the step function
        self.crashes = list(crashes)
        self.pre = pre            # crash-free process runs executed first (prospective: earlier iterations)
        self.root = tempfile.mkdtemp(prefix="c19_", dir=workdir)
        self.outdir = os.path.join(self.root, "out")
        self.screen = os.path.join(self.root, "exp.screen.h5")
        with open(self.screen, "w") as f:
            f.write("input\n")
        self.gate = Gate(self.on_remove)
        self.gate.once = signal
        self.unexpected = []      # call forms / exceptions of the harness's own wrappers: the case becomes a broken tie, not a finding
        self.gate.unexpected = self.unexpected.append
        self.events = []          # text events, same alphabet as the model's
        self.sched = []           # derived per-invocation budgets ("n" or int) for the model
        self.launches = []        # [step, launch text, completed?, launch dict]
        self.in_window = False    # an interruption hit between a prospective marker and the end of its step
        self.window_launch = None # index (in self.launches) of the first launch interrupted inside that window
        self.user_deleted = []    # completed steps that lived under a directory removed on the script's advice
        self.hit_after_outdir = False
        self.segments = [0]       # atomic actions performed between interruptions
        self.marker_published = False
        self.current_launch = None
        self.status = None
        self.tree = None
        self.done_steps = set()   # every step completed so far (earlier crash-free process runs included)
        self.modelled_done = False
        self.late_published = 0
        self.late_window = False  # an interruption hit after the marker, before the last invisible late output
        self.pre_done = set()     # ... by the crash-free process runs executed first

    def on_remove(self, path):
        st = step_of_path(self.outdir, path)
        self.events.append("R%d.%d" % st if st else "R?")

    # -- fake pipeline -----------------------------------------------------------------------------
    def parse_ref(self, path):
        if os.path.abspath(path) == os.path.abspath(self.screen):
            return None
        st = step_of_path(self.outdir, path)
        k = filename_kind(os.path.basename(path))
        if st is None or k is None or not os.path.exists(path):
            raise FakeFailure("input does not exist: %s" % path)
        return (st[0], st[1], k, read_content(path))

    def check_call(self, cmd, cwd=None):
        opts = {}
        i = 0
        excludes = None
        known = ("--mode", "--screen", "--training_screen", "--test_screen", "--thetas", "--distance_matrix", "--name", "--outdir",
                 "--initialize", "--reveal", "-work-dir")
        other = [str(c) for j, c in enumerate(cmd[3:]) if not (str(c) in known or (j > 0 and str(cmd[3:][j - 1]) in known)
                                                                or str(c).startswith("--excludes="))]
        while i < len(cmd):
            c = cmd[i]
            if c.startswith("--excludes="):
                excludes = [int(x) for x in c[len("--excludes="):].split(",")]
                i += 1
            elif c.startswith("--") or c == "-work-dir":
                opts[c] = cmd[i + 1]
                i += 2
            else:
                i += 1
        out = opts["--outdir"]
        st = step_of_path(self.outdir, out)
        mode = opts["--mode"]
        l = {"iter": st[0], "plate": st[1], "screen": None, "test": None, "chains": [], "excludes": excludes, "other": other}
        if mode == "retrospective" and opts.get("--initialize") == "true":
            l["wf"] = 0
            l["screen"] = self.parse_ref(opts["--screen"])
        elif mode == "retrospective":
            l["wf"] = 1
            l["screen"] = self.parse_ref(opts["--training_screen"])
            l["test"] = self.parse_ref(opts["--test_screen"])
        elif mode == "next_plate":
            l["wf"] = 2
            l["screen"] = self.parse_ref(opts["--screen"])
            th = sorted(globmod.glob(opts["--thetas"]))
            di = sorted(globmod.glob(opts["--distance_matrix"]))
            if not th or not di:
                raise FakeFailure("no chain files")
            for p in th + di:
                r = self.parse_ref(p)
                if (r[0], r[1]) != (st[0], 0):
                    raise FakeFailure("chain file outside plate 0 of the iteration")
                l["chains"].append((r[2], r[3]))
        elif mode == "prospective":
            l["wf"] = 3
            l["screen"] = self.parse_ref(opts["--screen"])
        else:
            raise FakeFailure("unknown mode")
        if opts.get("-work-dir") != os.path.join(out, "work"):
            raise FakeFailure("unexpected work dir")
        self.modelled_done = False
        if len(self.launches) >= self.launch_cap or time.time() > self.deadline:
            raise Runaway()
        text = show_launch(l)
        self.events.append("L" + text)
        self.launches.append([(st[0], st[1]), text, False, l])
        self.current_launch = l
        self.marker_published = False
        sub = os.path.join(out, opts["--name"])
        os.makedirs(sub, exist_ok=True)           # an atomic action through the patched os.mkdir
        for k, c in fake_pubs(self.cfg, l):
            self.gate.tick()
            write_content(os.path.join(sub, kind_filename(k)), k, c)
            if k[0] == 0:
                self.marker_published = True
        self.events.append("C" + text)
        self.launches[-1][2] = True
        self.done_steps.add((st[0], st[1]))
        self.current_launch = None
        if l["wf"] in (0, 1):
            self.modelled_done = True     # from here on the model's invocation is over
            for c in range(self.cfg.get("late", 0)):
                self.gate.tick()
                with open(os.path.join(sub, "%s%d.dat" % (LATE_PREFIX, c)), "w") as f:
                    f.write("0\n")
                self.late_published += 1

    # -- driving -------------------------------------------------------------------------------------
    def go(self, max_invocations=None):
        if max_invocations is None:
            steps = self.cfg["P"] + 1 if self.cfg["mode"] == "r" else self.cfg["B"]
            max_invocations = 2 * steps + 8 + 4 * len(self.crashes)
        for _ in range(self.pre):
            crashes, self.crashes = self.crashes, []
            self._process(max_invocations)
            self.crashes = crashes
            if self.status != "ok":
                return self
            self.events, self.sched, self.launches, self.segments = [], [], [], [0]
            self.pre_done = set(self.done_steps)
        return self._process(max_invocations)

    def _process(self, max_invocations):
        if not self.verbose:
            return self._process0(max_invocations)
        import logging
        lg = logging.getLogger("batchie_orchestration_script_c19")     # shared by every module object loaded from the script
        try:
            with common.verbose_logging():
                return self._process0(max_invocations)
        finally:
            lg.disabled = True
            lg.handlers = []

    def _enable_log(self, mod):
        if self.verbose:
            import logging

            class Sink(logging.Handler):
                def emit(self, record):
                    self.format(record)
            mod.logger.disabled = False
            mod.logger.setLevel(logging.DEBUG)
            mod.logger.handlers = [Sink(level=logging.DEBUG)]
            mod.logger.propagate = False

    def _process0(self, max_invocations):
        mod = load_script(fresh=self.restart or self.verbose)
        self._enable_log(mod)
        cfg = self.cfg
        saved = None          # nothing inside the script module is replaced: the launcher is caught at subprocess.Popen
        extra = list(EXTRA_ARGS)

        def step(output_dir, input_screen, extra_args, batch_size):
            if not self.main:
                fn = mod.run_next_retrospective_step if cfg["mode"] == "r" else mod.run_next_prospective_step
                kwargs = dict(output_dir=output_dir, input_screen=input_screen, extra_args=extra_args, batch_size=batch_size)
                try:
                    inspect.signature(fn).bind(**kwargs)
                except TypeError:
                    try:        # parameters renamed: the order of main()'s call is all the harness knows
                        inspect.signature(fn).bind(output_dir, input_screen, extra_args, batch_size)
                    except TypeError as e:
                        self.unexpected.append("step function cannot be called the way main() calls it: %s" % e)
                        raise Runaway()
                    return fn(output_dir, input_screen, extra_args, batch_size)
                return fn(**kwargs)
            # a whole process run: `python batchie.py --mode .. --outdir .. --screen .. [--batch-size B] <extra args>`
            argv = ["batchie.py", "--mode", "retrospective" if cfg["mode"] == "r" else "prospective", "--outdir", output_dir,
                    "--screen", input_screen]
            if not (batch_size == 1 and cfg.get("default_batch")):
                argv += ["--batch-size", str(batch_size)]
            old = sys.argv
            sys.argv = argv + list(EXTRA_ARGS)
            try:
                mod.main()
            except SystemExit as e:
                raise RuntimeError("argument error %s" % e.code)
            finally:
                sys.argv = old
            return False
        pending = list(self.crashes)
        budget = pending.pop(0) if pending else None
        status = "no-termination"
        g = self.gate
        try:
            with Patched(g), c19_proc.popen_patch(self.check_call, lambda: g.active, (FakeFailure,), self.unexpected.append):
                for _ in range(max_invocations):
                    g.count = 0
                    g.fired = False
                    g.limit = budget
                    g.active = True
                    self.modelled_done = False
                    if os.path.isdir(self.outdir):
                        its = [d for d in os.listdir(self.outdir) if d.startswith("iter_")]
                        if not its:
                            self.saw.add("empty-output-dir")
                        for d in its:
                            if not os.listdir(os.path.join(self.outdir, d)):
                                self.saw.add("empty-iteration-dir")
                                if suffix(d) >= 1:
                                    self.saw.add("empty-iteration-dir-k>=1")
                            if suffix(d) >= 10:
                                self.saw.add("two-digit-iteration")
                    try:
                        again = step(output_dir=self.outdir, input_screen=self.screen, extra_args=extra, batch_size=cfg["B"])
                        outcome = ("again",) if again else ("halt",)
                    except Interrupt:
                        outcome = ("crash",)
                    except RuntimeError as e:
                        nd = named_dir(str(e), self.outdir)
                        outcome = ("named", nd) if nd else ("failed", "RuntimeError")
                    except Runaway:
                        outcome = ("failed", "no-termination")
                    except FakeFailure:
                        outcome = ("failed", "PipelineFailure")
                    except Exception as e:  # noqa
                        if c19_proc.in_harness(e, HARNESS_DIR):
                            # one of the harness's own wrappers / parsers failed: a broken tie, never a finding
                            self.unexpected.append("%s in harness code: %s" % (type(e).__name__, str(e)[:200]))
                        outcome = ("failed", "PipelineFailure" if type(e).__name__ == "CalledProcessError" else type(e).__name__)
                    finally:
                        g.active = False
                    if extra != EXTRA_ARGS and self.extra_bad is None:
                        self.extra_bad = list(extra)
                    if self.restart and outcome[0] not in ("again", "halt"):
                        mod = load_script(fresh=True)
                        self._enable_log(mod)
                    self.segments[-1] += g.count
                    if outcome[0] == "crash" and self.modelled_done:
                        # interrupted among the invisible late outputs: for the model this call was not interrupted
                        self.late_window = True
                        self.hit_after_outdir = True
                        self.sched.append("n")
                        budget = pending.pop(0) if pending else None
                        self.segments.append(0)
                        continue
                    if outcome[0] == "crash":
                        self.sched.append(g.count_at_fire if g.once else g.count)
                        if os.path.isdir(self.outdir):
                            self.hit_after_outdir = True
                        if (self.current_launch is not None and self.current_launch["wf"] == 3 and self.marker_published
                                and self.current_launch["plate"] == 0 and cfg["mode"] == "p"):
                            self.in_window = True
                            if self.window_launch is None:
                                self.window_launch = len(self.launches) - 1
                        self.current_launch = None
                        budget = pending.pop(0) if pending else None
                        self.segments.append(0)
                        continue
                    self.sched.append("n")
                    if budget is not None:
                        budget -= g.count
                    if outcome[0] == "again":
                        continue
                    if outcome[0] == "halt":
                        if cfg["mode"] == "r":
                            self.events.append("D")
                        status = "ok"
                        break
                    if outcome[0] == "named":
                        st = step_of_path(self.outdir, outcome[1])
                        named = os.path.abspath(outcome[1])
                        for st2 in sorted(self.done_steps):
                            d2 = os.path.join(self.outdir, "iter_%d" % st2[0], "plate_%d" % st2[1])
                            if (d2 == named or d2.startswith(named + os.sep)) and os.path.isdir(d2):
                                self.user_deleted.append([list(st2), os.path.relpath(named, self.outdir)])
                        shutil.rmtree(outcome[1])
                        self.events.append("U%d.%d" % st if st and os.path.basename(named).startswith("plate_") else "U?")
                        continue
                    if outcome[1] == "no-termination":
                        status = "no-termination"
                        break
                    self.events.append("F" + outcome[1])
                    status = "failed:" + outcome[1]
                    break
        finally:
            pass
        self.unused_crashes = len(pending) + (1 if budget is not None else 0)
        self.status = status
        self.tree = show_tree(self.outdir)
        return self

    def driver_line(self):
        c = self.cfg
        sched = "-" if not self.sched else ",".join(str(x) for x in self.sched)
        return "run %s %d %d %d %d %d %d %d %s" % (c["mode"], c["B"], c["P"], c["nch"], c["nck"], c["variant"],
                                                  1 if c["mfirst"] else 0, self.pre, sched)

    def observed(self):
        return "%s %s" % ("-" if not self.events else ";".join(self.events), self.tree)

    def cleanup(self):
        shutil.rmtree(self.root, ignore_errors=True)


# ------------------------------------------------------------------------------------------------------
# oracles
# ------------------------------------------------------------------------------------------------------

def successor(step, B):
    if step is None:
        return (0, 0)
    i, j = step
    return (i + 1, 0) if j >= B - 1 else (i, j + 1)


def judge(run, ref):
    """property oracle on the implementation: `run` (interrupted) against `ref` (its own crash-free run).
    returns a list of (key, what, observed, required, index of the launch concerned or None)"""
    out = []
    B = run.cfg["B"]
    if ref.status != "ok":
        return [("reference", "the uninterrupted run does not terminate: a step is launched again and again" if ref.status == "no-termination"
                 else "the uninterrupted run does not finish", ref.status, "ok", None)]
    if run.status != "ok":
        out.append(("finish", "after the interruption(s) the rerun does not finish like the uninterrupted run", run.status, "ok", None))
    ref_launch = {st: text for st, text, done, _l in ref.launches}
    ref_done = [st for st, _t, done, _l in ref.launches if done]
    # walk the trace
    completed = []
    first_done = ref_done[0] if ref_done else (0, 0)
    done_so_far = set(run.pre_done)
    if run.user_deleted:
        out.append(("deleted", "the directory the script advises to delete contains a completed step",
                    run.user_deleted[0], "completed steps are never removed", None))
    for ev in run.events:
        if ev[0] == "C":
            parts = ev[1:].split("/")
            done_so_far.add((int(parts[1]), int(parts[2])))
        elif ev[0] in "RU":
            st = tuple(int(x) for x in ev[1:].split(".")) if ev[1:] != "?" else None
            if st in done_so_far:
                out.append(("deleted", "the directory of a completed step is deleted (%s)" % ("by the script's rmtree" if ev[0] == "R" else "on the script's advice"),
                            ev, "completed steps are never removed", None))
                break
    ref_other = {st: l.get("other") for st, _t, _d, l in ref.launches}
    idx = 0
    for st, text, done, l in run.launches:
        # (which workflow runs at which step and what the first step starts from is compared with the MODEL only -- the
        #  property text does not say it; a change there ends in a broken tie, not in a replay)
        if st in ref_other and ref_other[st] != l.get("other"):
            out.append(("inputs", "a step is launched with other pass-through command-line arguments than in the uninterrupted run",
                        l.get("other"), ref_other[st], idx))
        if l["wf"] == 1 and (l["test"] is None or (l["test"][0], l["test"][1]) != (0, 0)):
            out.append(("inputs", "the test screen of a later iteration is not taken from iter_0/plate_0", show_ref(l["test"]),
                        "a file of step [0, 0]", idx))
        if st not in ref_launch:
            out.append(("extra", "a step is launched that the uninterrupted run never launches", list(st), sorted(ref_launch)[:12], idx))
        elif ref_launch[st] != text:
            out.append(("inputs", "a step is launched with other inputs than in the uninterrupted run", text, ref_launch[st], idx))
        expected = successor(completed[-1], B) if completed else first_done
        if st != expected:
            if st in completed or st in run.pre_done:
                out.append(("twice", "a completed step is launched again", list(st), list(expected), idx))
            else:
                out.append(("skipped", "a step index is skipped", list(st), list(expected), idx))
        if run.cfg["mode"] == "r" and l["wf"] in (1, 2):
            m = st[0] * B + st[1]
            pred = ((m - 1) // B, (m - 1) % B) if m > 0 else None
            scr = l["screen"]
            if scr is None or pred is None or (scr[0], scr[1]) != pred or scr[2] != (1, 0):
                out.append(("predecessor", "a step is started from a screen that is not the output (advanced screen) of its immediate predecessor",
                            show_ref(scr), "advanced_screen.h5 of step %s" % (list(pred) if pred else None), idx))
        if l["wf"] == 2:
            # absolute oracle: a later plate of an iteration is selected with the model trained by plate 0 of that
            # iteration and must exclude exactly the plates selected so far in that iteration
            mates = {s2: l2 for s2, _t2, d2, l2 in run.launches if d2 and s2[0] == st[0] and s2[1] < st[1]}
            want_ex = sorted(c for s2, l2 in mates.items() for k, c in fake_pubs(run.cfg, l2) if k == (6, 0))
            if sorted(l["excludes"] or []) != want_ex or set(s2[1] for s2 in mates) != set(range(st[1])):
                out.append(("inputs", "a plate is selected without excluding exactly the plates already selected in its iteration",
                            l["excludes"], want_ex, idx))
            if (st[0], 0) in mates:
                want_ch = sorted((k, c) for k, c in fake_pubs(run.cfg, mates[(st[0], 0)]) if k[0] in (4, 5))
                if sorted(l["chains"]) != want_ch:
                    out.append(("inputs", "a plate is selected with other posterior samples / distance chunks than plate 0 of its iteration published",
                                [show_file(k, c) for k, c in sorted(l["chains"])], [show_file(k, c) for k, c in want_ch], idx))
        if done:
            completed.append(st)
        idx += 1
    if completed != ref_done and run.status == "ok":
        out.append(("sequence", "the completed steps are not the uninterrupted sequence (each once, in order)", [list(s) for s in completed], [list(s) for s in ref_done], None))
    if recorded(run.tree) != recorded(ref.tree) and run.status == "ok":
        # only what the steps RECORD (selection, advanced screen, completion marker of every step directory); other
        # differences of the directory (left-over empty directories, auxiliary files) are compared with the model only
        out.append(("tree", "the selections / screens / markers recorded in the output directory differ from the uninterrupted run",
                    recorded(run.tree)[:600], recorded(ref.tree)[:600], None))
    prio = ["deleted", "twice", "skipped", "inputs", "predecessor", "extra", "sequence", "tree", "finish", "state", "reference"]
    out.sort(key=lambda f: prio.index(f[0]))
    return out


# what the known finding explains: the marker-first `prospective` workflow was interrupted during a plate_0 step after
# screen_metadata.json and before its last publication; the rerun takes that plate_0 for complete, i.e. the NEXT launch is
# the successor of that step (with whatever partial chain files / selection plate_0 holds), the step itself never
# completes, or the rerun dies with "No thetas or dist_chunks found".  It never explains: a removal of a completed step,
# a re-launch of a completed step, anything wrong at or before the interrupted launch, a next launch that is not that
# successor, or anything in retrospective mode / with a marker-last workflow / without such an interruption.
KNOWN_KEYS = ("skipped", "inputs", "extra", "sequence", "tree", "finish")


def recorded(tree_text):
    """the recorded results of a `show_tree` text: per step directory its selected_plate, advanced screen and marker"""
    if tree_text in ("#", "-") or ":" not in tree_text:
        return tree_text if tree_text.startswith("unexpected") else ""
    out = []
    for it in tree_text.split("|"):
        a, b = it.split(":", 1)
        if b == "_":
            continue
        for pl in b.split(";"):
            j, sub = pl.split("=", 1)
            keep = [f for f in sub.split(",") if f.split(".")[0] in ("0", "1", "6")] if sub not in ("!", "_") else []
            if keep:
                out.append("%s/%s=%s" % (a, j, ",".join(keep)))
    return "|".join(out)


def signature(run, finding):
    key, li = finding[0], finding[4]
    w = run.window_launch
    if (run.cfg["mode"] == "p" and run.cfg["mfirst"] and run.in_window and w is not None and key in KNOWN_KEYS
            and (li is None or li > w)):
        st_w = run.launches[w][0]
        nxt = run.launches[w + 1][0] if len(run.launches) > w + 1 else None
        if st_w[1] == 0 and run.launches[w][3]["wf"] == 3 and (nxt is None or nxt == successor(st_w, run.cfg["B"])):
            return KNOWN_SIG
    return "C19:" + key


def describe(cfg):
    return "%s B=%d P=%d chains=%d chunks=%d order=%d%s%s" % (
        "retrospective" if cfg["mode"] == "r" else "prospective", cfg["B"], cfg["P"], cfg["nch"], cfg["nck"], cfg["variant"],
        (" marker-first(as main.nf)" if cfg["mfirst"] else " marker-last(hypothetical workflow)") if cfg["mode"] == "p" else "",
        " late-outputs=%d" % cfg["late"] if cfg.get("late") else "")


def run_case(case, workdir, ref_cache=None):
    """-> (run, ref, findings)"""
    cfg, crashes, pre, main = case["cfg"], case["crashes"], case.get("pre", 0), bool(case.get("main"))
    signal = case.get("kind") == "signal"
    verbose = bool(case.get("verbose"))
    key = (json.dumps(cfg, sort_keys=True), pre, main)
    ref = ref_cache.get(key) if ref_cache is not None else None
    if ref is None:
        ref = Run(cfg, [], workdir, pre, main=main).go()
        ref.cleanup()
        if ref_cache is not None:
            ref_cache[key] = ref
    run = Run(cfg, crashes, workdir, pre, main=main, signal=signal, verbose=verbose).go()
    run.cleanup()
    return run, ref, judge(run, ref)


# ------------------------------------------------------------------------------------------------------
# `examine` on random directory trees
# ------------------------------------------------------------------------------------------------------

def random_tree(rng):
    shape = rng.random()
    B = rng.randint(1, 4)
    iters = []
    if shape < 0.55:
        # reachable-like: complete prefix + optional junk
        n = rng.randint(0, 9)
        steps = [(m // B, m % B) for m in range(n)]
        by_iter = {}
        for i, j in steps:
            by_iter.setdefault(i, []).append(j)
        junk = rng.choice(["none", "none", "emptyiter", "partial", "partial-marker", "emptyplate"])
        for i in sorted(by_iter):
            iters.append([i, [[j, complete_files(rng)] for j in by_iter[i]]])
        nxt = (n // B, n % B)
        if junk == "emptyiter":
            if nxt[1] == 0:
                iters.append([nxt[0], []])
            else:
                iters.append([nxt[0] + 1, []])
        elif junk != "none":
            sub = {"partial": partial_files(rng, False), "partial-marker": partial_files(rng, True), "emptyplate": "!"}[junk]
            if nxt[1] == 0:
                iters.append([nxt[0], [[0, sub]]])
            else:
                iters[-1][1].append([nxt[1], sub])
    else:
        used = set()
        for _ in range(rng.randint(0, 4)):
            i = rng.choice([0, 1, 2, 3, 9, 10, 11, 2, 1])
            if i in used:
                continue
            used.add(i)
            plates = []
            pu = set()
            for _ in range(rng.randint(0, 4)):
                j = rng.choice([0, 1, 2, 3, 10, 0, 1])
                if j in pu:
                    continue
                pu.add(j)
                r = rng.random()
                plates.append([j, complete_files(rng) if r < 0.7 else partial_files(rng, rng.random() < 0.3) if r < 0.9 else "!"])
            if rng.random() < 0.7:
                plates.sort()
            iters.append([i, plates])
        if rng.random() < 0.6:
            iters.sort()
        else:
            rng.shuffle(iters)
    if rng.random() < 0.25:
        rng.shuffle(iters)
        for it in iters:
            rng.shuffle(it[1])
    text = "-" if not iters else "|".join("%d:%s" % (i, "_" if not ps else ";".join("%d=%s" % (j, s) for j, s in ps)) for i, ps in iters)
    return B, text


def complete_files(rng):
    fs = [(0, 0, rng.randint(0, 5))]
    r = rng.random()
    if r < 0.6:
        fs.append((1, 0, rng.randint(1, 10 ** 6)))
    if r > 0.4 or rng.random() < 0.3:
        fs.append((2, 0, rng.randint(1, 10 ** 6)))
    if rng.random() < 0.1:
        fs = fs[:1]
    for c in range(rng.randint(0, 2)):
        fs.append((4, c, rng.randint(1, 99)))
    if rng.random() < 0.7:
        fs.append((6, 0, rng.randint(0, 999)))
    rng.shuffle(fs)
    return ",".join("%d.%d.%d" % f for f in fs)


def partial_files(rng, marker):
    fs = []
    if marker:
        fs.append((0, 0, rng.randint(0, 5)))
    for k in ((1, 0), (2, 0), (4, 0), (6, 0)):
        if rng.random() < 0.4:
            fs.append((k[0], k[1], rng.randint(1, 999)))
    if not fs:
        return "_"
    return ",".join("%d.%d.%d" % f for f in fs)


def real_examine(mod, outdir, B):
    try:
        i, j, meta, screen = mod.examine_output_dir_to_determine_current_iteration(outdir, B)
    except RuntimeError as e:
        msg = str(e)
        nd = named_dir(msg, outdir)
        if not nd or step_of_path(outdir, nd) is None:
            return "err:RuntimeError"
        st = step_of_path(outdir, nd)
        return "named:%s %d %d" % ("invalid" if "invalid structure" in msg else "noanc", st[0], st[1])
    except Exception as e:  # noqa
        return "err:" + type(e).__name__
    ms = "-" if meta is None else str(int(meta["n_unobserved_plates"]))
    if screen is None:
        ss = "-"
    else:
        st = step_of_path(outdir, screen)
        ss = "%d.%d.%s" % (st[0], st[1], show_file(filename_kind(os.path.basename(screen)), read_content(screen)))
    return "ok %d %d %s %s" % (i, j, ms, ss)


# ------------------------------------------------------------------------------------------------------
# case enumeration
# ------------------------------------------------------------------------------------------------------

def configs(ctx):
    """-> list of (cfg, pre, pairs): configuration, crash-free process runs executed first, stride over second interruption points (0: singles only)"""
    quick = ctx.tier == "quick" and ctx.mode != "search"
    Bs = (1, 2, 3, 4)
    out = []
    v = 0
    for B in Bs:
        if quick:
            Ps = (1, 2, 3, 5) if B < 4 else (2, 5)
        else:
            Ps = (1, 2, 3, 4, 5, 7, 9)
        for P in Ps:
            for extra in ((0,) if quick or P > 4 else (0, 1, 2)):
                cfg = {"mode": "r", "B": B, "P": P, "nch": 2 if P < 7 else 1, "nck": 2 if P < 5 else 1,
                       "variant": (v + extra) % 3, "mfirst": False, "late": (0, 2, 1)[(v + B + extra) % 3]}
                if B == 1 and P % 2 == 0:
                    cfg["default_batch"] = True      # main()-driven runs omit --batch-size (argparse default 1)
                out.append((cfg, 0, 1 if not quick else 2 if P <= (3 if B < 4 else 2) else 0))
            v += 1
        for mfirst in (True, False):
            for pre in (0, 1):
                cfg = {"mode": "p", "B": B, "P": 3, "nch": 2, "nck": 2, "variant": v % 3, "mfirst": mfirst}
                out.append((cfg, pre, 1 if not quick else 2 if (pre == 0 and B <= 2) else 0))
                v += 1
    # two-digit iteration indices (iter_10, iter_11 sort after iter_9 only numerically): single interruptions
    out.append(({"mode": "r", "B": 1, "P": 11, "nch": 1, "nck": 1, "variant": 0, "mfirst": False, "late": 1}, 0, 0))
    out.append(({"mode": "p", "B": 2, "P": 3, "nch": 1, "nck": 1, "variant": 1, "mfirst": False}, 10, 0))
    if not quick:
        out.append(({"mode": "r", "B": 2, "P": 22, "nch": 1, "nck": 1, "variant": 2, "mfirst": False}, 0, 0))
        out.append(({"mode": "p", "B": 3, "P": 3, "nch": 1, "nck": 1, "variant": 2, "mfirst": True}, 11, 0))
    return out


def explore(cfg, pre, pairs, workdir):
    """all single (and all pairs of) interruption points of one configuration -> list of result dicts"""
    cache = {}
    results = []

    def one(crashes, main=False, signal=False, verbose=False):
        case = {"cfg": cfg, "crashes": list(crashes), "pre": pre}
        if verbose:
            case["verbose"] = True
        if main:
            case["main"] = True
        if signal:
            case["kind"] = "signal"
        run, ref, findings = run_case(case, workdir, cache)
        classes = set(run.saw)
        if main:
            # process state vs state re-read from disk: every process run is a call of the script's main() in a FRESH module
            # (what a user restarting the script gets); anything the script keeps in memory across steps is lost at the
            # interruption while the batch position is re-read from the output directory
            classes.add("process-state.main-restart-%s" % ("retrospective" if cfg["mode"] == "r" else "prospective"))
            if cfg["B"] == 1 and cfg.get("default_batch"):
                classes.add("process-state.main-default-batch-size")
        if cfg["B"] == 1:
            classes.add("falsy.batch-size-1")
        if cfg["mode"] == "r" and run.status == "ok":
            classes.add("falsy.zero-plates-remaining")
        if any(st[1] >= 2 for st, _t, _d, _l in run.launches):
            classes.add("size.plate-index>=2")
        if any(l["wf"] == 2 and l["excludes"] and len(l["excludes"]) >= 2 for _s, _t, _d, l in run.launches):
            classes.add("size.excludes>=2")
        if signal:
            classes.add("interruption.signal-style-handlers-run")
        if verbose:
            classes.add("verbose-logging")
        if main:
            classes.add("entry-point.script-main")
        if not main:
            classes.add("state-reuse.long-lived-module")     # one module object serves every step-function case of a check run
        unexpected = list(run.unexpected) + list(ref.unexpected)
        if unexpected:
            findings = []       # the harness's own wrappers could not follow the script: a broken tie, not a finding (item 21)
        results.append({"case": case, "line": None if main else run.driver_line(), "observed": run.observed(), "findings": findings,
                        "classes": sorted(classes), "unexpected": unexpected[:3],
                        "sig": [signature(run, f) for f in findings], "nontrivial": run.hit_after_outdir,
                        "segments": run.segments, "window": run.in_window, "late_window": run.late_window,
                        "late_lost": ref.late_published - run.late_published if run.status == "ok" else 0})
        return run, ref

    def new_failures():
        return sum(1 for r in results if any(sg != KNOWN_SIG for sg in r["sig"]))

    run0, ref = one([])
    if ref.status != "ok":
        return results
    n = ref.segments[0]
    one([], main=True)
    one([], main=True, verbose=True)
    one([], verbose=True)
    for g1 in range(n):
        r1, _ = one([g1])
        if g1 % 6 == 0:
            one([g1], main=True)
        if g1 % 3 == 1:
            one([g1], signal=True)
        if g1 % 8 == 2:
            one([g1], verbose=True)
        if g1 % 12 == 5:
            one([g1], main=True, verbose=True)
        if pairs and len(r1.segments) > 1:
            for g2 in range(g1 % pairs, r1.segments[1], pairs):     # pairs = stride (1: every pair; quick tier: 2)
                one([g1, g2])
                if new_failures() >= 5:
                    return results      # enough concrete replays for this configuration
        if new_failures() >= 5:
            return results
    return results


def _explore_job(args):
    common.use_repo_sources()
    return explore(*args)


def workdir_base():
    return "/dev/shm" if os.path.isdir("/dev/shm") and os.access("/dev/shm", os.W_OK) else None


def run(ctx, res):
    res.rule = RULE
    mod = load_script()
    base = tempfile.mkdtemp(prefix="c19run_", dir=workdir_base())
    lines, expect, metas = [], [], []
    failures = []
    try:
        cfgs = configs(ctx)
        pairs_all = not (ctx.tier == "quick" and ctx.mode != "search")
        jobs = [(cfg, pre, pairs, base) for cfg, pre, pairs in cfgs]      # quick: pairs only for the smallest configurations
        if pairs_all:
            import multiprocessing
            with multiprocessing.get_context("fork").Pool(min(14, os.cpu_count() or 2)) as pool:
                all_results = pool.map(_explore_job, jobs, chunksize=1)
        else:
            all_results = [explore(*j) for j in jobs]
        for (cfg, pre, pairs, _b), results in zip(jobs, all_results):
            res.count("configs.%s" % ("retrospective" if cfg["mode"] == "r" else ("prospective-marker-first" if cfg["mfirst"] else "prospective-marker-last")))
            for r in results:
                res.evaluations += 1
                nc = len(r["case"]["crashes"])
                res.count("interruptions.%d" % nc)
                res.count("batch.%d" % cfg["B"])
                for c in r["classes"]:
                    res.count("class." + c)
                if r["unexpected"]:
                    res.count("wrapper.unexpected-call")
                    res.disagree("harness wrapper: %s" % r["unexpected"][0][:160], r["case"], r["unexpected"], "-")
                res.count("class.orderings.publication-order-%d" % (cfg["variant"] % 3))
                res.count("class.input-mutation.extra-args")
                if r["window"]:
                    res.count("interruption inside the prospective marker window")
                if r["late_window"]:
                    res.count("interruption after the marker, among the invisible late outputs (model evaluation)")
                if r["late_lost"] > 0:
                    res.count("runs whose final directory lacks a late output of a completed step (observation, outside the property)")
                if r["nontrivial"]:
                    res.nontrivial.add((json.dumps(cfg, sort_keys=True), pre, tuple(r["case"]["crashes"])))
                if nc and r["nontrivial"]:
                    res.sample({"config": describe(cfg), "earlier_runs": pre, "interruptions_at_action": r["case"]["crashes"],
                                "actions_between_interruptions": r["segments"], "trace": r["observed"][:400]}, limit=4)
                for f, sig in zip(r["findings"], r["sig"]):
                    failures.append((sig == KNOWN_SIG, "%s [%s]" % (f[1], describe(cfg)), r["case"], f[2], f[3], sig))
                if r["line"] is not None:      # main()-driven cases: oracles only (the model tie is per call of the step function)
                    lines.append(r["line"])
                    expect.append(r["observed"])
                    metas.append(r["case"])
        # Result keeps at most 50 failures: report the ones that are not the known finding first
        failures.sort(key=lambda f: f[0])
        n_known = 0
        for known, what, case, obs, req, sig in failures:
            if known:
                n_known += 1
                if n_known > 5:
                    res.count("known-finding failures not listed individually")
                    continue
            res.fail(what, case, obs, req, signature=sig)
        # examine on random trees
        rng = ctx.subrng("trees")
        n_trees = ctx.scale(300, 4000, 1500)
        for t in range(n_trees):
            B, text = random_tree(rng)
            d = os.path.join(base, "t%d" % t)
            build_tree(os.path.join(d, "out"), text)
            got = real_examine(mod, os.path.join(d, "out"), B)
            shutil.rmtree(d, ignore_errors=True)
            res.evaluations += 1
            res.count("examine." + got.split(" ")[0])
            res.count("class.orderings.directories-created-out-of-order")
            if "|" in text:
                res.nontrivial.add(("tree", B, text))
            lines.append("examine %d 0 %s" % (B, text))
            expect.append(got)
            metas.append({"examine": text, "B": B})
        # the regression witness of the repaired defect (only the model's `examineOld` answers (0,1))
        wit = "0:0=0.0.1,1.0.5;1=0.0.0,1.0.6|1:_"
        d = os.path.join(base, "wit")
        build_tree(os.path.join(d, "out"), wit)
        got = real_examine(mod, os.path.join(d, "out"), 2)
        if not got.startswith("ok 1 0 "):
            res.fail("an empty iteration directory makes the script re-run a completed step", {"examine": wit, "B": 2}, got, "ok 1 0 ...",
                     signature="C19:empty-iteration-directory")
        lines.append("examine 2 0 %s" % wit)
        expect.append(got)
        metas.append({"examine": wit, "B": 2})
        # second stream: the real script over the real batchie CLIs (harness/nf_emulator.py, harness/c19_system.py)
        c19_system.run(ctx, res, base)
    finally:
        shutil.rmtree(base, ignore_errors=True)
    if ctx.driver is not None:
        outs = ctx.driver.ask(lines)
        for line, e, o, m in zip(lines, expect, outs, metas):
            if e != o:
                res.disagree(line[:200], m, e[:1500], o[:1500])
            else:
                res.traces_validated += 1


def replay(ctx, case, res):
    mod = load_script()
    base = tempfile.mkdtemp(prefix="c19replay_", dir=workdir_base())
    try:
        if "system" in case:
            c19_system.replay(ctx, case, res, base)
            return
        if "examine" in case:
            build_tree(os.path.join(base, "out"), case["examine"])
            got = real_examine(mod, os.path.join(base, "out"), case["B"])
            if not got.startswith("ok 1 0 "):
                res.fail("an empty iteration directory makes the script re-run a completed step", case, got, "ok 1 0 ...",
                         signature="C19:empty-iteration-directory")
            return
        run, ref, findings = run_case(case, base)      # (the reference run before it has already used the module object)
        if run.unexpected or ref.unexpected:
            findings = []
        for f in findings:
            res.fail("%s [%s]" % (f[1], describe(case["cfg"])), case, f[2], f[3], signature=signature(run, f))
    finally:
        shutil.rmtree(base, ignore_errors=True)
