"""C18 -- randomised steps are deterministic in their inputs and the given generator/seed.

Tie: all three entropy sources of the real code are instrumented AT ONCE, only while the operation
runs -- a recording wrapper around the seeded generator (G), logging proxies for every module-level
function of `numpy.random` (GLOBAL) and a replacement of `numpy.random.default_rng` that tags a
generator made without a seed FRESH (and one made with a seed G: that is how the command-line
steps and `sampling.sample` obtain theirs; `numpy.random.SeedSequence` is replaced by a recording subclass so
that a SeedSequence made WITHOUT entropy, its children, and any generator built from them are FRESH too) -- and the sequence of (source, kind) events is compared
with the Lean model's `Batchie.Rand.trace` for the same operation and input shape (driver_c18).

Oracles (implementation only), every operation run twice on freshly rebuilt equal inputs with an
identically seeded generator, the global numpy generator reseeded differently and unrelated global
draws made before the second run: outputs identical; `np.random.get_state()` (and Python's
`random` state) unchanged by the operation; no GLOBAL/FRESH event.

Object-reuse oracle: for every randomised operation that is a method of a reusable object (GaussianDBALScorer with max_triples < C(n,3),
RandomScorer, SizeScorer -- through score() and score_chunk() --, every plate generator, smoother, the initial-plate generator,
KPerSamplePlatePolicy; model objects are covered by train_held / train_stub / train_twice) `obj.op(x, rng(s1)); obj.op(x, rng(s2))` on ONE
object must equal `fresh.op(x, rng(s2))` in output, draw-source trace and final generator state (`C18:object-reuse:<kind>`).

Cross-process oracle: the same seeded cases are run by harness/c18_worker.py in three fresh interpreters with PYTHONHASHSEED=0,1,2 (every
command-line step is its own process, so "repeated" includes another process); a step whose output depends on the per-process
string-hash salt (iteration over a set of names deciding which draw goes to which item) is reported with `C18:cross-process:<op>`
and replayed by re-running that one case in several subprocesses.

`rng=None` library fallbacks are outside the property: for them only the tie (the model's
GLOBAL/FRESH tags) is checked.  The pyro/torch VI model is run through `sampling.sample` twice; its
dependence on the global state is reported with signature `C18:vi-model-ignores-rng`.
"""
import contextlib
import io
import logging
import math
import os
import random as pyrandom
import shutil
import struct
import sys
import tempfile

import numpy as np

from vlib import common
from harness import c10 as H10

common.use_repo_sources()

RULE = ("random 2-treatment screens (1-3 samples, 3-6 treatments + control, one-sample plates of 1-7 rows, per-plate masks); every "
        "generator / smoother / initial cover / hold-out of retrospective.py with random parameters, RandomScorer, "
        "dbal_fast_gauss_scoring_vectorized with max_combos < C(n,3), GaussianDBALScorer/RandomScorer/SizeScorer through score_chunk, "
        "KPerSamplePlatePolicy, select_next_plate, sample_mvn_from_precision, one Gibbs sweep and sampling.sample of both MCMC models "
        "(all sampler options; also on a model that already HOLDS a generator -- constructor rng= / earlier set_rng -- compared with a fresh "
        "model, a fully resetting stub model trained three times in one process with generators tagged by identity, and each REAL Gibbs model "
        "object trained twice -- sample(s1); sample(s2) -- with the whole history repeated on a rebuilt object under a perturbed global state), "
        "the CLI mains with --seed (prepare_retrospective_simulation, calculate_scores, select_next_plate, train_model, evaluate_model); "
        "seed 0 (the default of every --seed, the falsy boundary) in about a fifth of the cases; SeedSequence() without entropy is "
        "recorded as a FRESH source; each run twice (global generator reseeded differently, unrelated "
        "global draws interleaved). Object-reuse stream: for GaussianDBALScorer (max_triples < C(n,3)) / RandomScorer / SizeScorer through score() and "
        "score_chunk(), every plate generator, smoother, the initial-plate generator and KPerSamplePlatePolicy: obj.op(x, rng(s1)); obj.op(x, rng(s2)) on ONE "
        "object must equal fresh.op(x, rng(s2)) in output, draw trace and final generator state. Object-lifetime stream (checklist item 10): groups of 4 equal-shape variants of a case for 10 "
        "operations are executed by one worker forwards and by another backwards; each case's digest must not depend on its predecessors; plus tight loops over 8 temporaries `big.subset(mask_i).to_screen()` of equal size "
        "(hold-outs, generators, smoothers, cover) and equally shaped DBAL arrays, one generator per variant, looped forwards in one process and backwards "
        "in another. Instalments "
        "(models fed plate by plate), default budgets (5000 triples with C(32,3) below and C(33,3) above, through the function, score_chunk and the CLI), "
        "budgets at / above all triples. Cross-process stream: a list of seeded cases (every generator -- PairwisePlateGenerator on all-masked screens with "
        ">= 2 samples that have single-drug rows and several candidate plates --, smoothers, cover, hold-outs, RandomScorer, DBAL sub-sampling, policy, "
        "select_next_plate, score_chunk, sampling.sample of both Gibbs models, prepare_retrospective_simulation.main() --seed) is executed by "
        "harness/c18_worker.py in one fresh interpreter per PYTHONHASHSEED in {0,1,2}; the digests must agree. Shape parameters of the model trace are computed from the operation's inputs, except the "
        "value-dependent ones (greedy cover completion rounds, ensemble smoother truncations) which are taken from the observed "
        "event count. Non-trivial: the operation completed and made at least one draw.")

_ORIG_DEFAULT_RNG = np.random.default_rng
_ORIG_SEEDSEQ = np.random.SeedSequence
_ORIG_GENERATOR = np.random.Generator
_ORIG_BITGEN = np.random.BitGenerator
_BITGEN_NAMES = ("PCG64", "PCG64DXSM", "MT19937", "Philox", "SFC64")
_GEN_HOOK = [None]         # the active Instr's constructor hook for `numpy.random.Generator(bit_generator)`


class _GeneratorMeta(type):
    def __instancecheck__(cls, obj):
        return isinstance(obj, (_ORIG_GENERATOR, RecGen))


class RecGeneratorClass(metaclass=_GeneratorMeta):
    """stands in for the class `numpy.random.Generator` while instrumenting: `Generator(PCG64(seed))` is the other way (besides default_rng) of
    making a generator; isinstance checks keep working"""

    def __new__(cls, *args, **kwargs):
        hook = _GEN_HOOK[0]
        return hook(*args, **kwargs) if hook is not None else _ORIG_GENERATOR(*args, **kwargs)
_SS_LOG = [None]          # the event list of the active Instr (None: not instrumenting)


class RecSeedSequence(_ORIG_SEEDSEQ):
    """numpy.random.SeedSequence that records when it is created WITHOUT entropy (= OS entropy): `SeedSequence(None)` is how
    a seed of None / a dropped seed turns into an irreproducible generator without any call of default_rng()"""

    def __init__(self, *args, **kwargs):          # checklist item 21: any positional / keyword form is forwarded unchanged
        super().__init__(*args, **kwargs)
        entropy = args[0] if args else kwargs.get("entropy")
        self.verif_fresh = entropy is None
        if entropy is None and _SS_LOG[0] is not None:
            _SS_LOG[0].append("FRESH.seedseq")

    def spawn(self, *args, **kwargs):
        kids = super().spawn(*args, **kwargs)
        for k in kids:
            try:
                k.verif_fresh = self.verif_fresh
            except Exception:
                pass
        return kids
_GLOBAL_EXCLUDE = {"Generator", "RandomState", "SeedSequence", "BitGenerator", "MT19937", "PCG64", "PCG64DXSM", "Philox", "SFC64",
                   "default_rng", "get_state", "set_state", "get_bit_generator", "set_bit_generator", "test", "bit_generator", "mtrand"}
_GEN_NODRAW = {"spawn", "bit_generator"}


# ------------------------------------------------------------------ instrumentation
class RecGen:
    """recording wrapper around a numpy Generator (the rng argument is duck-typed everywhere)"""

    def __init__(self, gen, src, log):
        object.__setattr__(self, "_gen", gen)
        object.__setattr__(self, "_src", src)
        object.__setattr__(self, "_log", log)

    def __getattr__(self, name):
        attr = getattr(self._gen, name)
        if callable(attr) and not name.startswith("_") and name not in _GEN_NODRAW:
            src, log = self._src, self._log

            def wrapped(*a, **k):
                log.append("%s.%s" % (src, name))
                return attr(*a, **k)
            return wrapped
        return attr


class Instr:
    """installs the GLOBAL proxies and the default_rng replacement for the duration of a `with`"""

    def __init__(self, tag_ids=False):
        self.events = []
        self.stages = []
        self._saved = {}
        self.tag_ids = tag_ids          # tag every seeded generator by creation order: G1, G2, ...
        self.wrapper_errors = []        # checklist item 21: calls a recording wrapper could not interpret (forwarded anyway): a tie matter
        self.n_seeded = 0

    def make_g(self, seed):
        return RecGen(_ORIG_DEFAULT_RNG(seed), "G", self.events)

    def __enter__(self):
        log = self.events
        for name in dir(np.random):
            if name.startswith("_") or name in _GLOBAL_EXCLUDE:
                continue
            f = getattr(np.random, name)
            if not callable(f) or isinstance(f, type):
                continue
            self._saved[name] = f

            def mk(f, name):
                def proxy(*a, **k):
                    log.append("GLOBAL.%s" % name)
                    return f(*a, **k)
                return proxy
            setattr(np.random, name, mk(f, name))
        # bit generators and `Generator(bit_generator)`: a bit generator made without a seed (or from an entropy-less SeedSequence) is FRESH
        self._bg_tags = {}

        def mk_bg(cls):
            def factory(*a, **k):
                bg = cls(*a, **k)
                seed = a[0] if a else k.get("seed")
                fresh = seed is None or getattr(seed, "verif_fresh", False)
                if fresh:
                    log.append("FRESH.newgen")
                self._bg_tags[id(bg)] = (bg, "FRESH" if fresh else "G")      # the strong reference keeps the id unique
                return bg
            return factory
        for name in _BITGEN_NAMES:
            self._saved[name] = getattr(np.random, name)
            setattr(np.random, name, mk_bg(self._saved[name]))

        def generator(*a, **k):
            bit_generator = a[0] if a else k.get("bit_generator")
            ent = self._bg_tags.get(id(bit_generator))
            g = _ORIG_GENERATOR(*a, **k)
            if ent is None or ent[0] is not bit_generator:
                return g                         # a bit generator made outside the instrumented region: not traced (as before)
            tag = ent[1]
            if tag == "G" and self.tag_ids:
                self.n_seeded += 1
                tag = "G%d" % self.n_seeded
            return RecGen(g, tag, log)
        self._saved["Generator"] = np.random.Generator
        np.random.Generator = RecGeneratorClass
        self._gen_prev = _GEN_HOOK[0]
        _GEN_HOOK[0] = generator
        self._saved["default_rng"] = np.random.default_rng
        self._saved["SeedSequence"] = np.random.SeedSequence
        np.random.SeedSequence = RecSeedSequence
        self._ss_prev = _SS_LOG[0]
        _SS_LOG[0] = log

        def default_rng(*a, **k):
            seed = a[0] if a else k.get("seed")
            if len(a) > 1 or set(k) - {"seed"}:              # a form this wrapper does not know: forward it untraced, the tie will notice
                self.wrapper_errors.append("default_rng called with %d positional / %s keyword arguments" % (len(a), sorted(k)))
                return _ORIG_DEFAULT_RNG(*a, **k)
            if isinstance(seed, RecGen):
                return seed                  # numpy: default_rng(generator) returns the generator itself
            if isinstance(seed, _ORIG_BITGEN) and id(seed) in self._bg_tags:
                return generator(seed)
            if isinstance(seed, (_ORIG_GENERATOR, _ORIG_BITGEN)):
                return _ORIG_DEFAULT_RNG(seed)
            if seed is None:
                log.append("FRESH.newgen")
                return RecGen(_ORIG_DEFAULT_RNG(), "FRESH", log)
            if getattr(seed, "verif_fresh", False):          # a SeedSequence made from OS entropy (or spawned from one)
                log.append("FRESH.newgen")
                return RecGen(_ORIG_DEFAULT_RNG(seed), "FRESH", log)
            if self.tag_ids:
                self.n_seeded += 1
                return RecGen(_ORIG_DEFAULT_RNG(seed), "G%d" % self.n_seeded, log)
            return RecGen(_ORIG_DEFAULT_RNG(seed), "G", log)
        np.random.default_rng = default_rng
        return self

    def __exit__(self, *exc):
        for name, f in self._saved.items():
            setattr(np.random, name, f)
        self._saved = {}
        _SS_LOG[0] = self._ss_prev
        _GEN_HOOK[0] = self._gen_prev
        self._bg_tags = {}
        return False


def global_sig():
    st = np.random.get_state()
    return (st[0], st[1].tobytes(), int(st[2]), int(st[3]), float(st[4]), repr(pyrandom.getstate())[:2000])


@contextlib.contextmanager
def quiet():
    lg = logging.getLogger("batchie")
    old_handlers, old_level = list(lg.handlers), lg.level
    buf = io.StringIO()
    try:
        with contextlib.redirect_stdout(buf), contextlib.redirect_stderr(buf):
            yield
    finally:
        for h in list(lg.handlers):
            if h not in old_handlers:
                lg.removeHandler(h)
        lg.setLevel(old_level)


# ------------------------------------------------------------------ inputs
def gen_raw_screen(rng, all_observed=False, all_masked=False, with_controls=True, fixed_rows=None):
    ns = rng.randint(1, 3)
    nt = rng.randint(3, 6)
    rows = []
    pid = 0
    for s in range(ns):
        for _ in range(rng.randint(1, 4)):
            obs = True if all_observed else False if all_masked else (rng.random() < 0.3)
            for _ in range(fixed_rows or rng.randint(1, 7)):
                a = rng.randrange(nt)
                b = rng.randrange(nt)
                tb = "control" if (with_controls and rng.random() < 0.2) else "t%d" % b
                rows.append(["s%d" % s, "p%d" % pid, "t%d" % a, tb, round(0.05 + 0.9 * rng.random(), 6), obs])
            pid += 1
    if not all_observed and not all_masked and all(r[5] for r in rows):
        last = rows[-1][1]
        for r in rows:
            if r[1] == last:
                r[5] = False
    return {"rows": rows}


def build_screen(raw):
    from batchie.data import Screen
    rows = raw["rows"]
    n = len(rows)
    return Screen(observations=np.array([r[4] for r in rows], dtype=float), observation_mask=np.array([bool(r[5]) for r in rows], dtype=bool),
                  sample_names=np.array([r[0] for r in rows], dtype=str), plate_names=np.array([r[1] for r in rows], dtype=str),
                  treatment_names=np.array([[r[2], r[3]] for r in rows], dtype=str).reshape(n, 2),
                  treatment_doses=np.array([[1.0, 0.0 if r[3] == "control" else 1.0] for r in rows], dtype=float).reshape(n, 2),
                  control_treatment_name="control")


def canon_screen(s):
    if s is None:
        return "None"
    parts = [",".join(str(x) for x in s.plate_names), ",".join(str(x) for x in s.sample_names),
             ",".join("%s/%s" % (a, b) for a, b in s.treatment_names), np.asarray(s.treatment_doses, dtype=float).tobytes().hex(),
             np.asarray(s.observations, dtype=float).tobytes().hex(), "".join("1" if b else "0" for b in s.observation_mask),
             ",".join(str(int(x)) for x in s.plate_ids), ",".join(str(int(x)) for x in s.sample_ids),
             ",".join(str(int(x)) for x in np.asarray(s.treatment_ids).reshape(-1))]
    return common.short_hash(parts) + ":" + str(s.size)


def fbits(x):
    return int(np.array([x], dtype="<f8").view("<u8")[0])


def make_thetas(rng, screen, n):
    """JSON-free: SparseDrugComboMCMCSample holder consistent with the screen's experiment space (built deterministically from rng)"""
    from batchie.core import ThetaHolder
    from batchie.data import ExperimentSpace
    from batchie.models.sparse_combo import SparseDrugComboMCMCSample
    es = ExperimentSpace.from_screen(screen)
    S, T, D = es.n_unique_samples, es.n_unique_treatments, 2
    h = ThetaHolder(n_thetas=n)

    def arr(*shape):
        return np.array([rng.gauss(0, 0.6) for _ in range(int(np.prod(shape)))], dtype=float).reshape(shape)
    for _ in range(n):
        h.add_theta(SparseDrugComboMCMCSample(W=arr(S, D), W0=arr(S), V2=arr(T, D), V1=arr(T, D), V0=arr(T), alpha=rng.gauss(0, 1), precision=1.0 + rng.random() * 5))
    return h


def make_dist(n):
    from batchie.distance_calculation import ChunkedDistanceMatrix
    dm = ChunkedDistanceMatrix(size=n)
    for i in range(n):
        for j in range(i):
            dm.add_value(i, j, float(i + j + 1))
    return dm


# ------------------------------------------------------------------ shapes (model arguments computed from the inputs)
def unobs_screen(screen):
    sub = screen.subset_unobserved()
    return None if sub is None else sub.to_screen()


def plate_sizes(screen):
    return [int(p.size) for p in screen.plates]


def shape_generator(gen, screen):
    """tokens for Op.generatePlates given the generator object and the screen passed to generate_plates"""
    u = unobs_screen(screen)
    name = type(gen).__name__
    toks = ["unobs=%d" % (0 if u is None else 1)]
    if name == "PairwisePlateGenerator":
        k = 0
        if u is not None:
            m = (np.asarray(u.treatment_ids) == -1).any(axis=1)
            k = len(np.unique(np.asarray(u.sample_names)[m]))
        toks += ["gen=pairwise", "anchors=%d" % (1 if gen.anchor_size > 0 else 0), "k=%d" % k]
    elif name == "PlatePermutationPlateGenerator":
        toks += ["gen=platePermutation"]
    elif name == "SampleSegregatingPermutationPlateGenerator":
        toks += ["gen=sampleSegregating", "n=%d" % (0 if u is None else len(np.unique(u.sample_ids)))]
    return toks


def shape_smoother(sm, screen, observed_count):
    u = unobs_screen(screen)
    name = type(sm).__name__
    toks = ["unobs=%d" % (0 if u is None else 1)]
    kind = {"MergeMinPlateSmoother": "mergeMin", "MergeTopBottomPlateSmoother": "mergeTopBottom", "FixedSizeSmoother": "fixedSize",
            "OptimalSizeSmoother": "optimalSize", "NPlatePerCellLineSmoother": "nPlatePerCellLine", "BatchieEnsemblePlateSmoother": "ensemble"}[name]
    n = 0
    if u is not None:
        sizes = plate_sizes(u)
        if kind == "fixedSize":
            n = sum(1 for x in sizes if x > sm.plate_size)
        elif kind == "optimalSize":
            ss = np.sort(np.array(sizes))
            opt = ss[int(np.argmax(ss * (len(ss) - np.arange(len(ss)))))]
            n = sum(1 for x in sizes if x > opt)
        elif kind == "ensemble":
            n = observed_count          # depends on the merged plates: taken from the observation
    toks += ["smoother=" + kind, "n=%d" % n]
    return toks


def shape_holdout(screen):
    return ["n=%d" % sum(1 for p in screen.plates if not p.is_observed)]


def sweep_cfg_tokens(model):
    wm = model.wrapped_model
    cl = "".join("1" if len(wm.cline_idxs[c]) > 0 else "0" for c in range(wm.n_clines)) or "-"
    dd = "".join("1" if (len(wm.dd1_idxs[m]) + len(wm.dd2_idxs[m])) > 0 else "0" for m in range(wm.n_drugdoses)) or "-"
    kind = "combo" if type(model).__name__ == "SparseDrugCombo" else "inter"
    toks = ["model=" + kind, "clines=" + cl, "dds=" + dd, "dims=%d" % wm.D, "local=%d" % int(bool(wm.local_shrinkage)),
            "mult=%d" % int(bool(wm.mult_gamma_proc)), "hasobs=%d" % int(wm.n_obs() > 0)]
    if kind == "combo":
        toks.append("fake=%d" % int(bool(wm.fake_intercept)))
    return toks


def make_generator(spec):
    from batchie import retrospective as R
    k = spec["kind"]
    if k == "pairwise":
        return R.PairwisePlateGenerator(subset_size=spec["subset_size"], anchor_size=spec["anchor_size"])
    if k == "permutation":
        return R.PlatePermutationPlateGenerator(force_include_plate_names=spec.get("force") or None)
    return R.SampleSegregatingPermutationPlateGenerator(max_plate_size=spec["max_plate_size"])


def make_smoother(spec):
    from batchie import retrospective as R
    k = spec["kind"]
    if k == "mergeMin":
        return R.MergeMinPlateSmoother(min_size=spec["min_size"])
    if k == "mergeTopBottom":
        return R.MergeTopBottomPlateSmoother(n_iterations=spec["n_iterations"])
    if k == "fixedSize":
        return R.FixedSizeSmoother(plate_size=spec["plate_size"])
    if k == "optimalSize":
        return R.OptimalSizeSmoother()
    if k == "nPlatePerCellLine":
        return R.NPlatePerCellLineSmoother(min_n_cell_line_plates=spec["min_n"])
    return R.BatchieEnsemblePlateSmoother(min_size=spec["min_size"], n_iterations=spec["n_iterations"], min_n_cell_line_plates=spec["min_n"])


def make_model(spec, screen, instalments=False):
    from batchie.data import ExperimentSpace
    es = ExperimentSpace.from_screen(screen)
    if spec["kind"] == "combo":
        from batchie.models.sparse_combo import SparseDrugCombo
        m = SparseDrugCombo(experiment_space=es, n_embedding_dimensions=spec["dims"], fake_intercept=spec["fake"],
                            mult_gamma_proc=spec["mult"], local_shrinkage=spec["local"])
    else:
        from batchie.models.sparse_combo_interaction import SparseDrugComboInteraction
        m = SparseDrugComboInteraction(experiment_space=es, n_embedding_dimensions=spec["dims"], mult_gamma_proc=spec["mult"],
                                       local_shrinkage=spec["local"])
    obs = screen.subset_observed()
    if obs is not None and instalments:
        for p in sorted(screen.plates, key=lambda p: p.plate_id):      # plate by plate (checklist item 12)
            if p.is_observed:
                m.add_observations(p)
    elif obs is not None:
        m.add_observations(obs)
    return m


def canon_scores(d):
    return ";".join("%d:%d" % (int(k), fbits(v)) for k, v in sorted((int(k), float(v)) for k, v in d.items()))


def canon_scores_holder(h):
    return ";".join("%d:%d" % (int(p), fbits(s)) for p, s in sorted(zip(h.plate_ids[:h.current_index].tolist(), h.scores[:h.current_index].tolist())))


# ------------------------------------------------------------------ the operations
# each returns (model op name, shape tokens or None, canonical output); `ins` is the Instr, `G` the recording generator
def op_sparse_cover(case, G, ins, tmp):
    from batchie.retrospective import SparseCoverPlateGenerator
    s = build_screen(case["screen"])
    n = len(np.unique(s.sample_ids))
    out = SparseCoverPlateGenerator(reveal_single_treatment_experiments=case["reveal"]).generate_and_unmask_initial_plate(s, G)
    return "sparseCover", ["n=%d" % n, "extra=%d" % max(0, len(ins.events) - n)], canon_screen(out)


def op_generator(case, G, ins, tmp):
    s = build_screen(case["screen"])
    g = make_generator(case["gen"])
    toks = shape_generator(g, s)
    out = g.generate_plates(s, G)
    return "generatePlates", toks, canon_screen(out)


def op_smoother(case, G, ins, tmp):
    s = build_screen(case["screen"])
    sm = make_smoother(case["smoother"])
    out = sm.smooth_plates(s, G)
    return "smoothPlates", shape_smoother(sm, build_screen(case["screen"]), len(ins.events)), canon_screen(out)


def op_holdout_random(case, G, ins, tmp):
    from batchie.retrospective import create_random_holdout
    s = build_screen(case["screen"])
    a, b = create_random_holdout(s, case["fraction"], G)
    return "randomHoldout", [], canon_screen(a) + "|" + canon_screen(b)


def op_holdout_plate(case, G, ins, tmp):
    from batchie.retrospective import create_plate_balanced_holdout_set_among_masked_plates as f
    s = build_screen(case["screen"])
    toks = shape_holdout(s)
    a, b = f(s, case["fraction"], G)
    return "plateBalancedHoldout", toks, canon_screen(a) + "|" + canon_screen(b)


def op_scorer_random(case, G, ins, tmp):
    from batchie.scoring.rand import RandomScorer
    s = build_screen(case["screen"])
    plates = {p.plate_id: p for p in s.plates}
    out = RandomScorer().score(plates=plates, distance_matrix=None, samples=None, rng=G, progress_bar=False)
    return "scorer", ["scorer=random", "n=%d" % len(plates)], canon_scores(out)


def op_dbal_direct(case, G, ins, tmp):
    from batchie.scoring.gaussian_dbal import dbal_fast_gauss_scoring_vectorized
    r = pyrandom.Random(case["data_seed"])
    P, T, E = case["P"], case["T"], case["E"]
    pred = np.array([r.gauss(0, 1) for _ in range(P * T * E)]).reshape(P, T, E)
    var = np.array([0.5 + r.random() for _ in range(P * T * E)]).reshape(P, T, E)
    d = np.zeros((T, T))
    for i in range(T):
        for j in range(i):
            d[i, j] = d[j, i] = 0.1 + r.random()
    kw = {} if case["max_combos"] is None else {"max_combos": case["max_combos"]}       # None: the function's own default (5000)
    out = dbal_fast_gauss_scoring_vectorized(pred, var, d, G, **kw)
    return "scorer", ["scorer=dbal", "n=1"], np.asarray(out, dtype=float).tobytes().hex()


def op_policy(case, G, ins, tmp):
    from batchie.policies.k_per_sample import KPerSamplePlatePolicy
    s = build_screen(case["screen"])
    un = sorted([p for p in s.plates if not p.is_observed], key=lambda p: p.plate_id)
    batch = un[:case["n_batch"]]
    rest = un[case["n_batch"]:]
    out = KPerSamplePlatePolicy(k=case["k"]).filter_eligible_plates(batch_plates=batch, unobserved_plates=rest, rng=G)
    return "kPerSamplePolicy", [], ",".join(str(p.plate_id) for p in out)


def _scores_for(screen, r, ties=None):
    """score table of the unobserved plates.  checklist item 22 -- ties: `all_equal`; `min_pair`: two plates share the minimum, the higher id stored
    first; `neg_inf`: several -inf; `size`: the SizeScorer's scores through score_chunk (equal on plates of one size).  A tie-break must not draw
    from anything but the generator select_next_plate was given."""
    from batchie.scoring.main import ChunkedScoresHolder
    un = [p for p in screen.plates if not p.is_observed]
    if ties == "size":
        from batchie.scoring.main import score_chunk
        from batchie.scoring.size import SizeScorer
        with quiet():
            return score_chunk(scorer=SizeScorer(), thetas=None, screen=screen, distance_matrix=None, rng=_ORIG_DEFAULT_RNG(0), n_chunks=1, chunk_index=0)
    vals = {p.plate_id: r.random() for p in un}
    ids = sorted(vals)
    if ties == "all_equal":
        vals = {i: 0.5 for i in ids}
    elif ties == "min_pair" and len(ids) >= 2:
        a, b = r.sample(ids, 2)
        vals[a] = vals[b] = -1.0
        ids = sorted(ids, reverse=True)                  # the higher id is stored first
    elif ties == "neg_inf" and len(ids) >= 2:
        for i in r.sample(ids, min(len(ids), r.randint(2, 3))):
            vals[i] = float("-inf")
        r.shuffle(ids)
    h = ChunkedScoresHolder(len(un))
    for i in ids:
        h.add_score(i, vals[i])
    return h


def op_select_next_plate(case, G, ins, tmp):
    from batchie.policies.k_per_sample import KPerSamplePlatePolicy
    from batchie.scoring.main import select_next_plate
    s = build_screen(case["screen"])
    scores = _scores_for(s, pyrandom.Random(case["data_seed"]), case.get("ties"))
    policy = KPerSamplePlatePolicy(k=case["k"]) if case["policy"] else None
    un = sorted(p.plate_id for p in s.plates if not p.is_observed)
    batch = un[:case["n_batch"]]
    with quiet():
        out = select_next_plate(scores=scores, screen=s, policy=policy, batch_plate_ids=batch, rng=(G if case["rng_given"] else None))
    return ("selectNextPlate" if case["rng_given"] else "selectNextPlateNoRng"), [], "None" if out is None else str(out.plate_id)


def _make_scorer(kind):
    if kind == "random":
        from batchie.scoring.rand import RandomScorer
        return RandomScorer()
    if kind == "size":
        from batchie.scoring.size import SizeScorer
        return SizeScorer()
    from batchie.scoring.gaussian_dbal import GaussianDBALScorer
    if kind == "dbal_default":                    # the defaults that occur twice in the code: max_triples = max_combos = 5000 (max_chunk 50)
        return GaussianDBALScorer()
    return GaussianDBALScorer(max_chunk=2, max_triples=4)


def _chunk_count(screen, batch, n_chunks, chunk_index, kind):
    un = sorted([p for p in screen.plates if not p.is_observed and p.plate_id not in batch], key=lambda p: p.plate_id)
    n = len(np.array_split(np.arange(len(un)), n_chunks)[chunk_index])
    if kind == "dbal":
        return 0 if n == 0 else int(math.ceil(n / 2.0))
    if kind == "dbal_default":
        return 0 if n == 0 else int(math.ceil(n / 50.0))
    return n


def op_score_chunk(case, G, ins, tmp):
    from batchie.scoring.main import score_chunk
    s = build_screen(case["screen"])
    r = pyrandom.Random(case["data_seed"])
    thetas = make_thetas(r, s, case["n_thetas"])
    dm = make_dist(case["n_thetas"])
    un = sorted(p.plate_id for p in s.plates if not p.is_observed)
    batch = un[:case["n_batch"]] if case["n_batch"] else None
    n = _chunk_count(s, batch or [], case["n_chunks"], case["chunk_index"], case["scorer"])
    with quiet():
        out = score_chunk(scorer=_make_scorer(case["scorer"]), thetas=thetas, screen=s, distance_matrix=dm,
                          rng=(G if case["rng_given"] else None), n_chunks=case["n_chunks"], chunk_index=case["chunk_index"], batch_plate_ids=batch)
    return ("scoreChunk" if case["rng_given"] else "scoreChunkNoRng"), ["scorer=" + case["scorer"].replace("_default", ""), "n=%d" % n], canon_scores_holder(out)


def op_sample_mvn(case, G, ins, tmp):
    from batchie.fast_mvn import sample_mvn_from_precision
    r = pyrandom.Random(case["data_seed"])
    d = case["d"]
    A = np.array([r.gauss(0, 1) for _ in range(d * d)]).reshape(d, d)
    Q = A @ A.T + np.eye(d)
    mu = np.array([r.gauss(0, 1) for _ in range(d)])
    out = sample_mvn_from_precision(Q, mu_part=mu, rng=(G if case["rng_given"] else None))
    return ("sampleMvn" if case["rng_given"] else "sampleMvnNoRng"), [], np.asarray(out, dtype=float).tobytes().hex()


def op_gibbs_sweep(case, G, ins, tmp):
    s = build_screen(case["screen"])
    with quiet():
        m = make_model(case["model"], s, instalments=case.get("instalments", False))
        if case["rng_given"]:
            m.set_rng(G)
        toks = sweep_cfg_tokens(m)
        outs = []
        for _ in range(case["n_steps"]):
            m.step()
            outs.append(H10.show_sample(m.get_model_state()))
    # the model op is ONE sweep; for several steps the expected trace is the sweep repeated (sampleMCMC)
    if case["rng_given"]:
        return "sampleMCMC", toks + ["steps=%d" % case["n_steps"]], "|".join(outs)
    return "gibbsSweepNoRng", toks, "|".join(outs)


def op_sample_mcmc(case, G, ins, tmp):
    from batchie import sampling
    from batchie.core import ThetaHolder
    s = build_screen(case["screen"])
    with quiet():
        m = make_model(case["model"], s, instalments=case.get("instalments", False))
        toks = sweep_cfg_tokens(m)
        h = ThetaHolder(n_thetas=case["n_thetas"])
        sampling.sample(m, h, seed=case["seed"], n_chains=case["n_chains"], chain_index=case["chain_index"], n_burnin=case["n_burnin"], thin=case["thin"])
    return "sampleMCMC", toks + ["steps=%d" % (case["n_burnin"] + case["n_thetas"] * case["thin"])], H10.show_holder(h)


_VERBOSE = [False]         # set while a case runs under vlib.common.verbose_logging(): the CLI mains then also get --verbose


def _run_main(module, argv):
    old = sys.argv
    sys.argv = list(argv) + (["--verbose"] if _VERBOSE[0] else [])
    try:
        with quiet():
            module.main()
    finally:
        sys.argv = old


def _kv(flag, d):
    out = []
    for k, v in d.items():
        out += [flag, "%s=%s" % (k, v)]
    return out


def op_cli_prepare(case, G, ins, tmp):
    """stage wrappers (installed here, removed afterwards) record each stage's input shape and where its events start"""
    from batchie import core as C
    from batchie.cli import prepare_retrospective_simulation as M
    from batchie.data import Screen
    s = build_screen(case["screen"])
    data = os.path.join(tmp, "exp.h5")
    s.save_h5(data)
    tr, te = os.path.join(tmp, "train.h5"), os.path.join(tmp, "test.h5")
    argv = ["prepare_retrospective_simulation", "--data", data, "--training-output", tr, "--test-output", te, "--seed", str(case["seed"]),
            "--holdout-fraction", str(case["fraction"])]
    if case.get("init") is not None:
        argv += ["--initial-plate-generator", "SparseCoverPlateGenerator", "--initial-plate-generator-param",
                 "reveal_single_treatment_experiments=%s" % case["init"]]
    gnames = {"pairwise": "PairwisePlateGenerator", "permutation": "PlatePermutationPlateGenerator", "segregating": "SampleSegregatingPermutationPlateGenerator"}
    if case.get("gen") is not None:
        g = case["gen"]
        argv += ["--plate-generator", gnames[g["kind"]]] + _kv("--plate-generator-param", {k: v for k, v in g.items() if k not in ("kind", "force")})
    snames = {"mergeMin": "MergeMinPlateSmoother", "mergeTopBottom": "MergeTopBottomPlateSmoother", "fixedSize": "FixedSizeSmoother",
              "optimalSize": "OptimalSizeSmoother", "nPlatePerCellLine": "NPlatePerCellLineSmoother", "ensemble": "BatchieEnsemblePlateSmoother"}
    pmap = {"min_n": "min_n_cell_line_plates"}
    if case.get("smoother") is not None:
        sm = case["smoother"]
        argv += ["--plate-smoother", snames[sm["kind"]]] + _kv("--plate-smoother-param", {pmap.get(k, k): v for k, v in sm.items() if k != "kind"})
    stages = ins.stages
    depth = {"d": 0}
    saved = []

    def wrap(owner, name, stage, shape_fn):
        orig = getattr(owner, name)

        def w(*a, **k):
            top = depth["d"] == 0
            depth["d"] += 1
            if top:
                try:
                    shape = shape_fn(orig, a, k)
                except Exception as e:               # the wrapper could not interpret the call: recorded, the call is forwarded unchanged
                    shape = None
                    ins.wrapper_errors.append("%s.%s: %s: %s" % (getattr(owner, "__name__", owner), name, type(e).__name__, str(e)[:120]))
                rec = {"stage": stage, "start": len(ins.events), "shape": shape}
                stages.append(rec)
            try:
                return orig(*a, **k)
            finally:
                depth["d"] -= 1
                if top:
                    rec["end"] = len(ins.events)
        saved.append((owner, name, orig))
        setattr(owner, name, w)

    def _bound(orig, a, k):
        """the arguments by NAME, however they were passed (inspect.signature(original).bind)"""
        import inspect
        return inspect.signature(orig).bind(*a, **k).arguments
    wrap(C.InitialRetrospectivePlateGenerator, "generate_and_unmask_initial_plate", "cover",
         lambda o, a, k: {"n": len(np.unique(_bound(o, a, k)["screen"].sample_ids))})
    wrap(C.RetrospectivePlateGenerator, "generate_plates", "gen", lambda o, a, k: {"toks": shape_generator(_bound(o, a, k)["self"], _bound(o, a, k)["screen"])})
    wrap(C.RetrospectivePlateSmoother, "smooth_plates", "smooth",
         lambda o, a, k: {"obj": _bound(o, a, k)["self"], "screen_raw": canon_rows(_bound(o, a, k)["screen"])})
    wrap(M, "create_plate_balanced_holdout_set_among_masked_plates", "hold", lambda o, a, k: {"toks": shape_holdout(_bound(o, a, k)["screen"])})
    try:
        _run_main(M, argv)
    finally:
        for owner, name, orig in saved:
            setattr(owner, name, orig)
    out = canon_screen(Screen.load_h5(tr)) + "|" + canon_screen(Screen.load_h5(te))
    if ins.wrapper_errors or any(st["shape"] is None for st in stages):
        return None, [], out              # no model line can be built: the oracles still apply, the tie is reported by judge
    toks = ["init=%d" % (1 if case.get("init") is not None else 0)]
    for st in stages:
        cnt = st["end"] - st["start"]
        if st["stage"] == "cover":
            toks += ["n=%d" % st["shape"]["n"], "extra=%d" % max(0, cnt - st["shape"]["n"])]
        elif st["stage"] == "gen":
            for t in st["shape"]["toks"]:
                k, v = t.split("=")
                toks.append({"n": "genN", "k": "genK"}.get(k, k) + "=" + v)
        elif st["stage"] == "smooth":
            sc = rows_to_screen(st["shape"]["screen_raw"])
            for t in shape_smoother(st["shape"]["obj"], sc, cnt):
                k, v = t.split("=")
                toks.append({"n": "smoothN", "unobs": "smoothUnobs"}.get(k, k) + "=" + v)
        elif st["stage"] == "hold":
            toks.append("holdN=" + st["shape"]["toks"][0].split("=")[1])
    return "cliPrepareRetrospective", toks, out


def canon_rows(s):
    """a copy of the screen's rows (the merge smoothers mutate plates in place, so the shape is computed on a copy)"""
    return {"rows": [[str(a), str(b), str(t[0]), str(t[1]), float(o), bool(m), float(d[0]), float(d[1])]
                     for a, b, t, o, m, d in zip(s.sample_names, s.plate_names, s.treatment_names, s.observations, s.observation_mask, s.treatment_doses)],
            "control": s.control_treatment_name}


def rows_to_screen(raw):
    from batchie.data import Screen
    rows = raw["rows"]
    n = len(rows)
    return Screen(observations=np.array([r[4] for r in rows], dtype=float), observation_mask=np.array([bool(r[5]) for r in rows], dtype=bool),
                  sample_names=np.array([r[0] for r in rows], dtype=str), plate_names=np.array([r[1] for r in rows], dtype=str),
                  treatment_names=np.array([[r[2], r[3]] for r in rows], dtype=str).reshape(n, 2),
                  treatment_doses=np.array([[r[6], r[7]] for r in rows], dtype=float).reshape(n, 2), control_treatment_name=raw["control"])


def op_cli_scores(case, G, ins, tmp):
    from batchie.cli import calculate_scores as M
    from batchie.scoring.main import ChunkedScoresHolder
    s = build_screen(case["screen"])
    r = pyrandom.Random(case["data_seed"])
    data, th, dmf, out = (os.path.join(tmp, x) for x in ("data.h5", "thetas.h5", "dm.h5", "scores.h5"))
    s.save_h5(data)
    make_thetas(r, s, case["n_thetas"]).save_h5(th)
    make_dist(case["n_thetas"]).save(dmf)
    un = sorted(p.plate_id for p in s.plates if not p.is_observed)
    batch = un[:case["n_batch"]]
    sname = {"random": "RandomScorer", "dbal": "GaussianDBALScorer", "size": "SizeScorer"}[case["scorer"]]
    argv = ["calculate_scores", "--scorer", sname, "--data", data, "--thetas", th, "--distance-matrix", dmf, "--output", out,
            "--n-chunks", str(case["n_chunks"]), "--chunk-index", str(case["chunk_index"]), "--seed", str(case["seed"])]
    if batch:
        argv += ["--batch-plate-ids"] + [str(b) for b in batch]
    n = _chunk_count(s, batch, case["n_chunks"], case["chunk_index"], "random")
    if case["scorer"] == "dbal":          # only required constructor arguments can be given on the command line: default max_chunk=50
        n = 0 if n == 0 else int(math.ceil(n / 50.0))
    _run_main(M, argv)
    return "cliCalculateScores", ["scorer=" + case["scorer"], "n=%d" % n], canon_scores_holder(ChunkedScoresHolder.load_h5(out))


def op_cli_select(case, G, ins, tmp):
    from batchie.cli import select_next_plate as M
    s = build_screen(case["screen"])
    data, sc, out = (os.path.join(tmp, x) for x in ("data.h5", "scores.h5", "next.txt"))
    s.save_h5(data)
    _scores_for(s, pyrandom.Random(case["data_seed"]), case.get("ties")).save_h5(sc)
    un = sorted(p.plate_id for p in s.plates if not p.is_observed)
    batch = un[:case["n_batch"]]
    argv = ["select_next_plate", "--data", data, "--scores", sc, "--output", out, "--seed", str(case["seed"])]
    if case["policy"]:
        argv += ["--policy", "KPerSamplePlatePolicy", "--policy-param", "k=%d" % case["k"]]
    if batch:
        argv += ["--batch-plate-id"] + [str(b) for b in batch]
    _run_main(M, argv)
    with open(out) as f:
        return "cliSelectNextPlate", [], f.read().strip()


def op_cli_train(case, G, ins, tmp):
    from batchie.cli import train_model as M
    from batchie.core import ThetaHolder
    s = build_screen(case["screen"])
    data, out = os.path.join(tmp, "data.h5"), os.path.join(tmp, "thetas.h5")
    s.save_h5(data)
    ms = case["model"]
    with quiet():
        toks = sweep_cfg_tokens(make_model(ms, s))
    argv = ["train_model", "--model", "SparseDrugCombo" if ms["kind"] == "combo" else "SparseDrugComboInteraction", "--data", data, "--output", out,
            "--n-samples", str(case["n_thetas"]), "--n-burnin", str(case["n_burnin"]), "--thin", str(case["thin"]),
            "--n-chains", str(case["n_chains"]), "--chain-index", str(case["chain_index"]), "--seed", str(case["seed"]),
            "--model-param", "n_embedding_dimensions=%d" % ms["dims"]]
    _run_main(M, argv)
    with quiet():
        h = ThetaHolder.load_h5(out)
    return "cliTrainModel", toks + ["steps=%d" % (case["n_burnin"] + case["n_thetas"] * case["thin"])], H10.show_holder(h)


def op_cli_evaluate(case, G, ins, tmp):
    from batchie.cli import evaluate_model as M
    s = build_screen(case["screen"])
    r = pyrandom.Random(case["data_seed"])
    data, out = os.path.join(tmp, "data.h5"), os.path.join(tmp, "me.h5")
    s.save_h5(data)
    files = []
    for i, n in enumerate(case["chains"]):
        fn = os.path.join(tmp, "chain%d.h5" % i)
        make_thetas(r, s, n).save_h5(fn)
        files.append(fn)
    _run_main(M, ["evaluate_model", "--screen", data, "--thetas"] + files + ["--output", out, "--seed", str(case["seed"])])
    import h5py
    parts = []
    with h5py.File(out, "r") as f:
        def visit(name, obj):
            if isinstance(obj, h5py.Dataset):
                parts.append(name + "=" + np.asarray(obj[()]).tobytes().hex())
        f.visititems(visit)
    return "cliEvaluateModel", [], common.short_hash(sorted(parts))


def op_cli_analyze(case, G, ins, tmp):
    """analyze_model_evaluation has a --seed option too (plots + summary_statistics.json); no operation of the Lean model: oracles only"""
    from batchie.cli import analyze_model_evaluation as M
    from batchie.cli import evaluate_model as E
    s = build_screen(case["screen"])
    r = pyrandom.Random(case["data_seed"])
    inp = os.path.join(tmp, "in")
    os.makedirs(inp)
    data, me = os.path.join(inp, "data.h5"), os.path.join(inp, "me.h5")
    s.save_h5(data)
    files = []
    for i, n in enumerate(case["chains"]):
        fn = os.path.join(inp, "chain%d.h5" % i)
        make_thetas(r, s, n).save_h5(fn)
        files.append(fn)
    _run_main(E, ["evaluate_model", "--screen", data, "--thetas"] + files + ["--output", me])
    outd = os.path.join(tmp, "out")
    import warnings
    with warnings.catch_warnings():
        warnings.simplefilter("ignore")
        _run_main(M, ["analyze_model_evaluation", "--model-evaluation", me, "--screen", data, "--thetas"] + files + ["--output-dir", outd, "--seed", str(case["seed"])])
    # Lean op cliAnalyzeModelEvaluation: n regression plots x k bootstrap draws.  Which per-sample plots bootstrap is decided inside seaborn
    # (value dependent), so n is taken from the observed event count (as for the ensemble smoother); k is seaborn's n_boot = 1000.
    ne = len(ins.events)
    toks = ["n=%d" % (ne // 1000), "k=1000"] if ne % 1000 == 0 else ["n=1", "k=%d" % ne]
    with open(os.path.join(outd, "summary_statistics.json")) as f:
        return "cliAnalyzeModelEvaluation", toks, f.read()


OPS = {"sparse_cover": op_sparse_cover, "generator": op_generator, "smoother": op_smoother, "holdout_random": op_holdout_random,
       "holdout_plate": op_holdout_plate, "scorer_random": op_scorer_random, "dbal_direct": op_dbal_direct, "policy": op_policy,
       "select_next_plate": op_select_next_plate, "score_chunk": op_score_chunk, "sample_mvn": op_sample_mvn, "gibbs_sweep": op_gibbs_sweep,
       "sample_mcmc": op_sample_mcmc, "cli_prepare": op_cli_prepare, "cli_scores": op_cli_scores, "cli_select": op_cli_select,
       "cli_train": op_cli_train, "cli_evaluate": op_cli_evaluate}
# commands that are only driven by the seeded-commands stream (too slow for the per-operation loop)
EXTRA_CLI_OPS = {"cli_analyze": op_cli_analyze}
OPS_ALL = dict(OPS, **EXTRA_CLI_OPS)
# batchie.cli module name -> the case kind that drives its main(); the LIST of commands is found by introspection (seeded_commands)
CLI_DRIVERS = {"prepare_retrospective_simulation": "cli_prepare", "train_model": "cli_train", "calculate_scores": "cli_scores",
               "select_next_plate": "cli_select", "evaluate_model": "cli_evaluate", "analyze_model_evaluation": "cli_analyze"}
BIG_SEED = 2 ** 63 + 11


def seeded_commands():
    """every batchie.cli module whose argparse parser has a --seed option"""
    import importlib
    import pkgutil
    import batchie.cli
    out = []
    for m in sorted(pkgutil.iter_modules(batchie.cli.__path__), key=lambda m: m.name):
        if m.name.endswith("_test"):
            continue
        mod = importlib.import_module("batchie.cli." + m.name)
        gp = getattr(mod, "get_parser", None)
        if gp is None:
            continue
        try:
            if "--seed" in gp()._option_string_actions:
                out.append(m.name)
        except Exception:
            pass
    return out


# ------------------------------------------------------------------ running one case
def digest_dir(d):
    """file by file: HDF5 files by every attribute and dataset (bytes, dtype, shape), text files by content, anything else (pdf) by presence"""
    import h5py
    out = {}
    for root, _, files in os.walk(d):
        for fn in sorted(files):
            path = os.path.join(root, fn)
            rel = os.path.relpath(path, d)
            if fn.endswith((".h5", ".hdf5")):
                parts = []
                try:
                    with h5py.File(path, "r") as f:
                        def visit(name, obj):
                            for k in sorted(obj.attrs):
                                parts.append("%s@%s=%r" % (name, k, np.asarray(obj.attrs[k]).tolist()))
                            if isinstance(obj, h5py.Dataset):
                                a = np.asarray(obj[()])
                                parts.append("%s:%s:%s:%s" % (name, a.dtype, a.shape, a.tobytes().hex() if a.dtype != object else repr(a.tolist())))
                        for k in sorted(f.attrs):
                            parts.append("@%s=%r" % (k, np.asarray(f.attrs[k]).tolist()))
                        f.visititems(visit)
                    out[rel] = common.short_hash(sorted(parts))
                except Exception as e:
                    out[rel] = "unreadable:" + type(e).__name__
            elif fn.endswith((".txt", ".json", ".csv")):
                with open(path, "rb") as f:
                    out[rel] = common.short_hash(f.read().hex())
            else:
                out[rel] = "present"
    return out


def execute(case, second):
    """one instrumented run on freshly built inputs"""
    tmp = tempfile.mkdtemp(prefix="verif_c18_")
    np.random.seed((case["gseed"] + (7919 if second else 0)) % (2 ** 32))
    pyrandom.seed(case["gseed"] + (13 if second else 0))
    if second:
        np.random.rand(5)               # unrelated global draws between the two runs
        np.random.normal(size=3)
        pyrandom.random()
    ins = Instr()
    res = {"events": ins.events}
    # checklist item 19: the SECOND run of a case marked verbose runs the way `-v/--verbose` runs (it is compared with the plain first run)
    verbose = bool(second and case.get("verbose"))
    try:
        before = global_sig()
        with (common.verbose_logging() if verbose else contextlib.nullcontext()):
            _VERBOSE[0] = verbose
            try:
                with ins:
                    G = ins.make_g(case["seed"])
                    try:
                        mop, toks, out = OPS_ALL[case["op"]](case, G, ins, tmp)
                        res.update(model_op=mop, toks=toks, out=out, err=None)
                    except Exception as e:
                        res.update(model_op=None, toks=None, out=None, err=type(e).__name__ + ": " + str(e)[:160])
            finally:
                _VERBOSE[0] = False
        res["gstate_same"] = (global_sig() == before)
        res["wrapper_errors"] = list(getattr(ins, "wrapper_errors", []))
        if case["op"].startswith("cli_"):
            res["files"] = digest_dir(tmp)
    finally:
        shutil.rmtree(tmp, ignore_errors=True)
    return res


def in_scope(case):
    return case.get("rng_given", True)


ANALYZE_SIGNATURE = "C18:analyze-plots-ignore-seed"


def judge_analyze(case, A, B, res, queue=None):
    """analyze_model_evaluation --seed: before fix `analyze_model_evaluation hands the --seed generator to the regression plots` the option was
    accepted and ignored -- plotting.predicted_vs_observed_scatterplot calls seaborn.regplot, whose bootstrap of the confidence band made an
    unseeded `np.random.default_rng()`, so the plots differed from run to run.  Every draw of the command must come from the generator of --seed."""
    bad = sorted({e for e in A["events"] + B["events"] if not e.startswith("G.")})
    if bad:
        res.fail("analyze_model_evaluation --seed: a draw (the bootstrap of seaborn.regplot's confidence band in plotting.predicted_vs_observed_scatterplot*) comes from a "
                 "source other than the generator built from --seed; the plots differ between two runs with the same seed", case,
                 {"non_G": bad, "n_events": len(A["events"])}, "every draw from the generator of --seed", signature=ANALYZE_SIGNATURE)
    if not (A["gstate_same"] and B["gstate_same"]):
        res.fail("operation perturbs the process-global random state", case, {"events": A["events"][:10]}, "np.random.get_state() unchanged",
                 signature="C18:global-state-perturbed:cli_analyze")
    if (A["err"] is None) != (B["err"] is None) or A["out"] != B["out"] or {k: v for k, v in (A.get("files") or {}).items() if v != "present"} != \
            {k: v for k, v in (B.get("files") or {}).items() if v != "present"}:
        res.fail("analyze_model_evaluation run twice with the same --seed writes different summary statistics / data files", case,
                 {"run1": (A["out"] or A["err"])[:300], "run2": (B["out"] or B["err"])[:300]}, "identical outputs", signature="C18:two-runs-differ:cli_analyze")
    if queue is not None and A["err"] is None and A["model_op"] is not None:
        # tie with the Lean op: every event `G.integers`, in whole multiples of the bootstrap size, at most one plot per sample + the overall one
        queue("cli_analyze", case, " ".join(["c18.trace", A["model_op"]] + A["toks"]), ",".join(A["events"]) if A["events"] else "-")
        n_plots = int(A["toks"][0].split("=")[1])
        n_max = 1 + len({r[0] for r in case["screen"]["rows"]})
        if A["toks"][1] != "k=1000" or not (1 <= n_plots <= n_max):
            res.disagree("C18:trace:cli_analyze:shape", {"op": "cli_analyze"}, "%d events" % len(A["events"]), "1..%d regression plots x 1000 bootstrap draws" % n_max)
    return A, A["err"] is None


def judge(case, res, queue=None):
    """two runs + oracles (+ queue the model line); returns (first run, non-trivial?)"""
    A = execute(case, False)
    B = execute(case, True)
    op = case["op"]
    werr = (A.get("wrapper_errors") or []) + (B.get("wrapper_errors") or [])
    if werr:
        # checklist item 21: a recording wrapper of the harness met a call form it does not know -- a broken TIE, never an oracle failure
        res.count("wrapper.unexpected-call")
        res.disagree("C18:recording-wrapper:" + op, {"op": op}, "harness wrapper: " + werr[0][:300], "a call form the recording wrapper can interpret")
    if op == "cli_analyze":
        return judge_analyze(case, A, B, res, queue)
    label = op + ("" if in_scope(case) else ":norng")
    if in_scope(case):
        bad = [e for e in A["events"] + B["events"] if not e.startswith("G.")]
        if bad:
            res.fail("operation draws from a source other than the generator it was given", case, {"events": A["events"][:40], "non_G": sorted(set(bad))},
                     "every draw from G", signature="C18:non-G-draw:" + op)
        if not (A["gstate_same"] and B["gstate_same"]):
            res.fail("operation perturbs the process-global random state", case, {"events": A["events"][:40]}, "np.random.get_state() unchanged",
                     signature="C18:global-state-perturbed:" + op)
        if (A["err"] is None) != (B["err"] is None) or (A["err"] or "").split(":")[0] != (B["err"] or "").split(":")[0] or A["out"] != B["out"]:
            res.fail("two runs with identical inputs and an identically seeded generator differ (global generator reseeded differently in between%s)"
                     % ("; the second run with verbose logging" if case.get("verbose") else ""),
                     case, {"run1": (A["out"] or A["err"])[:300], "run2": (B["out"] or B["err"])[:300]}, "identical outputs",
                     signature="C18:two-runs-differ:" + op)
        elif A.get("files") != B.get("files"):
            fa, fb = A.get("files") or {}, B.get("files") or {}
            diff = sorted(k for k in set(fa) | set(fb) if fa.get(k) != fb.get(k))
            res.fail("a command run twice with the same --seed on identical input files leaves different files behind (compared file by file%s)"
                     % ("; the second run with --verbose" if case.get("verbose") else ""), case,
                     {"differing_files": diff[:6], "run1": {k: fa.get(k) for k in diff[:6]}, "run2": {k: fb.get(k) for k in diff[:6]}},
                     "identical files", signature="C18:two-runs-differ:" + op)
    if queue is not None and A["err"] is None and A["model_op"] is not None:
        queue(label, case, " ".join(["c18.trace", A["model_op"]] + A["toks"]), ",".join(A["events"]) if A["events"] else "-")
        if B["err"] is None and B["events"] != A["events"]:
            # equal outputs with a different number of draws is not something the property states: the second run's trace goes to the tie
            queue(label + ":second-run", case, " ".join(["c18.trace", B["model_op"]] + B["toks"]), ",".join(B["events"]) if B["events"] else "-")
    return A, (A["err"] is None and len(A["events"]) > 0)


# ------------------------------------------------------------------ case generation
def gen_model_spec(rng):
    return {"kind": rng.choice(["combo", "inter"]), "dims": rng.randint(1, 3), "fake": rng.random() < 0.6, "mult": rng.random() < 0.6,
            "local": rng.random() < 0.6}


def gen_generator_spec(rng):
    k = rng.choice(["pairwise", "permutation", "segregating"])
    if k == "pairwise":
        return {"kind": k, "subset_size": rng.randint(1, 2), "anchor_size": rng.choice([0, 0, 1, 2])}
    if k == "permutation":
        return {"kind": k, "force": ["p0"] if rng.random() < 0.3 else []}
    return {"kind": k, "max_plate_size": rng.randint(1, 5)}


def gen_smoother_spec(rng):
    k = rng.choice(["mergeMin", "mergeTopBottom", "fixedSize", "optimalSize", "nPlatePerCellLine", "ensemble", "fixedSize", "optimalSize", "ensemble"])
    return {"mergeMin": {"kind": k, "min_size": rng.randint(2, 8)}, "mergeTopBottom": {"kind": k, "n_iterations": rng.randint(1, 3)},
            "fixedSize": {"kind": k, "plate_size": rng.randint(1, 4)}, "optimalSize": {"kind": k}, "nPlatePerCellLine": {"kind": k, "min_n": rng.randint(1, 3)},
            "ensemble": {"kind": k, "min_size": rng.randint(2, 6), "n_iterations": rng.randint(1, 2), "min_n": rng.randint(1, 2)}}[k]


def gen_case(rng, op):
    # seed 0 is the default of every --seed option and the classic "falsy" boundary (`if seed:` / `seed or None`)
    case = {"op": op, "seed": (0 if rng.random() < 0.2 else rng.getrandbits(31)), "gseed": rng.getrandbits(31)}
    if op == "sparse_cover":
        case.update(screen=gen_raw_screen(rng, all_observed=True), reveal=rng.random() < 0.5)
    elif op == "generator":
        case.update(screen=gen_raw_screen(rng, all_masked=rng.random() < 0.3), gen=gen_generator_spec(rng))
    elif op == "smoother":
        case.update(screen=gen_raw_screen(rng, all_masked=rng.random() < 0.3), smoother=gen_smoother_spec(rng))
    elif op == "holdout_random":
        case.update(screen=gen_raw_screen(rng), fraction=rng.choice([0.1, 0.25, 0.5, 0.9, 1.0]))
    elif op == "holdout_plate":
        case.update(screen=gen_raw_screen(rng), fraction=rng.choice([0.1, 0.25, 0.5, 0.9, 1.0]))
    elif op == "scorer_random":
        case.update(screen=gen_raw_screen(rng))
    elif op == "dbal_direct":
        T = rng.randint(4, 7)
        case.update(P=rng.randint(1, 4), T=T, E=rng.randint(1, 4), max_combos=rng.randint(1, math.comb(T, 3) - 1), data_seed=rng.getrandbits(31))
        r = rng.random()
        if r < 0.15:          # budget exactly at / just above the number of triples
            case["max_combos"] = math.comb(T, 3) + rng.choice([0, 1, 2])
        elif r < 0.35:        # the DEFAULT budget (5000) with C(32,3) = 4960 below and C(33,3) = 5456 above it
            case.update(T=rng.choice([32, 33]), P=rng.randint(1, 2), E=rng.randint(1, 2), max_combos=None)
    elif op == "policy":
        case.update(screen=gen_raw_screen(rng, all_masked=True), k=rng.randint(1, 3), n_batch=rng.randint(0, 2))
    elif op == "select_next_plate":
        case.update(screen=gen_raw_screen(rng), k=rng.randint(1, 2), n_batch=rng.randint(0, 2), policy=rng.random() < 0.6,
                    rng_given=rng.random() < 0.8, data_seed=rng.getrandbits(31))
        case["ties"] = rng.choice([None, "all_equal", "min_pair", "neg_inf", "size"])
        if case["ties"] == "size":
            case["screen"] = gen_raw_screen(rng, fixed_rows=rng.randint(1, 3))
    elif op == "score_chunk":
        nc = rng.randint(1, 3)
        case.update(screen=gen_raw_screen(rng), scorer=rng.choice(["random", "dbal", "dbal", "size"]), n_thetas=rng.randint(4, 6), n_batch=rng.randint(0, 1),
                    n_chunks=nc, chunk_index=rng.randrange(nc), rng_given=rng.random() < 0.8, data_seed=rng.getrandbits(31))
    elif op == "sample_mvn":
        case.update(d=rng.randint(1, 5), rng_given=rng.random() < 0.75, data_seed=rng.getrandbits(31))
    elif op == "gibbs_sweep":
        case.update(screen=gen_raw_screen(rng, all_masked=rng.random() < 0.1, with_controls=True), model=gen_model_spec(rng),
                    n_steps=rng.randint(1, 2), rng_given=rng.random() < 0.75, instalments=rng.random() < 0.3)
        if not case["rng_given"]:
            case["n_steps"] = 1
    elif op == "sample_mcmc":
        nch = rng.randint(1, 3)
        case.update(screen=gen_raw_screen(rng), model=gen_model_spec(rng), n_thetas=rng.randint(1, 3), n_burnin=rng.randint(0, 2),
                    thin=rng.randint(1, 2), n_chains=nch, chain_index=rng.randrange(nch), instalments=rng.random() < 0.3)
    elif op == "cli_prepare":
        case.update(screen=gen_raw_screen(rng, all_observed=True), fraction=rng.choice([0.1, 0.3, 0.5]),
                    init=rng.choice([None, "True", "False"]), gen=(gen_generator_spec(rng) if rng.random() < 0.8 else None),
                    smoother=(gen_smoother_spec(rng) if rng.random() < 0.7 else None))
        if case["gen"] is not None and case["gen"]["kind"] == "permutation":
            case["gen"]["force"] = []
    elif op == "cli_scores":
        nc = rng.randint(1, 2)
        case.update(screen=gen_raw_screen(rng), scorer=rng.choice(["random", "dbal", "random"]), n_thetas=rng.randint(4, 6), n_batch=rng.randint(0, 1),
                    n_chunks=nc, chunk_index=rng.randrange(nc), data_seed=rng.getrandbits(31))
    elif op == "cli_select":
        case.update(screen=gen_raw_screen(rng), k=rng.randint(1, 2), n_batch=rng.randint(0, 2), policy=rng.random() < 0.6, data_seed=rng.getrandbits(31))
        case["ties"] = rng.choice([None, "all_equal", "min_pair", "neg_inf", "size"])
        if case["ties"] == "size":
            case["screen"] = gen_raw_screen(rng, fixed_rows=rng.randint(1, 3))
    elif op == "cli_analyze":
        case.update(screen=gen_raw_screen(rng, all_observed=True), chains=[rng.randint(2, 3) for _ in range(rng.randint(1, 2))], data_seed=rng.getrandbits(31))
    elif op == "cli_evaluate":
        case.update(screen=gen_raw_screen(rng, all_observed=True), chains=[rng.randint(1, 3) for _ in range(rng.randint(1, 3))], data_seed=rng.getrandbits(31))
    elif op == "cli_train":
        nch = rng.randint(1, 2)
        ms = gen_model_spec(rng)
        ms.update(fake=True, mult=True, local=True)      # only required constructor arguments can be given on the command line
        case.update(screen=gen_raw_screen(rng), model=ms, n_thetas=rng.randint(1, 2), n_burnin=rng.randint(0, 1),
                    thin=rng.randint(1, 2), n_chains=nch, chain_index=rng.randrange(nch))
    return case


# ------------------------------------------------------------------ training is a function of sample()'s seed only
def _perturb(gseed, i):
    np.random.seed((gseed + 7919 * i) % (2 ** 32))
    pyrandom.seed(gseed + 13 * i)
    if i:
        np.random.rand(2 + i)
        np.random.normal(size=i)


def _vctx(case, variant_index):
    """checklist item 19: variant 1 of a case marked verbose runs under verbose logging"""
    return common.verbose_logging() if (case.get("verbose") and variant_index == 1) else contextlib.nullcontext()


def train_variant(case, held_k, variant_index):
    with _vctx(case, variant_index):
        return _train_variant(case, held_k, variant_index)


def _train_variant(case, held_k, variant_index):
    """sampling.sample on a model that holds NO generator (held_k None) or one seeded with held_k (constructor argument rng= for
    SparseDrugCombo, an earlier set_rng for the interaction model); the held generator is tagged HELD"""
    from batchie import sampling
    from batchie.core import ThetaHolder
    from batchie.data import ExperimentSpace
    _perturb(case["gseed"], variant_index)
    s = build_screen(case["screen"])
    ins = Instr()
    r = {"events": ins.events}
    before = global_sig()
    try:
        with quiet():
            ms = case["model"]
            held = None if held_k is None else RecGen(_ORIG_DEFAULT_RNG(held_k), "HELD", ins.events)
            if ms["kind"] == "combo" and held is not None:
                from batchie.models.sparse_combo import SparseDrugCombo
                m = SparseDrugCombo(experiment_space=ExperimentSpace.from_screen(s), n_embedding_dimensions=ms["dims"], fake_intercept=ms["fake"],
                                    mult_gamma_proc=ms["mult"], local_shrinkage=ms["local"], rng=held)
                obs = s.subset_observed()
                if obs is not None:
                    m.add_observations(obs)
            else:
                m = make_model(ms, s)
                if held is not None:
                    m.set_rng(held)
            toks = sweep_cfg_tokens(m)
            h = ThetaHolder(n_thetas=case["n_thetas"])
            with ins:
                sampling.sample(m, h, seed=case["seed"], n_chains=case["n_chains"], chain_index=case["chain_index"], n_burnin=case["n_burnin"], thin=case["thin"])
        r.update(out=H10.show_holder(h), err=None, toks=toks + ["steps=%d" % (case["n_burnin"] + case["n_thetas"] * case["thin"])])
    except Exception as e:
        r.update(out=None, err=type(e).__name__ + ": " + str(e)[:160], toks=None)
    r["gstate_same"] = global_sig() == before
    return r


def judge_train_held(case, res, queue=None):
    runs = [train_variant(case, None, 0), train_variant(case, case["k1"], 1), train_variant(case, case["k2"], 2)]
    names = ["fresh model (holds no generator)", "model holding default_rng(%d)" % case["k1"], "model holding default_rng(%d)" % case["k2"]]
    bad = sorted({e for r in runs for e in r["events"] if not e.startswith("G.")})
    if bad:
        res.fail("sampling.sample: draws during training do not come from the generator derived from this call's seed (the model kept a generator it held before)",
                 case, {"non_G": bad, "events": runs[1]["events"][:20]}, "every draw from the generator sample() creates", signature="C18:non-G-draw:sample_mcmc_held")
    if not all(r["gstate_same"] for r in runs):
        res.fail("sampling.sample perturbs the process-global random state", case, {}, "global state unchanged", signature="C18:global-state-perturbed:sample_mcmc_held")
    outs = [r["out"] if r["err"] is None else r["err"].split(":")[0] for r in runs]
    if len(set(outs)) != 1:
        res.fail("training through sampling.sample depends on a generator the model held before the call (constructor rng= / earlier set_rng), "
                 "not only on (observations, seed, n_chains, chain_index)", case, {n: (o or "")[:200] for n, o in zip(names, outs)},
                 "identical thetas for the three models", signature="C18:training-depends-on-held-generator")
    if queue is not None:
        for i, r in enumerate(runs):
            if r["err"] is None:
                queue("sample_mcmc_held", case, " ".join(["c18.trace", "sampleMCMC"] + r["toks"]), ",".join(r["events"]) if r["events"] else "-")
                if r["events"]:
                    tags = sorted({e.split(".")[0] for e in r["events"]})
                    queue("sample_calls", case, "c18.calls %s 1" % ("-" if i == 0 else "0"), ",".join({"G": "1", "HELD": "0"}.get(t, "?") for t in tags))
    return runs[0]


def make_stub(d):
    from batchie.core import MCMCModel

    class StubTheta:
        def __init__(self, x, t):
            self.x, self.t = x, t

    class StubModel(MCMCModel):
        """fully resetting random-walk model that draws from self.rng in step()"""

        def __init__(self):
            self._rng = None
            self.reset_model()

        def reset_model(self):
            self.x = np.zeros(d)
            self.t = 0

        def set_rng(self, *a, **k):
            self._rng = a[0] if a else next(iter(k.values()))

        @property
        def rng(self):
            return self._rng

        def step(self, *a, **k):
            self.x = self.x + self.rng.normal(size=d)
            self.t += 1

        def get_model_state(self):
            return StubTheta(self.x.copy(), self.t)
    return StubModel()


def judge_train_stub(case, res, queue=None):
    """the SAME model object trained several times in one process"""
    from batchie import sampling
    from batchie.core import ThetaHolder
    _perturb(case["gseed"], 0)
    ins = Instr(tag_ids=True)
    before = global_sig()
    calls = []            # (object name, seed, canonical output, tags of the draws, expected generator id)

    def call(m, name, seed):
        h = ThetaHolder(n_thetas=case["n_thetas"])
        start = len(ins.events)
        sampling.sample(m, h, seed=seed, n_chains=case["n_chains"], chain_index=case["chain_index"], n_burnin=case["n_burnin"], thin=case["thin"])
        out = ";".join("%d:%s" % (t.t, np.asarray(t.x, dtype=float).tobytes().hex()) for t in h.thetas)
        calls.append((name, seed, out, sorted({e.split(".")[0] for e in ins.events[start:]}), "G%d" % ins.n_seeded))
    try:
        with ins, quiet():
            a = make_stub(case["d"])
            if case["held"]:
                a.set_rng(RecGen(_ORIG_DEFAULT_RNG(case["k1"]), "HELD", ins.events))
            call(a, "A", case["s1"])
            call(a, "A", case["s2"])
            call(a, "A", case["s2"])
            call(make_stub(case["d"]), "fresh", case["s2"])
    except Exception as e:
        res.fail("sampling.sample raises on the stub MCMC model", case, type(e).__name__ + ": " + str(e)[:200], "thetas", signature="C18:stub-raises")
        return None
    if global_sig() != before:
        res.fail("sampling.sample perturbs the process-global random state", case, {}, "global state unchanged", signature="C18:global-state-perturbed:sample_mcmc_stub")
    report = [{"object": c[0], "seed": c[1], "draws_from": c[3], "generator_of_this_call": c[4], "out": c[2][:60]} for c in calls]
    steps = case["n_burnin"] + case["n_thetas"] * case["thin"]
    stale = [c for c in calls if steps > 0 and c[3] != [c[4]]]
    if stale:
        res.fail("sampling.sample: the model's draws do not come from the generator created by THIS call (stale generator of an earlier call / held generator)",
                 case, report, "call i draws only from the generator call i created", signature="C18:sample-draws-from-stale-generator")
    if calls[1][2] != calls[3][2]:
        res.fail("sample(seed=%d) after sample(seed=%d) on the same (fully resetting) model differs from sample(seed=%d) on a fresh model" % (case["s2"], case["s1"], case["s2"]),
                 case, report, "identical thetas", signature="C18:retraining-differs-from-fresh")
    if calls[1][2] != calls[2][2]:
        res.fail("sample(seed=%d) twice on the same model gives different thetas" % case["s2"], case, report, "identical thetas", signature="C18:retraining-differs-from-fresh")
    if queue is not None and steps > 0:
        obs = ",".join((c[3][0][1:] if len(c[3]) == 1 and c[3][0].startswith("G") else "0" if c[3] == ["HELD"] else "?") for c in calls[:3])
        queue("sample_calls", case, "c18.calls %s 1,2,3" % ("0" if case["held"] else "-"), obs)
    return calls


def train_sequence(case, variant_index):
    with _vctx(case, variant_index):
        return _train_sequence(case, variant_index)


def _train_sequence(case, variant_index):
    """sampling.sample called twice (seeds s1, s2) on ONE real Gibbs model object; every seeded generator is tagged by creation order"""
    from batchie import sampling
    from batchie.core import ThetaHolder
    _perturb(case["gseed"], variant_index)
    s = build_screen(case["screen"])
    ins = Instr(tag_ids=True)
    r = {"calls": [], "err": None, "toks": None}
    before = global_sig()
    try:
        with quiet():
            m = make_model(case["model"], s)
            r["toks"] = sweep_cfg_tokens(m) + ["steps=%d" % (case["n_burnin"] + case["n_thetas"] * case["thin"])]
            with ins:
                for seed in (case["s1"], case["s2"]):
                    h = ThetaHolder(n_thetas=case["n_thetas"])
                    start = len(ins.events)
                    sampling.sample(m, h, seed=seed, n_chains=case["n_chains"], chain_index=case["chain_index"], n_burnin=case["n_burnin"], thin=case["thin"])
                    ev = ins.events[start:]
                    r["calls"].append({"seed": seed, "out": H10.show_holder(h), "draws_from": sorted({e.split(".")[0] for e in ev}),
                                       "generator_of_this_call": "G%d" % ins.n_seeded, "kinds": [e.split(".", 1)[1] for e in ev]})
    except Exception as e:
        r["err"] = type(e).__name__ + ": " + str(e)[:160]
    r["gstate_same"] = global_sig() == before
    return r


def judge_train_twice(case, res, queue=None):
    """the whole two-call history is repeated on a second, freshly built object under a perturbed global state"""
    A = train_sequence(case, 0)
    B = train_sequence(case, 1)
    if A["err"] or B["err"]:
        if (A["err"] or "").split(":")[0] != (B["err"] or "").split(":")[0]:
            res.fail("training the same model object twice: one history raises, its repetition does not", case, {"run1": A["err"], "run2": B["err"]},
                     "identical behaviour", signature="C18:two-runs-differ:train_twice")
        return None
    report = [{k: (v[:80] if k == "out" else v) for k, v in c.items() if k != "kinds"} for c in A["calls"] + B["calls"]]
    stale = [c for c in A["calls"] + B["calls"] if c["kinds"] and c["draws_from"] != [c["generator_of_this_call"]]]
    if stale:
        res.fail("sampling.sample on a model object that was trained before: the draws do not come (only) from the generator created by THIS call",
                 case, report, "call i draws only from the generator call i created", signature="C18:sample-draws-from-stale-generator")
    if not (A["gstate_same"] and B["gstate_same"]):
        res.fail("sampling.sample perturbs the process-global random state", case, {}, "global state unchanged", signature="C18:global-state-perturbed:train_twice")
    if [c["out"] for c in A["calls"]] != [c["out"] for c in B["calls"]]:
        res.fail("the history sample(seed=%d); sample(seed=%d) on one model object, repeated on an identically built object with the global generator "
                 "reseeded differently, gives different thetas" % (case["s1"], case["s2"]), case, report, "identical thetas call by call",
                 signature="C18:two-runs-differ:train_twice")
    if queue is not None:
        for c in A["calls"]:
            queue("train_twice", case, " ".join(["c18.trace", "sampleMCMC"] + A["toks"]), ",".join("G." + k for k in c["kinds"]) if c["kinds"] else "-")
        if all(c["kinds"] for c in A["calls"]):
            queue("sample_calls", case, "c18.calls - 1,2",
                  ",".join(c["draws_from"][0][1:] if len(c["draws_from"]) == 1 and c["draws_from"][0].startswith("G") else "?" for c in A["calls"]))
    return A


def gen_train_case(rng, op):
    nch = rng.randint(1, 3)
    case = {"op": op, "gseed": rng.getrandbits(31), "n_thetas": rng.randint(1, 3), "n_burnin": rng.randint(0, 2), "thin": rng.randint(1, 2),
            "n_chains": nch, "chain_index": rng.randrange(nch), "k1": rng.randint(0, 50), "k2": rng.randint(51, 99)}
    if op == "train_held":
        case.update(screen=gen_raw_screen(rng), model=gen_model_spec(rng), seed=(0 if rng.random() < 0.25 else rng.getrandbits(31)))
    elif op == "train_twice":
        s1, s2 = (0, rng.randint(1, 40)) if rng.random() < 0.3 else (rng.randint(1, 40), 0) if rng.random() < 0.3 else (rng.randint(0, 20), rng.randint(21, 40))
        case.update(screen=gen_raw_screen(rng), model=gen_model_spec(rng), s1=s1, s2=s2)
    else:
        case.update(d=rng.randint(1, 3), s1=(0 if rng.random() < 0.3 else rng.randint(0, 20)), s2=rng.randint(21, 40), held=rng.random() < 0.3)
    return case


# ------------------------------------------------------------------ the VI model (known finding)
def run_vi(res, case):
    """sampling.sample with ComboGridFactorModel twice, same seed"""
    try:
        import torch
        from batchie import sampling
        from batchie.core import ThetaHolder
        from batchie.data import ExperimentSpace, Screen
        from batchie.models.grid_combo import ComboGridFactorModel
    except Exception as e:           # torch / pyro not importable: nothing to run
        res.notes.append("VI model not importable: %s" % e)
        return
    n = 12
    tn = np.array([["a", "b"], ["a", "c"], ["b", "c"], ["a", "c"]] * 3, dtype=str)
    td = np.array([[1.0, 2.0], [0.5, 1.0], [2.0, 0.1], [1.0, 0.3]] * 3)
    obs = np.array([0.1 + 0.06 * i for i in range(n)])
    s = Screen(observations=obs, observation_mask=np.ones(n, bool), sample_names=np.array(["s0", "s1", "s2"] * 4, dtype=str),
               plate_names=np.array(["p"] * n, dtype=str), treatment_names=tn, treatment_doses=td, control_treatment_name="control")
    es = ExperimentSpace.from_screen(s)
    outs, events, same = [], [], []
    for r in range(2):
        m = ComboGridFactorModel(experiment_space=es, n_unique_samples=3, unique_drug_names=np.array(["a", "b", "c"]), log_conc_range=(-6.0, 6.0),
                                 n_grid=4, n_embedding_dimensions=2, n_sigma_embedding_dimensions=2, n_epochs=1, batch_size=100, min_steps=2, max_steps=2)
        m.add_observations(s)
        h = ThetaHolder(2)
        np.random.seed(case["gseed"] + r)
        torch.manual_seed(case["gseed"] + r)
        ins = Instr()
        before = (global_sig(), torch.random.get_rng_state().numpy().tobytes())
        with ins, quiet():
            sampling.sample(m, h, seed=case["seed"])
        same.append((global_sig(), torch.random.get_rng_state().numpy().tobytes()) == before)
        events.append(list(ins.events))
        d = h.thetas[0].private_parameters_dict()
        outs.append(common.short_hash([np.asarray(v).tobytes().hex() for k, v in sorted(d.items())]))
    res.count("vi.runs")
    if outs[0] != outs[1] or not all(same) or any(not e.startswith("G.") for e in events[0]):
        res.fail("sampling.sample with the pyro/torch VI model ComboGridFactorModel: the model never reads the generator it is given "
                 "(np.random.choice / torch global state): two runs with the same seed differ and the global state is perturbed",
                 case, {"outputs_equal": outs[0] == outs[1], "global_state_unchanged": all(same), "numpy_events": events[0][:10]},
                 "identical outputs, global state untouched", signature="C18:vi-model-ignores-rng")


# ------------------------------------------------------------------ cross-process stream (per-process string-hash salt)
XPROC_HASHSEEDS = (0, 1, 2)


def gen_pairwise_screen(rng):
    """all-masked screen on which PairwisePlateGenerator has a real choice per sample: 2-3 samples, each with combination rows over 5-6
    treatments (several generated plates per sample) and 2-4 single-drug rows to be assigned to one of them"""
    ns, nt = rng.randint(2, 3), rng.randint(5, 6)
    rows, pid = [], 0
    for s in range(ns):
        for _ in range(rng.randint(8, 12)):
            a = rng.randrange(nt)
            b = (a + rng.randint(1, nt - 1)) % nt
            rows.append(["s%d" % s, "p%d" % (pid // 4), "t%d" % a, "t%d" % b, round(0.05 + 0.9 * rng.random(), 6), False])
            pid += 1
        for _ in range(rng.randint(2, 4)):
            rows.append(["s%d" % s, "p%d" % (pid // 4), "t%d" % rng.randrange(nt), "control", round(0.05 + 0.9 * rng.random(), 6), False])
            pid += 1
    rng.shuffle(rows)
    return {"rows": rows}


def gen_xproc_cases(rng, scale):
    """the seeded operations whose repetition in ANOTHER interpreter process must give the same output"""
    plan = [("generator", 2), ("smoother", 3), ("sparse_cover", 2), ("holdout_random", 1), ("holdout_plate", 2), ("scorer_random", 1), ("dbal_direct", 1),
            ("policy", 1), ("select_next_plate", 2), ("score_chunk", 2), ("sample_mcmc", 1), ("cli_prepare", 3)]
    cases = []
    for op, w in plan:
        for _ in range(w * scale):
            c = gen_case(rng, op)
            if "rng_given" in c:
                c["rng_given"] = True
            if op == "sample_mcmc":
                c.update(n_thetas=1, n_burnin=1, thin=1)
                c["model"]["kind"] = ["combo", "inter"][len(cases) % 2]          # both Gibbs models
            cases.append(c)
    for i in range(6 * scale):             # PairwisePlateGenerator with >= 2 samples that have single-drug rows and several candidate plates
        c = {"op": "generator", "seed": (0 if i == 0 else rng.getrandbits(31)), "gseed": rng.getrandbits(31), "screen": gen_pairwise_screen(rng),
             "gen": {"kind": "pairwise", "subset_size": 1, "anchor_size": rng.choice([0, 0, 1])}, "xproc_pairwise": True}
        if rng.random() < 0.4:
            c["gen"].update(subset_size=2, anchor_size=rng.choice([0, 2]))
        cases.append(c)
    for i in range(2 * scale):             # the same screens through the command-line step
        c = gen_case(rng, "cli_prepare")
        c.update(screen=gen_pairwise_screen(rng), init=None, gen={"kind": "pairwise", "subset_size": 1, "anchor_size": 0}, smoother=None)
        for r in c["screen"]["rows"]:
            r[5] = True                    # prepare_retrospective_simulation takes a fully observed screen
        cases.append(c)
    return cases


def run_jobs(jobs, timeout=600):
    """jobs: [(key, case list, PYTHONHASHSEED)] -- one fresh worker process per job, all in parallel; {key: result dict or error string}"""
    import json
    import subprocess
    tmp = tempfile.mkdtemp(prefix="verif_c18x_")
    out = {}
    try:
        worker = os.path.join(os.path.dirname(os.path.abspath(__file__)), "c18_worker.py")
        procs = []
        for j, (key, cases, hs) in enumerate(jobs):
            fn = os.path.join(tmp, "cases%d.json" % j)
            with open(fn, "w") as f:
                json.dump(cases, f)
            env = dict(os.environ, PYTHONHASHSEED=str(hs), C18X_VERBOSE=("1" if str(hs) == "2" else "0"))   # item 19: the hash-seed-2 worker runs the marked cases verbosely
            procs.append((key, subprocess.Popen([sys.executable, worker, fn], env=env, stdout=subprocess.PIPE, stderr=subprocess.PIPE, text=True)))
        for key, p in procs:
            try:
                so, se = p.communicate(timeout=timeout)
            except subprocess.TimeoutExpired:
                p.kill()
                out[key] = "worker timed out"
                continue
            line = [l for l in so.splitlines() if l.startswith("C18X ")]
            if p.returncode != 0 or not line:
                out[key] = "worker failed (rc %s): %s" % (p.returncode, se[-400:])
            else:
                out[key] = json.loads(line[-1][5:])
    finally:
        shutil.rmtree(tmp, ignore_errors=True)
    return out


def run_workers(cases, hashseeds, timeout=600):
    """the same case list in one worker process per hash seed (in parallel); returns {hashseed: digests or error string}"""
    return run_jobs([(hs, cases, hs) for hs in hashseeds], timeout)


# checklist item 10: identity-keyed caches / object lifetime.  Every OPS function builds its screen / thetas / plates inside the call and
# only the digest survives, so consecutive cases of EQUAL shape are exactly "temporaries of equal size in a loop" (CPython hands freed
# addresses out again).  A memo keyed by id(obj) (+ shape) makes a case's result depend on which cases ran before it in the process:
# the same list is executed forwards in one fresh process and backwards in another; every case must give the same digest in both
# (the first case of each process has no history at all).
def _variant(case, i):
    import copy
    c = copy.deepcopy(case)
    if "screen" in c:
        rows = c["screen"]["rows"]
        names = sorted({r[j] for r in rows for j in (2, 3) if r[j] != "control"})
        ren = {n: names[(k + i) % len(names)] for k, n in enumerate(names)}
        obs = [r[4] for r in rows]
        for k, r in enumerate(rows):                       # same shape: treatments renamed cyclically, observations rotated
            r[2], r[3] = ren.get(r[2], r[2]), ren.get(r[3], r[3])
            r[4] = obs[(k + i) % len(obs)]
    if "data_seed" in c:
        c["data_seed"] = (c["data_seed"] + 7919 * i) % (2 ** 31)
    c["seed"] = c["seed"] + i                           # ... and another seed: a stale cached draw is then different from a fresh one
    c["variant"] = i
    return c


def _tight_call(case):
    inner = case["inner"]
    if inner == "holdout_random":
        from batchie.retrospective import create_random_holdout
        return lambda s, G: "|".join(canon_screen(x) for x in create_random_holdout(s, case["fraction"], G))
    if inner == "holdout_plate":
        from batchie.retrospective import create_plate_balanced_holdout_set_among_masked_plates as f
        return lambda s, G: "|".join(canon_screen(x) for x in f(s, case["fraction"], G))
    if inner == "generator":
        return lambda s, G: canon_screen(make_generator(case["gen"]).generate_plates(s, G))
    if inner == "smoother":
        return lambda s, G: canon_screen(make_smoother(case["smoother"]).smooth_plates(s, G))
    if inner == "sparse_cover":
        from batchie.retrospective import SparseCoverPlateGenerator
        return lambda s, G: canon_screen(SparseCoverPlateGenerator(reveal_single_treatment_experiments=case["reveal"]).generate_and_unmask_initial_plate(s, G))
    raise KeyError(inner)


def run_tight(case):
    """checklist item 10, literally: the operation is called on TEMPORARIES of equal size -- `big.subset(mask_i).to_screen()` for rolled masks
    with the same number of rows, or equally shaped prediction arrays for the DBAL function -- inside a comprehension that keeps only the
    canonical result, in the order case['order'].  Returns the per-variant results joined in VARIANT order."""
    n = case["n_variants"]
    order = list(range(n))[::-1] if case.get("reverse") else list(range(n))
    outs = {}
    if case["inner"] == "dbal_direct":
        from batchie.scoring.gaussian_dbal import dbal_fast_gauss_scoring_vectorized as f
        P, T, E = case["P"], case["T"], case["E"]

        def arrs(i):
            r = pyrandom.Random(case["data_seed"] + i)
            return (np.array([r.gauss(0, 1) for _ in range(P * T * E)]).reshape(P, T, E), np.array([0.5 + r.random() for _ in range(P * T * E)]).reshape(P, T, E))
        d = np.ones((T, T)) - np.eye(T)
        for i in order:
            try:
                outs[i] = np.asarray(f(*arrs(i), d, np.random.default_rng(case["seed"] + i), max_combos=case["max_combos"]), dtype=float).tobytes().hex()
            except Exception as e:
                outs[i] = "err:" + type(e).__name__
        return "|".join(outs[i] for i in range(n))
    big = build_screen(case["screen"])
    base = (np.arange(big.size) % 4) != 0
    call = _tight_call(case)
    for i in order:
        try:
            outs[i] = call(big.subset(np.roll(base, i)).to_screen(), np.random.default_rng(case["seed"] + i))   # another generator per variant
        except Exception as e:
            outs[i] = "err:" + type(e).__name__
    return "|".join(outs[i] for i in range(n))


def gen_tight_cases(rng, scale):
    cases = []
    for inner in ("holdout_random", "holdout_plate", "generator", "smoother", "sparse_cover", "dbal_direct") * scale:
        src = gen_case(rng, inner)
        c = {"op": "tight", "inner": inner, "n_variants": 8, "seed": src["seed"]}
        for k in ("fraction", "gen", "smoother", "reveal", "P", "T", "E", "data_seed", "max_combos"):
            if k in src:
                c[k] = src[k]
        if inner != "dbal_direct":
            # a larger screen so that every rolled 3/4 subset is a proper screen of the same size
            raws = [gen_raw_screen(rng, all_observed=(inner == "sparse_cover"), all_masked=(inner in ("generator", "smoother"))) for _ in range(3)]
            rows = []
            for j, r in enumerate(raws):
                for row in r["rows"]:
                    rows.append([row[0], "q%d_%s" % (j, row[1])] + row[2:])
            c["screen"] = {"rows": rows}
            if inner == "generator" and c["gen"]["kind"] == "permutation":
                c["gen"]["force"] = []
        cases.append(c)
    return cases


def gen_temporaries_groups(rng, scale):
    groups = []
    for op in ("generator", "smoother", "sparse_cover", "holdout_random", "holdout_plate", "scorer_random", "dbal_direct", "policy", "select_next_plate",
               "score_chunk") * scale:
        base = gen_case(rng, op)
        if "rng_given" in base:
            base["rng_given"] = True
        if op == "generator" and rng.random() < 0.5:
            base.update(screen=gen_pairwise_screen(rng), gen={"kind": "pairwise", "subset_size": 1, "anchor_size": 0})
        groups.append([_variant(base, i) for i in range(4)])
    return groups


def judge_order(groups, res, count=None, tight=()):
    flat = [c for g in groups for c in g]
    tight = list(tight)
    got = run_jobs([("fwd", tight + flat, 0), ("rev", [dict(c, reverse=True) for c in tight] + flat[::-1], 0)])
    bad = {k: g for k, g in got.items() if not isinstance(g, dict)}
    if bad:
        raise RuntimeError("C18 cross-process worker: %s" % bad)
    nt = len(tight)
    for c, f, r in zip(tight, got["fwd"]["digests"][:nt], got["rev"]["digests"][:nt]):
        fv, rv = f.split("|"), r.split("|")
        if count is not None:
            count([c], fv, tight=True)
        if f != r:
            n = c["n_variants"]
            w = len(fv) // n if len(fv) % n == 0 and len(fv) == len(rv) else 0
            i = next((j // w for j in range(len(fv)) if fv[j] != rv[j]), -1) if w else -1
            res.fail("a seeded step called on TEMPORARIES of equal size in a loop (`big.subset(mask_i).to_screen()` / equally shaped arrays, only the result kept) "
                     "returns a result that depends on the order of the loop: looping over the variants forwards and backwards (two fresh processes) gives "
                     "different outputs for the same variant (identity-keyed cache / object lifetime)", {"op": "xproc_order", "inner_op": c["inner"], "tight": c},
                     {"first_differing_variant": i, "forwards": f[:300], "backwards": r[:300]}, "each variant's output independent of the variants processed before it",
                     signature="C18:object-lifetime:" + c["inner"])
    fwd, rev = got["fwd"]["digests"][nt:], got["rev"]["digests"][nt:][::-1]
    pos = 0
    for g in groups:
        f, r = fwd[pos:pos + len(g)], rev[pos:pos + len(g)]
        pos += len(g)
        if count is not None:
            count(g, f)
        if f != r:
            i = next(j for j in range(len(g)) if f[j] != r[j])
            res.fail("a seeded step on temporaries of equal shape (inputs built inside a loop, only the result kept) depends on which other calls ran before it "
                     "in the process: the same list of cases run forwards and backwards in two fresh processes gives different outputs for the same case "
                     "(identity-keyed cache / object lifetime)", {"op": "xproc_order", "inner_op": g[0]["op"], "group": g},
                     {"variant": i, "digest_when_run_forwards": f, "digest_when_run_backwards": r}, "each case's output independent of the cases run before it",
                     signature="C18:object-lifetime:" + g[0]["op"])


def judge_xproc(cases, hashseeds, res, count=None):
    got = run_workers(cases, hashseeds)
    bad = {hs: g for hs, g in got.items() if not isinstance(g, dict)}
    if bad:
        raise RuntimeError("C18 cross-process worker: %s" % bad)
    if any(g.get("torch_imported") for g in got.values()):
        res.notes.append("cross-process worker imported torch")
    for i, case in enumerate(cases):
        ds = {hs: got[hs]["digests"][i] for hs in hashseeds}
        if count is not None:
            count(case, ds)
        if len(set(ds.values())) > 1:
            hs0 = hashseeds[0]
            other = next(hs for hs in hashseeds if ds[hs] != ds[hs0])
            res.fail("a seeded step repeated in another interpreter process (identical inputs, identically seeded generator, different per-process "
                     "string-hash salt PYTHONHASHSEED) gives a different output", {"op": "xproc", "hashseeds": [hs0, other], "inner": case},
                     {"digest by PYTHONHASHSEED": {str(k): v for k, v in ds.items()}}, "identical digests in every process",
                     signature="C18:cross-process:" + case["op"])


# ------------------------------------------------------------------ object-reuse stream
# every randomised operation that is a METHOD of a reusable object: obj.op(x, rng(seed1)) then obj.op(x, rng(seed2)) on the SAME object
# must be exactly fresh.op(x, rng(seed2)) -- output, draw-source trace AND state of the generator afterwards (a cache that outlives
# the call and makes the second call skip its draws ignores the generator it is handed and does not advance it)
def _reuse_make(case):
    """(object, call(obj, G) -> canonical output, model trace line or None); inputs are rebuilt for every call"""
    k = case["kind"]
    if k in ("dbal_scorer", "random_scorer", "size_scorer", "dbal_score_chunk", "random_score_chunk"):
        sk = "dbal" if k.startswith("dbal") else "random" if k.startswith("random") else "size"
        obj = _make_scorer(sk)

        def inputs():
            s = build_screen(case["screen"])
            thetas = make_thetas(pyrandom.Random(case["data_seed"]), s, case["n_thetas"])
            return s, thetas, make_dist(case["n_thetas"])
        if k.endswith("score_chunk"):
            from batchie.scoring.main import score_chunk

            def call(o, G):
                s, thetas, dm = inputs()
                with quiet():
                    return canon_scores_holder(score_chunk(scorer=o, thetas=thetas, screen=s, distance_matrix=dm, rng=G, n_chunks=1, chunk_index=0))
            s0 = build_screen(case["screen"])
            line = "c18.trace scoreChunk scorer=%s n=%d" % (sk, _chunk_count(s0, [], 1, 0, sk))
        else:
            def call(o, G):
                s, thetas, dm = inputs()
                plates = {p.plate_id: p for p in s.plates if not p.is_observed}
                with quiet():
                    return canon_scores(o.score(plates=plates, distance_matrix=dm, samples=thetas, rng=G, progress_bar=False))
            s0 = build_screen(case["screen"])
            npl = sum(1 for p in s0.plates if not p.is_observed)
            line = "c18.trace scorer scorer=%s n=%d" % (sk, (0 if npl == 0 else int(math.ceil(npl / 2.0))) if sk == "dbal" else npl)
        return obj, call, line
    if k == "generator":
        return make_generator(case["gen"]), (lambda o, G: canon_screen(o.generate_plates(build_screen(case["screen"]), G))), None
    if k == "smoother":
        return make_smoother(case["smoother"]), (lambda o, G: canon_screen(o.smooth_plates(build_screen(case["screen"]), G))), None
    if k == "sparse_cover":
        from batchie.retrospective import SparseCoverPlateGenerator
        return (SparseCoverPlateGenerator(reveal_single_treatment_experiments=case["reveal"]),
                (lambda o, G: canon_screen(o.generate_and_unmask_initial_plate(build_screen(case["screen"]), G))), None)
    if k == "policy":
        from batchie.policies.k_per_sample import KPerSamplePlatePolicy

        def call(o, G):
            s = build_screen(case["screen"])
            un = sorted([p for p in s.plates if not p.is_observed], key=lambda p: p.plate_id)
            return ",".join(str(p.plate_id) for p in o.filter_eligible_plates(batch_plates=un[:case["n_batch"]], unobserved_plates=un[case["n_batch"]:], rng=G))
        return KPerSamplePlatePolicy(k=case["k"]), call, "c18.trace kPerSamplePolicy"
    raise KeyError(k)


def _reuse_call(obj, call, seed, gseed_variant, case):
    with _vctx(case, gseed_variant):          # the SECOND call on the used object
        return _reuse_call_plain(obj, call, seed, gseed_variant, case)


def _reuse_call_plain(obj, call, seed, gseed_variant, case):
    _perturb(case["gseed"], gseed_variant)
    ins = Instr()
    r = {"events": ins.events}
    before = global_sig()
    with ins:
        G = ins.make_g(seed)
        try:
            r["out"] = call(obj, G)
        except Exception as e:
            r["out"] = "err:" + type(e).__name__
    r["gstate_same"] = global_sig() == before
    r["gen_state"] = repr(G._gen.bit_generator.state)
    return r


def judge_reuse(case, res, queue=None):
    used, call, line = _reuse_make(case)
    fresh, call_f, _ = _reuse_make(case)
    first = _reuse_call(used, call, case["seed1"], 0, case)
    second = _reuse_call(used, call, case["seed2"], 1, case)
    ref = _reuse_call(fresh, call_f, case["seed2"], 2, case)
    kind = case["kind"]
    what = None
    if second["out"] != ref["out"]:
        what = ("the second call on a used object gives a different output than the same call (same inputs, identically seeded generator) on a fresh object")
    elif second["events"] != ref["events"]:
        what = "the second call on a used object makes different draws than the same call on a fresh object (draws skipped / added: the object remembers an earlier call)"
    elif second["gen_state"] != ref["gen_state"]:
        what = "after the second call on a used object the generator it was handed is in a different state than after the same call on a fresh object"
    if what is not None:
        res.fail("object reuse (%s): %s" % (kind, what), case,
                 {"second_call_on_used_object": {"out": second["out"][:160], "events": second["events"][:30], "n_events": len(second["events"])},
                  "first_call_events": len(first["events"])},
                 {"same_call_on_fresh_object": {"out": ref["out"][:160], "events": ref["events"][:30], "n_events": len(ref["events"])}},
                 signature="C18:object-reuse:" + kind)
    bad = sorted({e for r in (first, second, ref) for e in r["events"] if not e.startswith("G.")})
    if bad:
        res.fail("operation draws from a source other than the generator it was given", case, {"non_G": bad}, "every draw from G", signature="C18:non-G-draw:reuse_" + kind)
    if not (first["gstate_same"] and second["gstate_same"] and ref["gstate_same"]):
        res.fail("operation perturbs the process-global random state", case, {}, "global state unchanged", signature="C18:global-state-perturbed:reuse_" + kind)
    if queue is not None and line is not None and not second["out"].startswith("err:"):
        # the model has no object state: the trace of the SECOND call must be the model's trace for these arguments
        queue("reuse-second-call:" + kind, case, line, ",".join(second["events"]) if second["events"] else "-")
    return second, (not second["out"].startswith("err:") and len(ref["events"]) > 0)


def gen_reuse_case(rng, kind):
    s1 = rng.getrandbits(31)
    case = {"op": "reuse", "kind": kind, "seed1": s1, "seed2": (0 if rng.random() < 0.15 else s1 + 1 + rng.getrandbits(20)), "gseed": rng.getrandbits(31)}
    if kind.endswith("scorer") or kind.endswith("score_chunk"):
        case.update(screen=gen_raw_screen(rng, all_masked=rng.random() < 0.5), n_thetas=rng.randint(5, 6), data_seed=rng.getrandbits(31))   # C(5,3)=10, C(6,3)=20 > max_triples=4
    elif kind == "generator":
        pw = rng.random() < 0.4
        case.update(screen=(gen_pairwise_screen(rng) if pw else gen_raw_screen(rng, all_masked=rng.random() < 0.3)),
                    gen=({"kind": "pairwise", "subset_size": 1, "anchor_size": rng.choice([0, 1])} if pw else gen_generator_spec(rng)))
    elif kind == "smoother":
        case.update(screen=gen_raw_screen(rng, all_masked=rng.random() < 0.3), smoother=gen_smoother_spec(rng))
    elif kind == "sparse_cover":
        case.update(screen=gen_raw_screen(rng, all_observed=True), reveal=rng.random() < 0.5)
    elif kind == "policy":
        case.update(screen=gen_raw_screen(rng, all_masked=True), k=rng.randint(1, 3), n_batch=rng.randint(0, 2))
    return case


REUSE_PLAN = [("dbal_scorer", 6), ("dbal_score_chunk", 4), ("random_scorer", 3), ("random_score_chunk", 2), ("size_scorer", 1), ("generator", 8), ("smoother", 8),
              ("sparse_cover", 3), ("policy", 2)]


def warm_up():
    """import everything the CLI steps import lazily (seaborn/scipy.stats run generator code at import time) BEFORE instrumenting"""
    import importlib
    import pkgutil
    import batchie
    for m in pkgutil.walk_packages(batchie.__path__, "batchie."):
        if m.name.endswith("_test") or "grid_" in m.name:
            continue
        try:
            importlib.import_module(m.name)
        except Exception:
            pass


def kvargs_stream(rng, n, res):
    """extension stream (advisory): argument_parsing.KVAppendAction through a real argparse parser, and str_to_bool;
    every argument is one driver token with a leading ':'"""
    import argparse
    from batchie.cli import argument_parsing as ap
    lines, expect = [], []
    alpha = "ab=._-1"
    for t in range(n):
        k = rng.choice([0, 1, 1, 2, 3, 4])
        args = []
        for _ in range(k):
            m = rng.choice([0, 1, 1, 1, 1, 1, 2, 3])      # number of '=' wanted (mostly well-formed)
            parts = ["".join(rng.choice("ab._-1") for _ in range(rng.choice([0, 1, 1, 2]))) for _ in range(m + 1)]
            args.append("=".join(parts) if rng.random() < 0.9 else "".join(rng.choice(alpha) for _ in range(rng.randint(0, 5))))
        p = argparse.ArgumentParser(exit_on_error=False)
        p.add_argument("--model-param", nargs=1, action=ap.KVAppendAction, default={})
        args = [("a" + a) if a.startswith("-") else a for a in args]      # argparse would read a leading '-' as an option
        argv = []
        for a in args:
            argv.extend(["--model-param", a])
        try:
            d = p.parse_args(argv).model_param
            out = " ".join(":%s=%s" % kv for kv in d.items()) if d else "-"
            res.count("kvargs.accepted.keys_%d" % len(d))
            if len(d) < len(args):
                res.count("kvargs.repeated_key")
        except (argparse.ArgumentError, SystemExit):
            out = "err"
            res.count("kvargs.refused")
        except Exception as e:      # argparse itself refusing the token shape: not the code under study
            res.count("kvargs.skipped." + type(e).__name__)
            continue
        lines.append(" ".join(["args.kv"] + [":" + a for a in args]))
        expect.append(out)
        res.evaluations += 1
    for w in ["true", "T", "Yes", "y", "1", "FALSE", "f", "nO", "n", "0", "", "2", "tru", "yess", "on", "off", "None"]:
        try:
            out = "1" if ap.str_to_bool(w) else "0"
        except ValueError:
            out = "err"
        lines.append("args.bool :" + w)
        expect.append(out)
    return lines, expect


def run(ctx, res):
    res.rule = RULE
    warm_up()
    rng = ctx.subrng("c18")
    lines, expect, meta = [], [], []

    def queue(where, case, line, impl):
        lines.append(line)
        expect.append(impl)
        meta.append((where, case))

    import time as _time
    clock = {"t": _time.process_time(), "w": _time.time()}

    def lap(name):          # CPU seconds of this process / wall seconds per section, for the time budget
        res.count("cpu_ds." + name, int(10 * (_time.process_time() - clock["t"])))
        res.count("wall_ds." + name, int(10 * (_time.time() - clock["w"])))
        clock.update(t=_time.process_time(), w=_time.time())
    per_op = ctx.scale(24, 300, 120)
    cheap = {"sample_mvn", "policy", "scorer_random", "dbal_direct", "holdout_random", "holdout_plate", "select_next_plate"}
    for op in OPS:
        n = per_op if (op in cheap or ctx.tier != "quick") else max(10, per_op * 3 // 4)
        if op.startswith("cli_"):
            n = 14 if ctx.tier == "quick" else max(20, per_op // 3)
        for t in range(n):
            case = gen_case(rng, op)
            if t % 6 == 1:
                case["seed"] = 0
            if t % 6 in (1, 4):        # checklist item 19: a deterministic third of the cases (incl. the seed-0 boundary) has its second run under verbose logging
                case["verbose"] = True
                res.count("class.verbose-logging")
                res.count("class.verbose-logging." + op)
            if t in (2, 3):          # the default budget of 5000 triples, C(32,3) = 4960 below and C(33,3) = 5456 above, through every entry point
                if op == "dbal_direct":
                    case.update(T=30 + t, P=2, E=2, max_combos=None)
                elif op == "score_chunk":
                    case.update(scorer="dbal_default", n_thetas=30 + t, rng_given=True)
                elif op == "cli_scores":     # the command line can only use the default budget
                    case.update(scorer="dbal", n_thetas=30 + t)
            res.evaluations += 1
            A, nontrivial = judge(case, res, queue)
            res.count("op." + op)
            if A["err"] is not None:
                res.count("raised." + op)
            if not in_scope(case):
                res.count("norng." + op)
            if case["seed"] == 0:
                res.count("seed0." + op)
                res.count("class.falsy_seed")
            if case.get("ties"):
                res.count("class.ties.%s.%s" % (op, case["ties"]))
            if case.get("instalments"):
                res.count("class.instalments." + op)
            if case.get("max_combos", 0) is None or case.get("n_thetas") in (32, 33):
                res.count("class.default_budget_boundary." + op + (".C%d" % math.comb(case.get("T") or case["n_thetas"], 3)))
            if op == "dbal_direct" and case["max_combos"] is not None and case["max_combos"] >= math.comb(case["T"], 3):
                res.count("class.budget_at_or_above_all_triples")
            if nontrivial:
                res.nontrivial.add(common.short_hash(case))
                res.count("drew." + op)
            if A["err"] is None and A["toks"] and any(t.startswith("clines=") for t in A["toks"]):
                kv = dict(t.split("=") for t in A["toks"])
                if "0" in kv["clines"]:
                    res.count("prior_branch.sample_without_data." + op)
                if "0" in kv["dds"]:
                    res.count("prior_branch.treatment_without_data." + op)
                if "1" in kv["clines"] and "1" in kv["dds"]:
                    res.count("posterior_branch." + op)
            if t == 0:
                res.sample({"op": op, "model_line": (" ".join(["c18.trace", A["model_op"]] + A["toks"]) if A["err"] is None else A["err"]),
                            "events": A["events"][:12], "n_events": len(A["events"])})
    lap("operations")
    for op, fn in (("train_held", judge_train_held), ("train_stub", judge_train_stub), ("train_twice", judge_train_twice)):
        for t in range(ctx.scale(16, 200, 80)):
            case = gen_train_case(rng, op)
            if t % 5 == 2 and op != "train_stub":
                case["verbose"] = True
                res.count("class.verbose-logging")
                res.count("class.verbose-logging." + op)
            res.evaluations += 1
            res.count("op." + op)
            r = fn(case, res, queue)
            if r is not None:
                res.nontrivial.add(common.short_hash(case))
            if op == "train_stub" and case["held"]:
                res.count("train_stub.held")
            if op in ("train_held", "train_twice"):
                res.count(op + "." + case["model"]["kind"])
            if 0 in (case.get("seed"), case.get("s1"), case.get("s2")):
                res.count("seed0." + op)
    lap("train_streams")
    # checklist item 18: EVERY command that has a --seed option (found by introspecting the parsers), seeds 0, 1 and a large one, each run twice
    # (global numpy / python random state perturbed in between; the second run of seed 0 and of the large seed with --verbose), files compared
    crng = ctx.subrng("c18cli")
    for name in seeded_commands():
        kind = CLI_DRIVERS.get(name)
        if kind is None:
            res.notes.append("command %s has a --seed option but no driver in harness/c18.py" % name)
            res.count("class.entry-point.UNDRIVEN." + name)
            continue
        for _ in range(8):                 # a base case on which the command completes (only the preparation command refuses some inputs)
            base = gen_case(crng, kind)
            if kind != "cli_prepare" or execute(dict(base, seed=1), False)["err"] is None:
                break
        if kind == "cli_select":           # checklist item 22: the minimum score is tied (seed 0 / 1 / large: all-equal, two-way, several -inf)
            base["policy"] = False
            base["n_batch"] = 0
        # the plotting command costs > 1 s per run: seeds 0 and the large one in the quick tier
        for seed in ((0, BIG_SEED) if (kind == "cli_analyze" and ctx.tier == "quick") else (0, 1, BIG_SEED)):
            case = dict(base, seed=seed, verbose=(seed != 1))
            if kind == "cli_select":
                case["ties"] = {0: "all_equal", 1: "min_pair"}.get(seed, "neg_inf")
                res.count("class.ties.entry-point.select_next_plate." + case["ties"])
            res.evaluations += 1
            res.count("class.entry-point." + name)
            res.count("class.entry-point.%s.seed_%s" % (name, "big" if seed == BIG_SEED else seed))
            if case["verbose"]:
                res.count("class.verbose-logging")
            A, nontrivial = judge(case, res, queue)
            if A["err"] is not None:
                res.count("raised.entry-point." + name)
            else:
                res.nontrivial.add(common.short_hash(case))
    lap("seeded_commands")
    # object-reuse stream
    rrng = ctx.subrng("c18reuse")
    for kind, w in REUSE_PLAN:
        for t in range(w * ctx.scale(1, 8, 4)):
            case = gen_reuse_case(rrng, kind)
            if t % 3 == 1:
                case["verbose"] = True
                res.count("class.verbose-logging")
                res.count("class.verbose-logging.reuse_" + kind)
            res.evaluations += 1
            res.count("reuse." + kind)
            res.count("class.reuse_with_different_seed." + kind)
            _, nontrivial = judge_reuse(case, res, queue)
            if nontrivial:
                res.nontrivial.add(common.short_hash(case))
                res.count("reuse.drew." + kind)
    lap("object_reuse")
    # cross-process stream: the same seeded cases in one fresh interpreter per PYTHONHASHSEED
    xcases = gen_xproc_cases(ctx.subrng("c18x"), 2 if ctx.tier == "quick" else 8)

    def xcount(case, ds):
        res.evaluations += 1
        res.count("xproc." + case["op"] + (".pairwise_single_rows" if case.get("xproc_pairwise") else ""))
        if not any(d.startswith("err:") for d in ds.values()):
            res.nontrivial.add(common.short_hash(["xproc", case]))
        else:
            res.count("xproc.raised." + case["op"])
    for i, c in enumerate(xcases):
        if i % 4 == 1:
            c["verbose"] = True
            res.count("class.verbose-logging")
            res.count("class.verbose-logging.xproc")
    judge_xproc(xcases, list(XPROC_HASHSEEDS), res, xcount)

    def ocount(g, digests, tight=False):
        res.evaluations += 1
        res.count(("class.temporaries.tight_loop." + g[0]["inner"]) if tight else ("class.temporaries." + g[0]["op"]))
        ok = [d for d in digests if not d.startswith("err:")]
        if len(set(ok)) >= 2:
            res.nontrivial.add(common.short_hash(["order", g]))
            res.count("class.temporaries.variants_with_distinct_results")
    trng = ctx.subrng("c18tmp")
    judge_order(gen_temporaries_groups(trng, 1 if ctx.tier == "quick" else 5), res, ocount, tight=gen_tight_cases(trng, 2 if ctx.tier == "quick" else 8))
    res.count("xproc.processes", len(XPROC_HASHSEEDS))
    lap("cross_process")
    vi_case = {"op": "sample_vi", "seed": 5, "gseed": rng.getrandbits(20)}
    res.evaluations += 1
    run_vi(res, vi_case)
    lap("vi_model")
    kv_lines, kv_expect = kvargs_stream(ctx.subrng("c18kv"), ctx.scale(120, 1200, 400), res)
    lap("kvargs")
    if ctx.driver is not None and kv_lines:
        for l, e, g in zip(kv_lines, kv_expect, ctx.driver.ask(kv_lines)):
            if e != g:      # command-line glue is outside the text of C18: advisory only
                res.advise("outside the text of C18: model and implementation of KVAppendAction/str_to_bool disagree", {"line": l}, e[:300], g[:300], signature="C18:ext:kvargs")
        res.traces_validated += len(kv_lines)
    if ctx.driver is not None:
        got = ctx.driver.ask(lines + ["c18.trace sampleVI n=1", "c18.excluded sampleVI", "c18.excluded cliTrainModelVI"])
        for l, e, g, (where, case) in zip(lines, expect, got, meta):
            if e != g:
                res.disagree("C18:trace:" + where, {"case": case, "line": l}, e[:800], g[:800])
        if got[-2:] != ["1", "1"] or "GLOBAL" not in got[-3]:
            res.disagree("C18:trace:sampleVI", {"line": "c18.excluded sampleVI"}, "excluded, GLOBAL-tagged", " ".join(got[-3:]))
        res.traces_validated += len(lines)


def replay(ctx, case, res):
    if case.get("op") == "reuse":
        warm_up()
        judge_reuse(case, res, None)
        return
    if case.get("op") == "xproc_order":
        if "tight" in case:
            judge_order([], res, tight=[case["tight"]])
        else:
            judge_order([case["group"]], res)
        return
    if case.get("op") == "xproc":
        judge_xproc([case["inner"]], list(case["hashseeds"]) + [h for h in (0, 1, 2, 3, 4, 5) if h not in case["hashseeds"]], res)
        return
    warm_up()
    if case.get("op") == "sample_vi":
        run_vi(res, case)
        return
    if case.get("op") == "train_held":
        judge_train_held(case, res, None)
        return
    if case.get("op") == "train_stub":
        judge_train_stub(case, res, None)
        return
    if case.get("op") == "train_twice":
        judge_train_twice(case, res, None)
        return
    judge(case, res, None)
