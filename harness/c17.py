"""C17 -- sampling follows the burn-in/thinning schedule; each chain gets its own stream.

Tie: the translated MCMC branch (`Generated/Sampling`, driver op `schedule`), the generator dataflow model
(`chainrng`) and the VI-branch model (`vi`) are run by the Lean driver on the same arguments as the real
`batchie.sampling.sample`, which is driven with counting stub models (subclasses of batchie.core.MCMCModel /
VIModel) and a real ThetaHolder.

Oracles (on the implementation alone): step count at every recorded state = b+t, b+2t, ..., b+n*t; reset and set_rng
before the first step; holder complete; generator equal for equal (seed, chain_index) regardless of n_chains and equal to
default_rng(SeedSequence(seed, spawn_key=(chain_index,))); different, non-overlapping first draws for different chain
indices / seeds; VI model reset, seeded with default_rng(seed), asked once for n samples.
"""
import itertools

import numpy as np

from vlib import common

common.use_repo_sources()

RULE = ("schedule: exhaustive grid over (n_burnin b, thin t, n_thetas n) incl. n=0 (quick b<=6,t<=4,n<=5; thorough b<=20,t<=8,n<=10) "
        "+ a smaller grid with progress_bar=True + out-of-domain t=0 / negative b for the tie only; the stub model starts dirty (non-zero step counter) so a missing/late reset shows; "
        "generator: grid of seeds (0, 1, 2^32-1, 2^32, >2^64, random) x n_chains 1..6 x every chain index (+ out-of-range index, negative seed for the tie); "
        "models that already hold a generator (stub built with an rng; real SparseDrugCombo(rng=default_rng(123))), the same model object passed to sample() "
        "2-5 times (other seed, first seed again, other chain index / n_chains) and fresh models for repeated triples in shuffled orders, all in one process; "
        "VI: stub VIModel returning n (oracle) or a different number (tie) of samples. "
        "Non-trivial: schedule with b>=1,t>=2,n>=2; generator comparisons between different n_chains or different chain indices; VI with n>=2.")

K_DRAWS = 8


# ----------------------------------------------------------------------------------------------
# stubs
# ----------------------------------------------------------------------------------------------
_STUBS = []


def _stubs():
    """the stub classes, defined once per process (defining them per call would churn the allocator and hide identity-keyed state)"""
    if not _STUBS:
        _STUBS.append(_make_stubs())
    return _STUBS[0]


def _make_stubs():
    from batchie.core import MCMCModel, VIModel, ThetaHolder

    class State:
        def __init__(self, steps, draw):
            self.steps = steps
            self.draw = draw

    class CountingMCMC(MCMCModel):
        """records reset (2) / set_rng (3) / step (0) events; every step draws one number from the generator it was given"""

        def __init__(self, trace, dirty=17, rng=None):
            self.trace = trace
            self.steps = dirty       # steps since the last reset (dirty on purpose before the run)
            self._rng = rng          # a model may already hold a generator when sample() is called
            self.draws = []
            self.rng_at_first_step = None

        # every stub method accepts any positional / keyword form (checklist item 21): the code under test may pass by name
        def reset_model(self, *args, **kwargs):
            self.trace.append(2)
            self.steps = 0

        def set_rng(self, *args, **kwargs):
            self.trace.append(3)
            self._rng = first_arg(args, kwargs, "CountingMCMC.set_rng")

        @property
        def rng(self):
            return self._rng

        def step(self, *args, **kwargs):
            self.trace.append(0)
            self.steps += 1
            if self._rng is not None:
                if self.rng_at_first_step is None:
                    self.rng_at_first_step = self._rng
                self.draws.append(int(self._rng.integers(0, 2 ** 63)))
            else:
                self.draws.append(None)

        def get_model_state(self, *args, **kwargs):
            return State(self.steps, self.draws[-1] if self.draws else None)

    class CountingVI(VIModel):
        def __init__(self, trace, returned=None):
            self.trace = trace
            self._rng = None
            self.returned = returned
            self.calls = []

        def reset_model(self, *args, **kwargs):
            self.trace.append("R")

        def set_rng(self, *args, **kwargs):
            rng = first_arg(args, kwargs, "CountingVI.set_rng")
            try:
                ss = seed_seq_of(rng)
                self.trace.append("G%d/%s" % (int(ss.entropy), show_list(ss.spawn_key)))
            except Exception as e:  # noqa
                WRAP_ERRORS.append("CountingVI.set_rng: %s: %s" % (type(e).__name__, e))
                self.trace.append("G?")
            self._rng = rng

        @property
        def rng(self):
            return self._rng

        def sample(self, *args, **kwargs):
            num_samples = kwargs["num_samples"] if "num_samples" in kwargs else first_arg(args, kwargs, "CountingVI.sample")
            self.trace.append("S%d" % num_samples)
            self.calls.append(num_samples)
            r = num_samples if self.returned is None else self.returned
            return [State(-1, i) for i in range(r)]

    class Holder(ThetaHolder):
        def __init__(self, n_thetas, trace, code):
            super().__init__(n_thetas)
            self.trace = trace
            self.code = code

        def add_theta(self, *args, **kwargs):
            super().add_theta(*args, **kwargs)
            self.trace.append(self.code)

    return State, CountingMCMC, CountingVI, Holder


WRAP_ERRORS = []


def errname(e):
    """exception class name; prefixed with `harness:` when the innermost frame is harness code (stub / wrapper): such an exception is
    never the implementation's (checklist item 21)"""
    from harness.wrapguard import raised_in_harness
    return ("harness:" if raised_in_harness(e) else "") + type(e).__name__


def harness_error(res, case, err):
    """True (and a tie recorded) when `err` was raised by harness code"""
    if err and str(err).startswith("harness:"):
        res.count("wrapper.unexpected-call")
        res.disagree("C17:harness-exception", {"case": case}, err, "no exception in harness code")
        return True
    return False


def first_arg(args, kwargs, who):
    """the single argument of a call, positional or by whatever name"""
    vals = list(args) + list(kwargs.values())
    if len(vals) != 1:
        WRAP_ERRORS.append("%s called with %d arguments" % (who, len(vals)))
    return vals[0] if vals else None


def drain_wrapper_errors(res, case=None):
    if WRAP_ERRORS:
        res.count("wrapper.unexpected-call", len(WRAP_ERRORS))
        res.disagree("C17:wrapper-unexpected-call", {"case": case}, WRAP_ERRORS[0], "a call form the harness's stubs understand")
        del WRAP_ERRORS[:]


def seed_seq_of(rng):
    bg = rng.bit_generator
    ss = getattr(bg, "seed_seq", None)
    if ss is None:
        ss = bg._seed_seq
    return ss


def show_list(l):
    l = list(l)
    return "-" if not l else ",".join(str(int(x)) for x in l)


# ----------------------------------------------------------------------------------------------
# running the real code
# ----------------------------------------------------------------------------------------------
def run_mcmc(n, b, t, seed=0, n_chains=1, idx=0, progress=False, np_int=False, prestep=0, verbose=False):
    if verbose:
        with common.verbose_logging():
            return run_mcmc(n, b, t, seed, n_chains, idx, progress, np_int, prestep, False)
    return _run_mcmc(n, b, t, seed, n_chains, idx, progress, np_int, prestep)


def _run_mcmc(n, b, t, seed=0, n_chains=1, idx=0, progress=False, np_int=False, prestep=0):
    """real sample() on the counting stub; returns a dict of observables (progress: with progress_bar=True, tqdm output discarded)"""
    import contextlib
    import io
    from batchie.sampling import sample
    _State, CountingMCMC, _VI, Holder = _stubs()
    trace = []
    model = CountingMCMC(trace)
    for _ in range(prestep):        # a model that was stepped by hand before (no generator yet): NOT in its initial state
        model.step()
    del trace[:]
    model.draws = []
    holder = Holder(n, trace, 1)
    out = {"error": None}
    if np_int:                      # class layout/dtype: the integers arrive as np.int64 (e.g. read from an array of settings)
        seed, n_chains, idx, b, t = (np.int64(seed) if seed < 2 ** 63 else seed), np.int64(n_chains), np.int64(idx), np.int64(b), np.int64(t)
    try:
        if progress:
            with contextlib.redirect_stderr(io.StringIO()):
                ret = sample(model, holder, seed=seed, n_chains=n_chains, chain_index=idx, n_burnin=b, thin=t, progress_bar=True)
        else:
            ret = sample(model, holder, seed=seed, n_chains=n_chains, chain_index=idx, n_burnin=b, thin=t)
        out["returned_holder"] = ret is holder
    except Exception as e:  # noqa
        out["error"] = errname(e)
    out["trace"] = list(trace)
    out["positions"] = [th.steps for th in holder.thetas]
    out["recorded_draws"] = [th.draw for th in holder.thetas]
    out["complete"] = bool(holder.is_complete)
    out["steps"] = model.steps
    out["draws"] = list(model.draws)
    out["rng"] = model.rng
    out["rng_same_at_first_step"] = (model.rng_at_first_step is None) or (model.rng_at_first_step is model.rng)
    return out


def rng_observe(seed, n_chains, idx):
    """entropy/spawn key and the first draws of the generator the model was handed (fresh stream: b=0, no step)"""
    o = run_mcmc(0, 0, 1, seed=seed, n_chains=n_chains, idx=idx)
    if o["error"]:
        return {"error": o["error"]}
    rng = o["rng"]
    if rng is None:
        return {"error": None, "rng": None}
    ss = seed_seq_of(rng)
    return {"error": None, "entropy": int(ss.entropy), "key": [int(x) for x in ss.spawn_key],
            "draws": [int(x) for x in rng.integers(0, 2 ** 63, K_DRAWS)]}


def other_process_draws(triples, hashseed="4242"):
    """first draws for the triples, observed in ANOTHER interpreter process with another PYTHONHASHSEED; None if that process failed"""
    import json as _json
    import os as _os
    import subprocess as _sp
    import sys as _sys
    code = ("import sys, json; sys.path.insert(0, %r); sys.path.insert(0, %r); from harness import c17; "
            "print(json.dumps([c17.rng_observe(*t).get('draws') for t in %r]))") % (common.VERIF, _os.path.join(common.REPO, "src"), [list(t) for t in triples])
    pr = _sp.run([_sys.executable, "-c", code], env=dict(_os.environ, PYTHONHASHSEED=hashseed), stdout=_sp.PIPE, stderr=_sp.PIPE, text=True, timeout=300)
    try:
        return _json.loads(pr.stdout.strip().split("\n")[-1]), ""
    except Exception:  # noqa
        return None, pr.stderr[-300:]


def run_vi(seed, n, returned=None, verbose=False):
    if verbose:
        with common.verbose_logging():
            return _run_vi(seed, n, returned)
    return _run_vi(seed, n, returned)


def _run_vi(seed, n, returned=None):
    from batchie.sampling import sample
    _State, _M, CountingVI, Holder = _stubs()
    trace = []
    model = CountingVI(trace, returned)
    holder = Holder(n, trace, "A")
    out = {"error": None}
    try:
        sample(model, holder, seed=seed)
    except Exception as e:  # noqa
        out["error"] = errname(e)
    out["trace"] = list(trace)
    out["calls"] = list(model.calls)
    out["n_added"] = len(holder.thetas)
    out["complete"] = bool(holder.is_complete)
    out["order"] = [th.draw for th in holder.thetas]
    out["draws"] = None if model.rng is None else [int(x) for x in model.rng.integers(0, 2 ** 63, K_DRAWS)]
    return out



# ----------------------------------------------------------------------------------------------
# models that already hold a generator / are reused / repeated triples in one process
# ----------------------------------------------------------------------------------------------
def ref_scalar(seed, key, m):
    """the first m scalar draws (as the stub's step() makes them) of default_rng(SeedSequence(seed, spawn_key=key))"""
    g = np.random.default_rng(np.random.SeedSequence(seed, spawn_key=tuple(key)))
    return [int(g.integers(0, 2 ** 63)) for _ in range(m)]


_REAL = {}


def _real_setup():
    """a tiny observed screen + a recording subclass of the real SparseDrugCombo"""
    if _REAL:
        return _REAL
    from batchie.data import Screen, ExperimentSpace
    from batchie.models.sparse_combo import SparseDrugCombo
    sn = ["s0", "s0", "s0", "s1", "s1", "s1", "s0", "s1"]
    tn = [["a", "b"], ["a", "c"], ["b", "c"], ["a", "b"], ["a", "c"], ["b", "c"], ["a", ""], ["b", ""]]
    td = [[1., 1.], [1., 2.], [1., 2.], [1., 1.], [1., 2.], [1., 2.], [1., 0.], [1., 0.]]
    scr = Screen(treatment_names=np.array(tn, dtype=str), treatment_doses=np.array(td), sample_names=np.array(sn, dtype=str),
                 plate_names=np.array(["p"] * 8, dtype=str), observations=np.array([.1, .2, .3, .4, .5, .6, .7, .8]),
                 observation_mask=np.ones(8, dtype=bool))
    es = ExperimentSpace.from_screen(scr)

    class RecordingCombo(SparseDrugCombo):
        trace = None

        def reset_model(self, *args, **kwargs):
            self.trace.append(2)
            return super().reset_model(*args, **kwargs)

        def set_rng(self, *args, **kwargs):
            self.trace.append(3)
            return super().set_rng(*args, **kwargs)

        def step(self, *args, **kwargs):
            self.trace.append(0)
            return super().step(*args, **kwargs)

    def make(trace, rng=None):
        m = RecordingCombo(experiment_space=es, n_embedding_dimensions=2, rng=rng)
        m.trace = trace
        m.add_observations(scr)
        return m

    _REAL.update(make=make)
    return _REAL


CLI = {"trace": [], "first_rng": None, "preset": False, "instances": 0}


def install_cli_model():
    """the model class `train_model.main()` finds by introspection: the real SparseDrugCombo, recording reset / set_rng / step and a
    COPY of the generator it holds when its first step begins (= what sample() handed over, unless set_rng was skipped)."""
    import copy
    import batchie.models.sparse_combo as mod
    from batchie.data import ExperimentSpace
    if getattr(mod, "VerifRecCombo", None) is None:
        class VerifRecCombo(mod.SparseDrugCombo):
            def __init__(self, experiment_space: ExperimentSpace, n_embedding_dimensions: int, *args, **kwargs):
                CLI["instances"] += 1
                if CLI["preset"]:
                    kwargs.setdefault("rng", np.random.default_rng(123))
                super().__init__(experiment_space, n_embedding_dimensions, *args, **kwargs)

            def reset_model(self, *args, **kwargs):
                CLI["trace"].append(2)
                return super().reset_model(*args, **kwargs)

            def set_rng(self, *args, **kwargs):
                CLI["trace"].append(3)
                return super().set_rng(*args, **kwargs)

            def step(self, *args, **kwargs):
                if 0 not in CLI["trace"]:
                    CLI["first_rng"] = copy.deepcopy(self.rng)      # state is copied; the seed sequence is read from the original
                    try:
                        ss_ = seed_seq_of(self.rng)
                        CLI["first_ss"] = (int(ss_.entropy), [int(x) for x in ss_.spawn_key])
                    except Exception:  # noqa
                        CLI["first_ss"] = (None, None)
                CLI["trace"].append(0)
                return super().step(*args, **kwargs)
        mod.VerifRecCombo = VerifRecCombo


def cli_screen(tmp, partial):
    """the screen file given to train_model: observed rows (the training data) and, when `partial`, an unobserved plate as well"""
    import os
    from batchie.data import Screen
    sn = ["s0", "s0", "s0", "s1", "s1", "s1", "s0", "s1", "s1", "s0"]
    tn = [["a", "b"], ["a", "c"], ["b", "c"], ["a", "b"], ["a", "c"], ["b", "c"], ["a", ""], ["b", ""], ["c", "a"], ["c", "b"]]
    td = [[1., 1.], [1., 2.], [1., 2.], [1., 1.], [1., 2.], [1., 2.], [1., 0.], [1., 0.], [2., 1.], [2., 2.]]
    mask = np.array([True] * 8 + [not partial] * 2)
    obs = np.where(mask, np.array([.1, .2, .3, .4, .5, .6, .7, .8, .35, .45]), 0.0)
    scr = Screen(treatment_names=np.array(tn, dtype=str), treatment_doses=np.array(td), sample_names=np.array(sn, dtype=str),
                 plate_names=np.array(["p0"] * 8 + ["p1"] * 2, dtype=str), observations=obs, observation_mask=mask)
    fn = os.path.join(tmp, "train_screen.h5")
    scr.save_h5(fn)
    return fn


def run_train_cli(case, tmp):
    """class entry-point: batchie.cli.train_model.main() with --seed / --n-chains / --chain-index / --n-burnin / --thin / --n-samples.
    Returns observables: trace (2 reset, 3 set_rng, 0 step), first draws of a copy of the generator held at the first step, the
    thetas in the output file, and the states of a twin driven by hand (same class, same data, reset, that generator, b + n*t steps)."""
    import contextlib
    import copy
    import io
    import os
    from batchie.cli import train_model as tm
    from batchie.core import ThetaHolder
    from batchie.data import Screen, ExperimentSpace
    from batchie.models.sparse_combo import SparseDrugCombo
    from harness.c07 import quiet_cli
    install_cli_model()
    data_fn = cli_screen(tmp, case.get("partial", False))
    out_fn = os.path.join(tmp, "thetas_out.h5")
    if os.path.exists(out_fn):
        os.unlink(out_fn)
    n, b, t = case["n"], case["b"], case["t"]
    argv = ["train_model", "--data", data_fn, "--model", "VerifRecCombo", "--model-param", "n_embedding_dimensions=2", "--output", out_fn,
            "--n-samples", str(n), "--n-burnin", str(b), "--thin", str(t), "--n-chains", str(case["n_chains"]), "--chain-index", str(case["idx"])]
    if not (case.get("omit_default_seed") and case["seed"] == 0):
        argv += ["--seed", str(case["seed"])]
    if case.get("verbose"):
        argv.append("--verbose")
    if case.get("progress"):
        argv.append("--progress")
    CLI["trace"], CLI["first_rng"], CLI["preset"] = [], None, bool(case.get("preset"))
    o = {"error": None}
    try:
        with quiet_cli(argv), contextlib.redirect_stdout(io.StringIO()), contextlib.redirect_stderr(io.StringIO()):
            tm.main()
    except BaseException as e:  # noqa
        o["error"] = "%s: %s" % (errname(e), e)
        return o
    o["trace"] = list(CLI["trace"])
    g = CLI["first_rng"]
    o["has_rng"] = g is not None
    if g is not None:
        o["entropy"], o["key"] = CLI.get("first_ss", (None, None))
        o["draws"] = [int(x) for x in copy.deepcopy(g).integers(0, 2 ** 63, K_DRAWS)]
    with contextlib.redirect_stdout(io.StringIO()):
        holder = ThetaHolder.load_h5(out_fn)
        data = Screen.load_h5(data_fn)
    o["file_states"] = [theta_sig(holder.get_theta(i)) for i in range(holder.n_thetas)] if holder.is_complete else None
    o["file_n"] = int(holder.n_thetas)
    if g is not None:
        twin = SparseDrugCombo(experiment_space=ExperimentSpace.from_screen(data), n_embedding_dimensions=2)
        sub = data.subset_observed()
        if sub is not None:
            twin.add_observations(sub)
        twin.reset_model()
        twin.set_rng(copy.deepcopy(g))
        want = []
        for _ in range(b):
            twin.step()
        for i in range(n * t):
            twin.step()
            if (i + 1) % t == 0:
                want.append(theta_sig(twin.get_model_state()))
        o["want_states"] = want
    os.unlink(out_fn)
    return o


def oracle_train_cli(res, case, o, earlier):
    """the property's clauses through the real entry point; `earlier` = observations of earlier CLI runs of this process by triple"""
    n, b, t = case["n"], case["b"], case["t"]
    if harness_error(res, case, o["error"]):
        return
    if o["error"]:
        res.fail("train_model.main() raises on a valid schedule / triple", case, o["error"], "thetas written", signature="C17:cli-raises")
        return
    r_at, s_at, steps, _pos = trace_positions(o["trace"])
    if r_at is None or (s_at is not None and (r_at > s_at or 2 in o["trace"][s_at:])):
        res.fail("train_model: the model is not reset before its first step", case, o["trace"][:8], [2, 3, 0], signature="C17:reset-order")
        return
    if steps != b + n * t:
        res.fail("train_model: model not advanced exactly b + n*t steps", case, steps, b + n * t, signature="C17:total-steps")
        return
    if not o["has_rng"] and steps:
        res.fail("train_model: the model holds no generator when it starts stepping", case, None, "a generator", signature="C17:rng-missing")
        return
    if o["file_states"] is None or o["file_n"] != n:
        res.fail("train_model: the written collection is not complete", case, {"n_thetas": o["file_n"]}, n, signature="C17:holder-incomplete")
        return
    if steps and o["file_states"] != o.get("want_states"):
        res.fail("train_model: the thetas in the output file are not the states after steps b+t, ..., b+n*t of a reset model driven by the generator it was handed",
                 case, {"equal_states": sum(1 for a_, b_ in zip(o["file_states"], o.get("want_states") or []) if a_ == b_)}, n, signature="C17:record-positions")
        return
    if not steps:
        return
    key = (case["seed"], case["n_chains"], case["idx"])
    if o.get("entropy") != case["seed"] or o.get("key") != [case["idx"]]:
        res.disagree("C17:cli-rng-derivation", {"case": case}, {"entropy": o.get("entropy"), "spawn_key": o.get("key")}, {"entropy": case["seed"], "spawn_key": [case["idx"]]})
    for key2, dr in earlier:
        if key2 == key and dr != o["draws"]:
            res.fail("same (seed, n_chains, chain_index) gives different generators", dict(case, earlier=list(key2)), [dr[:3], o["draws"][:3]], "identical streams",
                     signature="C17:rng-not-deterministic")
            return
        if key2[:2] == key[:2] and key2[2] != key[2] and set(dr) & set(o["draws"]):
            res.fail("different chains / seeds share generator output", dict(case, earlier=list(key2)), [dr[:3], o["draws"][:3]], "non-overlapping streams",
                     signature="C17:rng-shared-stream")
            return
    earlier.append((key, o["draws"]))


def theta_sig(t):
    return [repr(float(t.precision)), repr(float(t.alpha))] + [getattr(t, k).tobytes().hex() for k in ("W0", "V0", "W", "V2", "V1")]


def gen_state(rng):
    if rng is None:
        return None
    st = rng.bit_generator.state
    return [st.get("bit_generator"), str(st.get("state")), st.get("has_uint32"), st.get("uinteger")]


def run_calls(case):
    if case.get("verbose"):
        with common.verbose_logging():
            return _run_calls(case)
    return _run_calls(case)


def _run_calls(case):
    """case: {"model": "stub"|"real", "preset": bool, "fresh_each": bool, "calls": [[seed, n_chains, idx], ...], "n","b","t"}
    Runs the real sample() once per call, on ONE model object (fresh_each False) or on a new model per call, all in this process.
    Returns one observation dict per call."""
    import copy
    from batchie.sampling import sample
    _State, CountingMCMC, _VI, Holder = _stubs()
    n, b, t = case["n"], case["b"], case["t"]
    total = b + n * t
    real = case["model"] == "real"
    obs = []
    model = None
    for (seed, nc, idx) in case["calls"]:
        trace = []
        preset = np.random.default_rng(123) if case["preset"] else None
        if model is None or case["fresh_each"]:
            model = _real_setup()["make"](trace, preset) if real else CountingMCMC(trace, rng=preset)
            for _ in range(int(case.get("prestep", 0))):      # stepped by hand before sample(): not in its initial state
                model.step()
            del trace[:]
        else:
            model.trace = trace
        held_before = model.rng
        o = {"call": [seed, nc, idx], "error": None}
        twin = None
        if real:
            # reference: the SAME starting object state, driven by hand with the generator this call must use
            twin = copy.deepcopy(model)
            twin.trace = []
        else:
            model.draws = []
        holder = Holder(n, trace, 1)
        try:
            sample(model, holder, seed=seed, n_chains=nc, chain_index=idx, n_burnin=b, thin=t)
        except Exception as e:  # noqa
            o["error"] = errname(e)
        o["trace"] = list(trace)
        rng = model.rng
        o["has_rng"] = rng is not None
        o["kept_previous_generator"] = (held_before is not None) and (rng is held_before)
        if rng is not None:
            ss = seed_seq_of(rng)
            o["entropy"], o["key"] = int(ss.entropy), [int(x) for x in ss.spawn_key]
        if real:
            o["states"] = [theta_sig(th) for th in holder.thetas]
            o["gen_state_after"] = gen_state(rng)
            o["wrapped_same"] = model.wrapped_model.rng is rng
            twin.reset_model()
            twin.set_rng(np.random.default_rng(np.random.SeedSequence(seed, spawn_key=(idx,))))
            want = []
            for _ in range(b):
                twin.step()
            for i in range(n * t):
                twin.step()
                if (i + 1) % t == 0:
                    want.append(theta_sig(twin.get_model_state()))
            o["want_states"] = want
            o["want_gen_state_after"] = gen_state(twin.rng)
        else:
            o["draws"] = list(model.draws)
            o["want_draws"] = ref_scalar(seed, (idx,), total)
            o["next_draws"] = None if rng is None else [int(rng.integers(0, 2 ** 63)) for _ in range(2)]
            g = np.random.default_rng(np.random.SeedSequence(seed, spawn_key=(idx,)))
            allw = [int(g.integers(0, 2 ** 63)) for _ in range(total + 2)]
            o["want_next_draws"] = allw[total:]
        obs.append(o)
    return obs


def trace_positions(tr):
    """(index of the first reset or None, index of the first step or None, number of steps, steps taken at each record)"""
    cnt, pos = 0, []
    for e in tr:
        if e == 0:
            cnt += 1
        elif e == 1:
            pos.append(cnt)
    return (tr.index(2) if 2 in tr else None), (tr.index(0) if 0 in tr else None), cnt, pos


def oracle_calls(res, case, obs):
    """every call on a reused / preset / pre-stepped model.  FAIL only for what the property states: no exception, the model is reset before
    its first step, b + n*t steps, records after b+t, ..., b+n*t, a generator is handed over, identical triples give identical streams whatever
    happened before in this process, another chain index of the same (seed, n_chains) gives a non-overlapping stream.  That the stream is
    numpy's chain_index-th child of SeedSequence(seed), that it does not depend on n_chains, the exact call order of set_rng: ties."""
    first_by_triple, by_chain = {}, {}
    for j, o in enumerate(obs):
        c = dict(case, failing_call=j)
        seed, nc, idx = o["call"]
        if harness_error(res, c, o["error"]):
            return False
        if o["error"]:
            res.fail("sample raises on a reused / preset model", c, o["error"], "no exception", signature="C17:rng-raises")
            return False
        want_tr = [2, 3] + [0] * case["b"] + ([0] * case["t"] + [1]) * case["n"]
        r_at, s_at, steps, pos = trace_positions(o["trace"])
        want_pos = [case["b"] + (i + 1) * case["t"] for i in range(case["n"])]
        if r_at is None or (s_at is not None and (r_at > s_at or 2 in o["trace"][s_at:])):
            res.fail("the model is not reset before its first step", c, o["trace"][:12], want_tr[:12], signature="C17:reset-order")
            return False
        if steps != case["b"] + case["n"] * case["t"] or pos != want_pos:
            res.fail("a reused / preset model is not advanced b + n*t steps with records after b+t, ..., b+n*t", c, {"steps": steps, "records_at": pos},
                     {"steps": case["b"] + case["n"] * case["t"], "records_at": want_pos}, signature="C17:record-positions")
            return False
        if o["trace"] != want_tr:
            res.disagree("C17:calls-trace-order", {"case": c}, o["trace"][:12], want_tr[:12])
        if not o["has_rng"]:
            res.fail("model was never given a generator", c, None, "set_rng(generator)", signature="C17:rng-missing")
            return False
        if o["kept_previous_generator"] or o.get("entropy") != seed or o.get("key") != [idx]:
            res.disagree("C17:rng-derivation", {"case": c}, {"kept_previous_generator": o["kept_previous_generator"], "entropy": o.get("entropy"),
                                                            "spawn_key": o.get("key")}, {"entropy": seed, "spawn_key": [idx]})
        if case["model"] == "real":
            if o["states"] != o["want_states"] or o["gen_state_after"] != o["want_gen_state_after"] or not o["wrapped_same"]:
                res.disagree("C17:real-model-stream", {"case": c}, "states / generator consumption differ from the numpy child stream", "identical")
            key = (seed, nc, idx, "real", j == 0 or case["fresh_each"])
            summary = o["states"]
        else:
            if o["draws"] != o["want_draws"] or o["next_draws"] != o["want_next_draws"]:
                res.disagree("C17:stub-model-stream", {"case": c}, {"draws": o["draws"][:3]}, {"draws": o["want_draws"][:3]})
            key = (seed, nc, idx, "stub", True)
            summary = o["draws"]
        if key[4]:
            # identical triples => identical streams, whatever happened before in this process
            if key in first_by_triple and first_by_triple[key] != summary:
                res.fail("same (seed, n_chains, chain_index) gives different generators", c, "differs from an earlier call with the same triple", "identical",
                         signature="C17:rng-not-deterministic")
                return False
            first_by_triple.setdefault(key, summary)
            # another chain index of the same (seed, n_chains): non-overlapping (stub: the draws themselves)
            if case["model"] == "stub" and summary:
                for (idx2, summ2) in by_chain.get((seed, nc), []):
                    if idx2 != idx and set(summ2) & set(summary):
                        res.fail("different chains / seeds share generator output", dict(c, other_chain=idx2), summary[:3], "non-overlapping streams",
                                 signature="C17:rng-shared-stream")
                        return False
                by_chain.setdefault((seed, nc), []).append((idx, summary))
    return True

# ----------------------------------------------------------------------------------------------
# oracles (implementation only)
# ----------------------------------------------------------------------------------------------
def verbose_vs_plain(res, case, o):
    """a run under verbose logging must hand the model the stream the plain run hands it (identical triple => identical stream)"""
    o_plain = run_mcmc(case["n"], case["b"], case["t"], progress=bool(case.get("progress")), prestep=int(case.get("prestep", 0)),
                       np_int=bool(case.get("np_int")))
    if not o["error"] and not o_plain["error"]:
        da, db = o["draws"], o_plain["draws"]
        if not da and o.get("rng") is not None and o_plain.get("rng") is not None:      # no step was made: look at the generators themselves
            da, db = [int(x) for x in o["rng"].integers(0, 2 ** 63, 3)], [int(x) for x in o_plain["rng"].integers(0, 2 ** 63, 3)]
        if da != db or o["recorded_draws"] != o_plain["recorded_draws"]:
            res.fail("same (seed, n_chains, chain_index) gives different generators", case, [da[:3], db[:3]],
                     "the run under verbose logging draws what the plain run draws", signature="C17:rng-not-deterministic")


def oracle_schedule(res, case, o):
    n, b, t = case["n"], case["b"], case["t"]
    if harness_error(res, case, o["error"]):
        return
    if o["error"]:
        res.fail("sample raises on a valid schedule", case, o["error"], "no exception", signature="C17:schedule-raises")
        return
    want = [b + (i + 1) * t for i in range(n)]
    tr = o["trace"]
    if o["positions"] != want:
        res.fail("recorded states are not those after steps b+t, b+2t, ..., b+n*t", case, o["positions"], want,
                 signature="C17:record-positions")
        return
    if o["steps"] != b + n * t or tr.count(0) != b + n * t:
        res.fail("model not advanced exactly b + n*t steps after the reset", case, {"steps_since_reset": o["steps"], "step_calls": tr.count(0)},
                 b + n * t, signature="C17:total-steps")
        return
    if not o["complete"] or tr.count(1) != n:
        res.fail("holder not complete after sampling", case, {"records": tr.count(1), "complete": o["complete"]}, n,
                 signature="C17:holder-incomplete")
        return
    first_step = tr.index(0) if 0 in tr else len(tr)
    if 2 not in tr[:first_step] or 2 in tr[first_step:]:
        res.fail("the model is not reset before its first step (or is reset again later)", case, tr[:6], [2, 3], signature="C17:reset-order")
        return
    if tr[:2] != [2, 3] or tr.count(2) != 1 or tr.count(3) != 1:       # exact call order / counts: the model's business
        res.disagree("C17:schedule-call-order", {"case": case}, tr[:6], [2, 3])
    # the recorded state is the state right after the step (the draw of that very step)
    want_draws = [o["draws"][p - 1] for p in want]
    if o["recorded_draws"] != want_draws:
        res.fail("recorded state is not the model state right after the scheduled step", case, o["recorded_draws"], want_draws,
                 signature="C17:recorded-state")
    if not o["rng_same_at_first_step"]:
        res.disagree("C17:generator-replaced", {"case": case}, "rng changed after stepping began", "set once before the first step")
    if not o.get("returned_holder", True):
        res.disagree("C17:returned-holder", {"case": case}, "other object", "results")


def ref_draws(seed, key):
    return [int(x) for x in np.random.default_rng(np.random.SeedSequence(seed, spawn_key=tuple(key))).integers(0, 2 ** 63, K_DRAWS)]


def oracle_rng_single(res, case, ob):
    """the generator is default_rng(SeedSequence(seed, spawn_key=(chain_index,)))"""
    seed, idx = case["seed"], case["idx"]
    if harness_error(res, case, ob.get("error")):
        return False
    if ob.get("error"):
        res.fail("sample raises for a valid (seed, n_chains, chain_index)", case, ob["error"], "no exception", signature="C17:rng-raises")
        return False
    if ob.get("rng", 0) is None:
        res.fail("model was never given a generator", case, None, "set_rng(generator)", signature="C17:rng-missing")
        return False
    if ob["draws"] != ref_draws(seed, (idx,)):      # WHICH stream it is belongs to the model (tie); the property's clauses are relational
        res.disagree("C17:rng-not-chain-stream", {"case": case}, {"entropy": ob["entropy"], "spawn_key": ob["key"], "first_draws": ob["draws"][:3]},
                     {"entropy": seed, "spawn_key": [idx], "first_draws": ref_draws(seed, (idx,))[:3]})
    return True


def oracle_rng_pair(res, case, oa, ob):
    """case: seed_a,n_a,i_a, seed_b,n_b,i_b; equal iff (seed, idx) equal; different streams do not overlap in their first draws"""
    same = (case["seed_a"], case["i_a"]) == (case["seed_b"], case["i_b"])
    same_family = (case["seed_a"], case["n_a"]) == (case["seed_b"], case["n_b"])
    if oa.get("error") or ob.get("error") or oa.get("draws") is None or ob.get("draws") is None:
        return
    # stated: identical triples -> identical; another chain index of the same (seed, n_chains) -> non-overlapping.
    # independence of n_chains and distinctness across seeds are the model's (tie).
    if same and oa["draws"] != ob["draws"]:
        if same_family:
            res.fail("same (seed, n_chains, chain_index) gives different generators", case, [oa["draws"][:3], ob["draws"][:3]], "identical streams",
                     signature="C17:rng-not-deterministic")
        else:
            res.disagree("C17:rng-depends-on-n-chains", {"case": case}, [oa["draws"][:3], ob["draws"][:3]], "identical streams")
    if not same and set(oa["draws"]) & set(ob["draws"]):
        if same_family:
            res.fail("different chains / seeds share generator output", case, [oa["draws"][:3], ob["draws"][:3]], "different, non-overlapping streams",
                     signature="C17:rng-shared-stream")
        else:
            res.disagree("C17:rng-shared-across-families", {"case": case}, [oa["draws"][:3], ob["draws"][:3]], "different streams")


def oracle_vi(res, case, o):
    seed, n = case["seed"], case["n"]
    if harness_error(res, case, o["error"]):
        return
    if o["error"]:
        res.fail("VI sampling raises", case, o["error"], "no exception", signature="C17:vi-raises")
        return
    if o["calls"] != [n]:
        res.fail("VI model not asked exactly once for n samples", case, o["calls"], [n], signature="C17:vi-once")
        return
    tr = o["trace"]
    if len(tr) < 3 or tr[0] != "R" or not tr[1].startswith("G") or not tr[2].startswith("S") or tr.count("R") != 1:
        res.disagree("C17:vi-order", {"case": case}, tr[:4], ["R", "G..", "S.."])      # call order inside the VI branch: the model's
    if o["n_added"] != n or not o["complete"]:
        res.fail("VI samples do not leave the collection complete", case, {"added": o["n_added"], "complete": o["complete"]}, n, signature="C17:vi-holder")
        return
    if o["order"] != list(range(n)):
        res.disagree("C17:vi-sample-order", {"case": case}, o["order"][:10], list(range(n))[:10])
    if o["draws"] != ref_draws(seed, ()):
        res.disagree("C17:vi-rng", {"case": case}, (o["draws"] or [])[:3], ref_draws(seed, ())[:3])


# ----------------------------------------------------------------------------------------------
def seeds_for(ctx):
    rng = ctx.subrng("seeds")
    base = [0, 1, 2, 2 ** 32 - 1, 2 ** 32, 2 ** 64 + 5]
    extra = ctx.scale(4, 44)
    return base + [rng.randrange(0, 2 ** rng.choice([8, 31, 63, 100])) for _ in range(extra)]


def run(ctx, res):
    res.rule = RULE
    drv = ctx.driver
    lines, expect, meta = [], [], []

    # ---------- A. schedule ------------------------------------------------------------------
    bmax, tmax, nmax = ctx.scale((6, 4, 5), (20, 8, 10), (10, 6, 7))
    for b, t, n in itertools.product(range(bmax + 1), range(1, tmax + 1), range(nmax + 1)):
        vb = (b + 2 * t + 3 * n) % 6 == 0 or (b, t, n) in ((0, 1, 0), (0, 1, 1), (1, 2, 1))
        case = {"kind": "schedule", "n": n, "b": b, "t": t, "verbose": vb}
        o = run_mcmc(n, b, t, verbose=vb)
        if vb:
            res.count("class.verbose-logging")
            verbose_vs_plain(res, case, o)
        res.evaluations += 1
        oracle_schedule(res, case, o)
        if b >= 1 and t >= 2 and n >= 2:
            res.nontrivial.add(("sched", b, t, n))
        res.count("schedule.n0" if n == 0 else "schedule.n_ge_1")
        res.count("class.identity-cache")        # model and holder are temporaries built per call (dirty on purpose); only the result is kept
        if b % t != 0 and n >= 1:
            res.count("class.size-boundaries")                       # burn-in not a multiple of thin
        if b == 0 or n == 0 or t == 1:
            res.count("class.falsy-boundaries")
        lines.append("schedule %d %d %d" % (n, b, t))
        expect.append("%d %s" % (0 if o["error"] is None else 1, show_list(o["trace"])))
        meta.append(case)
        res.traces_validated += 1
    # class falsy-boundaries x object state: burn-in 0 (and n_thetas 0 / thin 1) on a model that was stepped by hand before the call;
    # class layout/dtype: every integer argument as np.int64
    for b, t, n, pre in itertools.product((0, 1), (1, 2, 3), (0, 1, 3), (1, 4)):
        for npi in (False, True):
            case = {"kind": "schedule", "n": n, "b": b, "t": t, "prestep": pre, "np_int": npi}
            o = run_mcmc(n, b, t, prestep=pre, np_int=npi)
            res.evaluations += 1
            oracle_schedule(res, case, o)
            if b == 0:
                res.count("class.falsy-boundaries")
                res.count("falsy.burnin0_prestepped_model")
            if npi:
                res.count("class.layout-dtype")
            lines.append("schedule %d %d %d" % (n, b, t))
            expect.append("%d %s" % (0 if o["error"] is None else 1, show_list(o["trace"])))
            meta.append(case)
    # class int-width: burn-in / thin / n straddling 127/128 and 255/256/257
    for (b, t, n) in [(127, 2, 2), (128, 3, 1), (129, 1, 2), (255, 2, 1), (256, 1, 3), (257, 3, 2), (3, 127, 2), (2, 128, 2), (1, 129, 1), (0, 255, 1),
                      (5, 256, 2), (1, 257, 1), (2, 1, 127), (1, 2, 128), (0, 1, 129), (3, 1, 255), (1, 1, 256), (2, 1, 257)]:
        case = {"kind": "schedule", "n": n, "b": b, "t": t}
        o = run_mcmc(n, b, t)
        res.evaluations += 1
        oracle_schedule(res, case, o)
        res.count("class.int-width")
        lines.append("schedule %d %d %d" % (n, b, t))
        expect.append("%d %s" % (0 if o["error"] is None else 1, show_list(o["trace"])))
        meta.append(case)
    # the same schedule with the progress bar switched on (train_model --progress): both loops then run through a live tqdm
    pb, pt, pn = ctx.scale((3, 3, 3), (6, 4, 4), (4, 3, 3))
    for b, t, n in itertools.product(range(pb + 1), range(1, pt + 1), range(pn + 1)):
        case = {"kind": "schedule", "n": n, "b": b, "t": t, "progress": True}
        o = run_mcmc(n, b, t, progress=True)
        res.evaluations += 1
        oracle_schedule(res, case, o)
        res.count("schedule.progress_bar")
        lines.append("schedule %d %d %d" % (n, b, t))
        expect.append("%d %s" % (0 if o["error"] is None else 1, show_list(o["trace"])))
        meta.append(case)
    # a few larger ones
    rng = ctx.subrng("big")
    for _ in range(ctx.scale(10, 100)):
        b, t, n = rng.randrange(0, 300), rng.randrange(1, 40), rng.randrange(0, 30)
        case = {"kind": "schedule", "n": n, "b": b, "t": t}
        o = run_mcmc(n, b, t)
        res.evaluations += 1
        oracle_schedule(res, case, o)
        res.nontrivial.add(("sched", b, t, n))
        res.count("schedule.large")
        lines.append("schedule %d %d %d" % (n, b, t))
        expect.append("%d %s" % (0 if o["error"] is None else 1, show_list(o["trace"])))
        meta.append(case)
    # out of the property's domain: tie only (thin = 0 records nothing and raises nothing; negative burn-in = none)
    for (n, b, t) in [(0, 0, 0), (3, 2, 0), (1, 0, 0), (2, -1, 2), (2, -5, 1), (0, -1, 3)]:
        o = run_mcmc(n, b, t)
        lines.append("schedule %d %d %d" % (n, b, t))
        expect.append("%d %s" % (0 if o["error"] is None else 1, show_list(o["trace"])))
        meta.append({"kind": "schedule-out-of-domain", "n": n, "b": b, "t": t})
        res.count("schedule.out_of_domain")
    res.sample({"kind": "schedule", "n": 2, "b": 1, "t": 2, "impl_trace": run_mcmc(2, 1, 2)["trace"], "positions": run_mcmc(2, 1, 2)["positions"]})

    # ---------- A2. models that already hold a generator / reused models / repeated triples -------
    crng = ctx.subrng("calls")
    sd = seeds_for(ctx)
    call_cases = []
    for mdl in ("stub", "real"):
        s1, s2 = sd[1], sd[4]
        # (a)/(b) a model constructed with a generator, first call
        call_cases.append({"kind": "calls", "model": mdl, "preset": True, "fresh_each": True, "n": 2, "b": 1, "t": 2,
                           "calls": [[s1, 3, 1], [s1, 3, 1], [s2, 2, 0]]})
        # (c) the same object a second and third time: other seed, first seed again, other chain index, other n_chains
        call_cases.append({"kind": "calls", "model": mdl, "preset": True, "fresh_each": False, "n": 2, "b": 1, "t": 2,
                           "calls": [[s1, 3, 1], [s2, 3, 1], [s1, 3, 1], [s1, 3, 2], [s1, 5, 1]]})
        call_cases.append({"kind": "calls", "model": mdl, "preset": False, "fresh_each": False, "n": 1, "b": 0, "t": 1,
                           "calls": [[s1, 2, 0], [s1, 2, 0], [s2, 4, 3], [s1, 4, 0]]})
        # (c2) burn-in 0 on models that are NOT in their initial state: stepped by hand before the first call, then reused with other seeds /
        #      chain indices and with the first triple again (seed 0 and chain 0 included): the states recorded by EVERY call must be those
        #      after t, 2t, ... steps from a reset model driven by this call's generator
        for fresh in (False, True):
            call_cases.append({"kind": "calls", "model": mdl, "preset": True, "fresh_each": fresh, "n": 2, "b": 0, "t": 2, "prestep": 3,
                               "calls": [[0, 2, 0], [s2, 2, 1], [0, 2, 0], [0, 3, 0]]})
        call_cases.append({"kind": "calls", "model": mdl, "preset": True, "fresh_each": False, "n": 1, "b": 0, "t": 1, "prestep": 1,
                           "calls": [[s1, 1, 0], [s1, 1, 0], [0, 1, 0]]})
        # (d) fresh models, triples in several orders with repeats, one process
        for _ in range(ctx.scale(2, 12) if mdl == "stub" else ctx.scale(1, 4)):
            pool = [[crng.choice(sd[:8]), nc, crng.randrange(nc)] for nc in (1, 2, 3, 5) for _r in range(2)]
            seq = pool + [list(crng.choice(pool)) for _r in range(6)]
            crng.shuffle(seq)
            call_cases.append({"kind": "calls", "model": mdl, "preset": crng.random() < 0.5, "fresh_each": crng.random() < 0.6,
                               "n": crng.choice([1, 2]), "b": crng.choice([0, 1, 3]), "t": crng.choice([1, 2]), "calls": seq})
    for ci, case in enumerate(call_cases):
        if ci % 4 == 1:
            case["verbose"] = True
            res.count("class.verbose-logging")
        obs_c = run_calls(case)
        res.evaluations += len(obs_c)
        res.count("calls.%s.%s.%s" % (case["model"], "preset" if case["preset"] else "norng", "fresh" if case["fresh_each"] else "reused"), len(obs_c))
        oracle_calls(res, case, obs_c)
        res.nontrivial.add(("calls", case["model"], case["preset"], case["fresh_each"], tuple(tuple(c) for c in case["calls"])))
        if not case["fresh_each"]:
            res.count("class.object-reuse", len(obs_c) - 1)          # later calls on the same model object, other arguments
            res.count("class.reuse-other-seed", sum(1 for a_, b_ in zip(case["calls"], case["calls"][1:]) if (a_[0], a_[2]) != (b_[0], b_[2])))
        if case["b"] == 0 and (case.get("prestep") or not case["fresh_each"]):
            res.count("class.falsy-boundaries", len(obs_c))
            res.count("falsy.burnin0_prestepped_or_reused_model", len(obs_c))
        if any(c[0] == 0 or c[2] == 0 for c in case["calls"]):
            res.count("class.falsy-boundaries")                      # seed 0 / chain index 0
        for j, o in enumerate(obs_c):
            # tie: the real call sequence reset -> set_rng -> steps of THIS call against the generated trace, and the spawn key
            lines.append("schedule %d %d %d" % (case["n"], case["b"], case["t"]))
            expect.append("%d %s" % (0 if o["error"] is None else 1, show_list(o["trace"])))
            meta.append({"kind": "calls-trace", "case": case, "call": j})
            if o.get("entropy") is not None:
                lines.append("chainrng %d %d %d" % tuple(o["call"]))
                expect.append("%d %s" % (o["entropy"], show_list(o["key"])))
                meta.append({"kind": "calls-rng", "case": case, "call": j})
    res.sample({"kind": "calls", "model": "real", "preset": True, "fresh_each": False, "calls": call_cases[4]["calls"]})

    # ---------- A3. class entry-point: train_model.main() (argv, files); what the model is handed and what is written -----------
    import shutil
    import tempfile
    tmpd = tempfile.mkdtemp(prefix="c17_")
    try:
        earlier = []
        cli_cases = []
        for preset in (False, True):
            # seed 0 (given, and left to the default), chain 0, burn-in 0, burn-in not a multiple of thin; each family twice
            cli_cases += [
                {"seed": 0, "n_chains": 2, "idx": 0, "n": 2, "b": 1, "t": 2, "preset": preset},
                {"seed": 0, "n_chains": 2, "idx": 1, "n": 2, "b": 1, "t": 2, "preset": preset, "verbose": True},
                {"seed": 0, "n_chains": 2, "idx": 0, "n": 2, "b": 1, "t": 2, "preset": preset, "omit_default_seed": True, "partial": True},
                {"seed": 5, "n_chains": 3, "idx": 2, "n": 1, "b": 0, "t": 3, "preset": preset, "progress": preset},
                {"seed": 5, "n_chains": 3, "idx": 0, "n": 3, "b": 3, "t": 2, "preset": preset, "verbose": preset},
            ]
        for j in range(ctx.scale(0, 12)):
            nc = crng.choice([1, 2, 4])
            cli_cases.append({"seed": crng.choice([0, 1, sd[5]]), "n_chains": nc, "idx": crng.randrange(nc), "n": crng.choice([1, 2]), "b": crng.choice([0, 1, 3]),
                              "t": crng.choice([1, 2]), "preset": crng.random() < 0.5, "verbose": crng.random() < 0.3})
        for c_ in cli_cases:
            case = dict(c_, kind="train_cli")
            o = run_train_cli(case, tmpd)
            # NOTE: (0,2,0) with and without `partial` train on the same observed rows, so the streams AND states must coincide
            oracle_train_cli(res, case, o, earlier)
            if case.get("verbose") and not o.get("error"):
                # the same input without --verbose: same stream, same file (compared through `earlier`: identical triple)
                oracle_train_cli(res, case, run_train_cli(dict(case, verbose=False), tmpd), earlier)
                oracle_train_cli(res, case, run_train_cli(case, tmpd), earlier)
            res.evaluations += 1
            res.count("class.entry-point.train_model")
            if case.get("verbose"):
                res.count("class.verbose-logging")
            if case["seed"] == 0 or case["idx"] == 0:
                res.count("class.falsy-boundaries")
            res.nontrivial.add(("train_cli", case["seed"], case["n_chains"], case["idx"], bool(case.get("preset"))))
            if not o.get("error"):
                if o.get("entropy") is not None:
                    lines.append("chainrng %d %d %d" % (case["seed"], case["n_chains"], case["idx"]))
                    expect.append("%d %s" % (o["entropy"], show_list(o["key"])))
                    meta.append(dict(case, kind="train-cli-rng"))
    finally:
        shutil.rmtree(tmpd, ignore_errors=True)

    # ---------- B. generator -----------------------------------------------------------------
    seeds = seeds_for(ctx)
    cmax = ctx.scale(5, 8)
    obs = {}
    for seed in seeds:
        for nc in range(1, cmax + 1):
            for idx in range(nc):
                case = {"kind": "rng", "seed": seed, "n_chains": nc, "idx": idx}
                ob = rng_observe(seed, nc, idx)
                obs[(seed, nc, idx)] = ob
                res.evaluations += 1
                res.count("rng.single")
                oracle_rng_single(res, case, ob)
                if not ob.get("error") and ob.get("draws") is not None:
                    lines.append("chainrng %d %d %d" % (seed, nc, idx))
                    expect.append("%d %s" % (ob["entropy"], show_list(ob["key"])))
                    meta.append(case)
    # pairs: same (seed, idx) under different n_chains; different idx; different seed
    prng = ctx.subrng("pairs")
    keys = sorted(obs.keys())
    pairs = []
    for seed in seeds:
        for idx in range(cmax):
            ncs = [nc for nc in range(idx + 1, cmax + 1)]
            for a, b_ in zip(ncs, ncs[1:]):
                pairs.append(((seed, a, idx), (seed, b_, idx)))
        for nc in range(2, cmax + 1):
            for i, j in itertools.combinations(range(nc), 2):
                pairs.append(((seed, nc, i), (seed, nc, j)))
    for _ in range(ctx.scale(200, 3000)):
        pairs.append((prng.choice(keys), prng.choice(keys)))
    for ka, kb in pairs:
        case = {"kind": "rng_pair", "seed_a": ka[0], "n_a": ka[1], "i_a": ka[2], "seed_b": kb[0], "n_b": kb[1], "i_b": kb[2]}
        oracle_rng_pair(res, case, obs[ka], obs[kb])
        res.evaluations += 1
        same = (ka[0], ka[2]) == (kb[0], kb[2])
        res.count("rng.pair.same" if same else "rng.pair.different")
        if ka != kb:
            res.nontrivial.add(("rngpair", ka, kb))
    # determinism of a whole run: same triple twice => identical recorded draws; other chain => different
    for seed in seeds[:ctx.scale(4, 20)]:
        a = run_mcmc(3, 2, 2, seed=seed, n_chains=3, idx=1)
        b_ = run_mcmc(3, 2, 2, seed=seed, n_chains=5, idx=1)
        c = run_mcmc(3, 2, 2, seed=seed, n_chains=3, idx=2)
        res.evaluations += 1
        case = {"kind": "rng_run", "seed": seed}
        a2 = run_mcmc(3, 2, 2, seed=seed, n_chains=3, idx=1)
        if a["draws"] != a2["draws"] or a["recorded_draws"] != a2["recorded_draws"]:
            res.fail("same (seed, n_chains, chain_index) gives different generators", case, [a["draws"][:3], a2["draws"][:3]], "identical runs",
                     signature="C17:rng-not-deterministic")
        if a["draws"] != b_["draws"] or a["recorded_draws"] != b_["recorded_draws"]:
            res.disagree("C17:rng-depends-on-n-chains", {"case": case}, [a["draws"][:3], b_["draws"][:3]], "identical runs")
        if set(a["draws"]) & set(c["draws"]):
            res.fail("different chains / seeds share generator output", case, [a["draws"][:3], c["draws"][:3]], "different streams",
                     signature="C17:rng-shared-stream")
    # class cross-process determinism: the same triples in ANOTHER interpreter process with another PYTHONHASHSEED give the same streams
    triples = [(s_, nc, i_) for s_ in seeds[:3] for (nc, i_) in ((1, 0), (3, 2))]
    other, errtxt = other_process_draws(triples)
    if other is None:
        res.notes.append("cross-process run failed: " + errtxt)
    else:
        for tr_, dr in zip(triples, other):
            res.evaluations += 1
            res.count("class.cross-process")
            if dr != obs[(tr_[0], tr_[1], tr_[2])].get("draws"):
                res.fail("same (seed, n_chains, chain_index) gives different generators", {"kind": "rng", "seed": tr_[0], "n_chains": tr_[1], "idx": tr_[2]},
                         dr[:3] if dr else dr, "the stream observed in this process", signature="C17:rng-not-deterministic")
    # class int-width: n_chains / chain_index / burn-in / thin straddling 127/128 and 255/256/257
    for nc, idx in ((127, 126), (128, 127), (129, 128), (255, 254), (256, 255), (257, 256), (257, 128), (257, 0)):
        for seed in (0, seeds[3]):
            ka, kb = (seed, nc, idx), (seed, nc, idx - 1 if idx else 1)
            for kk in (ka, kb):
                if kk not in obs:
                    obs[kk] = rng_observe(*kk)
                    oracle_rng_single(res, {"kind": "rng", "seed": kk[0], "n_chains": kk[1], "idx": kk[2]}, obs[kk])
                    lines.append("chainrng %d %d %d" % kk)
                    expect.append("err:%s" % obs[kk]["error"] if obs[kk].get("error") else "%d %s" % (obs[kk]["entropy"], show_list(obs[kk]["key"])))
                    meta.append({"kind": "rng", "seed": kk[0], "n_chains": kk[1], "idx": kk[2]})
            again = rng_observe(*ka)
            res.evaluations += 2
            res.count("class.int-width")
            oracle_rng_pair(res, {"kind": "rng_pair", "seed_a": ka[0], "n_a": ka[1], "i_a": ka[2], "seed_b": ka[0], "n_b": ka[1], "i_b": ka[2]}, obs[ka], again)
            oracle_rng_pair(res, {"kind": "rng_pair", "seed_a": ka[0], "n_a": ka[1], "i_a": ka[2], "seed_b": kb[0], "n_b": kb[1], "i_b": kb[2]}, obs[ka], obs[kb])
    # refusals: tie only (error class)
    for (seed, nc, idx) in [(5, 3, 3), (5, 3, 7), (5, 1, 1), (-1, 3, 0), (-7, 2, 1), (5, 3, -1), (5, 3, -3), (5, 3, -4), (5, 0, 0), (9, 4, 3)]:
        ob = rng_observe(seed, nc, idx)
        lines.append("chainrng %d %d %d" % (seed, nc, idx))
        expect.append("err:%s" % ob["error"] if ob.get("error") else "%d %s" % (ob["entropy"], show_list(ob["key"])))
        meta.append({"kind": "rng-refusal", "seed": seed, "n_chains": nc, "idx": idx})
        res.count("rng.refusal_or_wrap")
    res.sample({"kind": "rng", "seed": 5, "n_chains": 3, "idx": 1, "observed": {k: v for k, v in rng_observe(5, 3, 1).items() if k != "draws"}})

    # ---------- C. VI branch -----------------------------------------------------------------
    for seed in seeds[:ctx.scale(6, 30)]:
        for n in range(0, ctx.scale(5, 9)):
            case = {"kind": "vi", "seed": seed, "n": n, "verbose": (n % 3 == 0)}
            o = run_vi(seed, n, verbose=case["verbose"])
            if case["verbose"]:
                res.count("class.verbose-logging")
            res.evaluations += 1
            res.count("vi")
            oracle_vi(res, case, o)
            if n >= 2:
                res.nontrivial.add(("vi", seed, n))
            lines.append("vi %d %d %d" % (seed, n, n))
            expect.append("%s %s" % (show_trace(o["trace"]), "ok" if not o["error"] else "err:" + o["error"]))
            meta.append(case)
            # the VI branch as GENERATED from the source (no seed, no holder capacity in that picture)
            if not o["error"]:
                lines.append("vigen %d %d" % (n, n))
                expect.append("0 %s" % show_list(vi_codes(o["trace"])))
                meta.append(dict(case, kind="vi-generated"))
            # the VI stream differs from every chain stream of the same seed
            if o["draws"] is not None:
                for idx in range(min(3, cmax)):
                    ob = obs.get((seed, cmax, idx))
                    if ob and ob.get("draws") and set(ob["draws"]) & set(o["draws"]):
                        res.disagree("C17:vi-stream-is-a-chain-stream", {"case": dict(case, other_chain=idx)}, o["draws"][:3], "VI stream differs from chain streams")
    for (seed, n, r) in [(3, 2, 3), (3, 2, 0), (3, 0, 1), (3, 4, 2), (-1, 2, 2), (3, 1, 5)]:
        o = run_vi(seed, n, returned=r)
        lines.append("vi %d %d %d" % (seed, n, r))
        expect.append("%s %s" % (show_trace(o["trace"]), "ok" if not o["error"] else "err:" + o["error"]))
        meta.append({"kind": "vi-tie", "seed": seed, "n": n, "returned": r})
        if not o["error"]:
            lines.append("vigen %d %d" % (n, r))
            expect.append("0 %s" % show_list(vi_codes(o["trace"])))
            meta.append({"kind": "vi-generated", "seed": seed, "n": n, "returned": r})
        res.count("vi.miscounted_return")
    res.sample({"kind": "vi", "seed": 7, "n": 3, "impl_trace": run_vi(7, 3)["trace"]})

    # ---------- D. argument refusals of the real function (not modelled; reported as counts) ---
    from batchie.sampling import sample
    _S, CountingMCMC, _V, Holder = _stubs()
    for missing in ("n_chains", "chain_index", "n_burnin", "thin"):
        kw = dict(n_chains=2, chain_index=0, n_burnin=1, thin=1)
        kw[missing] = None
        tr = []
        try:
            sample(CountingMCMC(tr), Holder(1, tr, 1), seed=1, **kw)
            res.notes.append("sample accepted %s=None" % missing)
        except ValueError:
            res.count("refusal.missing_argument")
        except Exception as e:  # noqa
            res.notes.append("sample raised %s for %s=None" % (type(e).__name__, missing))
        if tr:
            res.notes.append("model touched before argument check (%s)" % missing)

    drain_wrapper_errors(res)
    # ---------- tie ----------------------------------------------------------------------------
    if drv is not None:
        got = drv.ask(lines)
        for l, e, g_, m in zip(lines, expect, got, meta):
            if e != g_:
                res.disagree("C17:%s" % m["kind"], {"line": l, "case": m}, e[:400], g_[:400])
        res.count("tie.lines", len(lines))


def vi_codes(tr):
    """the VI stub's trace in the translator's event codes: R -> 2, G.. -> 3, S<n> -> 4,n, A -> 1"""
    out = []
    for e in tr:
        if e == "R":
            out.append(2)
        elif e == "A":
            out.append(1)
        elif str(e).startswith("G"):
            out.append(3)
        elif str(e).startswith("S"):
            out += [4, int(str(e)[1:])]
    return out


def show_trace(tr):
    return "-" if not tr else ",".join(str(x) for x in tr)


def replay(ctx, case, res):
    try:
        _replay(ctx, case, res)
    finally:
        drain_wrapper_errors(res, case)


def _replay(ctx, case, res):
    k = case.get("kind")
    if k == "schedule" and case.get("verbose"):
        verbose_vs_plain(res, case, run_mcmc(case["n"], case["b"], case["t"], progress=bool(case.get("progress")),
                                             prestep=int(case.get("prestep", 0)), np_int=bool(case.get("np_int")), verbose=True))
    if k == "schedule":
        # several times in a row on fresh temporaries (and another schedule in between): state keyed by object identity shows on a later one
        for _ in range(12):
            oracle_schedule(res, case, run_mcmc(case["n"], case["b"], case["t"], progress=bool(case.get("progress")),
                                                prestep=int(case.get("prestep", 0)), np_int=bool(case.get("np_int")), verbose=bool(case.get("verbose"))))
            run_mcmc(1, 1, 1)
        oracle_schedule(res, case, run_mcmc(case["n"], case["b"], case["t"], progress=bool(case.get("progress")),
                                            prestep=int(case.get("prestep", 0)), np_int=bool(case.get("np_int")), verbose=bool(case.get("verbose"))))
    elif k == "rng":
        # twice in one process: a stream that depends on earlier calls shows on the second
        t3 = (case["seed"], case["n_chains"], case["idx"])
        d1, d2 = rng_observe(*t3), rng_observe(*t3)
        oracle_rng_single(res, case, d1)
        other, _e = other_process_draws([t3])
        if d1.get("draws") != d2.get("draws") or (other is not None and other[0] != d1.get("draws")):
            res.fail("same (seed, n_chains, chain_index) gives different generators", case, [d1.get("draws", [])[:3], d2.get("draws", [])[:3], (other or [None])[0]],
                     "identical streams in this process and in another one", signature="C17:rng-not-deterministic")
    elif k == "train_cli":
        import shutil
        import tempfile
        tmpd = tempfile.mkdtemp(prefix="c17r_")
        try:
            earlier = []
            for cc in (case.get("earlier"),):
                if cc:      # the earlier run it was compared with
                    oracle_train_cli(res, dict(case, seed=cc[0], n_chains=cc[1], idx=cc[2]), run_train_cli(dict(case, seed=cc[0], n_chains=cc[1], idx=cc[2]), tmpd), earlier)
            oracle_train_cli(res, case, run_train_cli(case, tmpd), earlier)
            oracle_train_cli(res, case, run_train_cli(case, tmpd), earlier)
        finally:
            shutil.rmtree(tmpd, ignore_errors=True)
    elif k == "calls":
        oracle_calls(res, case, run_calls(case))
    elif k == "rng_pair":
        for _ in range(2):      # twice in one process (see "rng")
            oracle_rng_pair(res, case, rng_observe(case["seed_a"], case["n_a"], case["i_a"]), rng_observe(case["seed_b"], case["n_b"], case["i_b"]))
    elif k == "vi":
        # twice in one process, and once more after an MCMC call with the same seed: a generator that depends on earlier calls shows
        oracle_vi(res, case, run_vi(case["seed"], case["n"], verbose=bool(case.get("verbose"))))
        oracle_vi(res, case, run_vi(case["seed"], case["n"], verbose=bool(case.get("verbose"))))
        rng_observe(case["seed"], 2, 1)
        oracle_vi(res, case, run_vi(case["seed"], case["n"], verbose=bool(case.get("verbose"))))
    else:
        run(ctx, res)
